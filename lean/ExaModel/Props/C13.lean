import ExaModel.Lemmas.JsonText
set_option linter.unusedSimpArgs false
set_option linter.unusedVariables false
/-!
# C13 — API events stay well-formed whatever a peer sends

Statement (properties.jsonl): every event ExaBGP writes to an API process — for any message a
peer can cause to be decoded, in JSON or text encoding, API version 4 or 6 — can always be
rendered and written to the pipe, and is exactly one well-formed record: a JSON event is a single
line that parses, has no duplicate key inside any object and carries the documented envelope; a
text event has the expected number of lines and no control character or line break taken from
peer data.  Peer-chosen strings appear only as escaped values and cannot add, remove or forge a
field or an event.

Model: `Exa.Json` (M-Json).  What is proved here, for ALL inputs:

* the record checker `parseLine` (strict RFC 8259, one line, duplicate keys rejected at any depth)
  is sound for "no duplicate key" and "no control character", and complete on everything a
  printer that escapes through `quote` can write (`parse_render`), so it rejects nothing it should
  accept;
* the escaper the JSON encoder uses (`json.dumps`, modelled by `quote`) is safe for every Python
  string: pure printable ASCII out, the string token ends exactly at the closing quote that was
  written whatever follows, and reads back as exactly the string — hence hostile leaves cannot
  change the key skeleton of a record (`hostile_leaves_keep_skeleton`);
* the escaper of the text encoder (`text.oneline`, modelled by `oneline` over the generated
  `str.isprintable` table) never lets a control character or a line break through, and is pure
  ASCII on ASCII input.

What is NOT true of the code and is therefore stated as a witness (`finding`):

* `oneline_safe` — "every code point of `oneline s` is one `Processes.write` can encode
  (`bytes(line, 'ascii')`)" — is false: `oneline_safe_fails` (F29, `é` passes through).  The full
  statement is proved of the repaired function (`onelineFixed_safe`).
* `oneline_injective` is false: a real line feed and the two characters backslash-n collide
  (`oneline_not_injective`; backslash is printable, so it is not escaped).  Injectivity is proved
  where the input has no backslash (`oneline_injective_partial`).  No field or event can be forged
  by this collision, so it is recorded, not raised.

Strength: **partial** — checker and escapers are proved for all inputs; that each of the ~140
hand-written `json()` producers of /repo routes every peer-chosen string through `json.dumps`, and
never repeats a key, is not a theorem: it is checked by running this very parser on the
implementation's output (harness/props/C13.py).
-/
namespace Exa.Props.C13
open Exa Exa.Json

/-! ## The record checker -/

/-- **Completeness.** Any JSON value without duplicate keys, whose strings are Python strings
    and whose numbers are number literals, written in ExaBGP's spacing with every string through
    `json.dumps`, is accepted by the strict parser and read back as exactly that value. -/
theorem parse_render (j : J) (hw : j.wf = true) (hn : j.nodup = true) : parse (render j) = .ok j :=
  parse_render_lemma j hw hn

/-- **single_line.** Such a rendering consists of printable ASCII only: no line feed, no carriage
    return, no control character — and `bytes(line, 'ascii')` in `Processes.write` cannot fail. -/
theorem single_line (j : J) (hw : j.wf = true) :
    (∀ x ∈ render j, 0x20 ≤ x ∧ x < 0x7F) ∧ 0x0A ∉ render j ∧ 0x0D ∉ render j ∧ asciiEncodable (render j) = true := by
  have h := render_ascii j hw
  refine ⟨h, fun m => ?_, fun m => ?_, ?_⟩
  · have := h _ m; omega
  · have := h _ m; omega
  · simp only [asciiEncodable, List.all_eq_true, decide_eq_true_eq]
    intro x hx; have := h x hx; omega

/-- The pipe record checker accepts it as well (one line, one value, nothing else). -/
theorem parseLine_render (j : J) (hw : j.wf = true) (hn : j.nodup = true) : parseLine (render j) = .ok j := by
  have h : firstCtl (render j) = none := (firstCtl_none_iff _).2 (fun x hx => (render_ascii j hw x hx).1)
  simp only [parseLine, h, parse_render j hw hn]

/-- **Soundness of the duplicate-key check (`parse_nodup`).** Whatever the parser accepts has no
    object, at any depth, with the same key twice. -/
theorem parse_nodup (s : List Nat) (j : J) (h : parse s = .ok j) : j.nodup = true :=
  parse_nodup_lemma s j h

/-- The same for the pipe record checker, which moreover accepts no record containing a control
    character (so none containing a line break): an accepted record is a single line. -/
theorem parseLine_sound (s : List Nat) (j : J) (h : parseLine s = .ok j) :
    j.nodup = true ∧ (∀ x ∈ s, 0x20 ≤ x) ∧ 0x0A ∉ s ∧ 0x0D ∉ s := by
  unfold parseLine at h
  split at h
  · cases h
  · rename_i hc
    have hall := (firstCtl_none_iff s).1 hc
    refine ⟨parse_nodup s j h, hall, fun m => ?_, fun m => ?_⟩
    · have := hall _ m; omega
    · have := hall _ m; omega

/-! ## json.dumps -/

/-- **escape_safe.** For every Python string `s` (any code points below 0x110000, lone
    surrogates included; the only exclusion is a high surrogate directly followed by a low one,
    which *is* the astral code point — see `escape_pair_collision`): `json.dumps(s)` is printable
    ASCII only — in particular no code point below 0x20, and every `"` and `\` of `s` is escaped,
    which is what the third conjunct says: read as a string token, the output ends exactly at the
    closing quote that was written, **whatever follows it**, and holds exactly `s` — and as a JSON
    text it parses back to exactly `.str s`. -/
theorem escape_safe (s : Str) (hs : wfStr s = true) :
    (∀ x ∈ quote s, 0x20 ≤ x ∧ x < 0x7F) ∧
    (∀ rest, lexStr (escBody s ++ 0x22 :: rest) = some (s, rest)) ∧
    parse (quote s) = .ok (.str s) := by
  refine ⟨quote_ascii s, fun rest => lexStr_escBody s hs rest, ?_⟩
  have := parse_render (.str s) (by simpa [J.wf] using hs) (by rfl)
  simpa [render] using this

/-- No two Python strings have the same escaped form: a hostile value cannot be made to look like
    another value. -/
theorem escape_injective (s t : Str) (hs : wfStr s = true) (ht : wfStr t = true) (h : quote s = quote t) : s = t := by
  have a := (escape_safe s hs).2.2
  have b := (escape_safe t ht).2.2
  rw [h, b] at a
  cases a; rfl

/-- The excluded case, as Python behaves: the two lone surrogates U+D83D U+DE00 are written
    `"😀"`, which every JSON reader (Python's included) reads as the single code point
    U+1F600.  Not reachable from peer data (`bytes.decode('utf-8', 'replace')` yields no
    surrogates). -/
theorem escape_pair_collision : parse (quote [0xD83D, 0xDE00]) = .ok (.str [0x1F600]) := by decide

/-- **Hostile leaves cannot add, remove or forge a field.** Two records that differ only in the
    content of their string leaves and numbers (same keys, same structure: equal skeletons) are
    both accepted and are read back with equal key skeletons — whatever the strings contain
    (quotes, backslashes, line breaks, `}{`, JSON fragments, any code point). -/
theorem hostile_leaves_keep_skeleton (j₁ j₂ : J) (hw₁ : j₁.wf = true) (hn₁ : j₁.nodup = true)
    (hw₂ : j₂.wf = true) (hn₂ : j₂.nodup = true) (h : j₁.skel = j₂.skel) :
    ∃ r₁ r₂, parseLine (render j₁) = .ok r₁ ∧ parseLine (render j₂) = .ok r₂ ∧ r₁.skel = r₂.skel :=
  ⟨j₁, j₂, parseLine_render j₁ hw₁ hn₁, parseLine_render j₂ hw₂ hn₂, h⟩

/-! ## text.oneline -/

/-- Obligations on the generated `str.isprintable` table (one pass over the table each): all of
    U+0000..U+001F, all of U+007F..U+00A0 and U+2028/U+2029 are non-printable; nothing in
    0x20..0x7E is. -/
theorem printable_table_controls :
    covered 0 0x1F = true ∧ covered 0x7F 0xA0 = true ∧ covered 0x2028 0x2029 = true ∧ asciiFree = true :=
  ⟨table_c0, table_c1, table_seps, table_ascii⟩

/-- **oneline_safe, the part that holds.** No code point of `oneline s` is a control character
    (C0, DEL, C1), NBSP, or a Unicode line / paragraph separator, for every `s`: a text record
    cannot be broken in two by peer data. -/
theorem oneline_no_control (s : Str) (x : Nat) (hx : x ∈ oneline s) :
    0x20 ≤ x ∧ x ≠ 0x7F ∧ ¬ (0x80 ≤ x ∧ x ≤ 0xA0) ∧ x ≠ 0x2028 ∧ x ≠ 0x2029 := by
  rcases escWith_mem isPrintable s x hx with ⟨hp, _⟩ | h
  · by_cases hlow : x < 0xA1
    · have := printable_low x hlow hp; omega
    · refine ⟨by omega, by omega, by omega, fun e => ?_, fun e => ?_⟩
      · rw [printable_seps x (Or.inl e)] at hp; cases hp
      · rw [printable_seps x (Or.inr e)] at hp; cases hp
  · omega

/-- On ASCII input `oneline` writes printable ASCII only. -/
theorem oneline_ascii_of_ascii (s : Str) (hs : ∀ c ∈ s, c < 0x80) : ∀ x ∈ oneline s, 0x20 ≤ x ∧ x < 0x7F := by
  intro x hx
  rcases escWith_mem isPrintable s x hx with ⟨hp, hm⟩ | h
  · exact printable_low x (by have := hs x hm; omega) hp
  · exact h

/-- **oneline_safe is false of the code (F29).** Full statement: `∀ s, ∀ x ∈ oneline s, 0x20 ≤ x ∧
    x < 0x7F` (everything `bytes(line, 'ascii')` can encode).  Witness: `é` (U+00E9) is printable,
    passes through, and `Processes.write` raises `UnicodeEncodeError`. -/
theorem oneline_safe_fails : ¬ (∀ s : Str, asciiEncodable (oneline s) = true) := by
  intro h
  have := h [0xE9]
  revert this
  decide +kernel

/-- **oneline_safe, full, for the proposed repair** (`onelineFixed`: pass through only printable
    ASCII): every code point written is printable ASCII, for every input. -/
theorem onelineFixed_safe (s : Str) : (∀ x ∈ onelineFixed s, 0x20 ≤ x ∧ x < 0x7F) ∧ asciiEncodable (onelineFixed s) = true := by
  have h : ∀ x ∈ onelineFixed s, 0x20 ≤ x ∧ x < 0x7F := by
    intro x hx
    rcases escWith_mem _ s x hx with ⟨hp, _⟩ | h
    · simp only [Bool.and_eq_true, decide_eq_true_eq] at hp
      exact printable_low x (by omega) hp.1
    · exact h
  refine ⟨h, ?_⟩
  simp only [asciiEncodable, List.all_eq_true, decide_eq_true_eq]
  intro x hx; have := h x hx; omega

/-- **oneline_injective is false of the code.** Full statement: `oneline s = oneline t → s = t`.
    Witness: a line feed and the two characters `\` `n`. -/
theorem oneline_not_injective : oneline [0x0A] = oneline [0x5C, 0x6E] ∧ ([0x0A] : Str) ≠ [0x5C, 0x6E] := by
  decide +kernel

/-- **oneline_injective_partial.** Where neither string contains a backslash, equal output means
    equal input (the escapes `\t \n \r \xHH \uHHHH \UHHHHHHHH` are self-delimiting); it holds of
    the code's `oneline` and of the repaired one. -/
theorem oneline_injective_partial (s t : Str) (hs : ∀ c ∈ s, c ≠ 0x5C ∧ c < 0x110000)
    (ht : ∀ c ∈ t, c ≠ 0x5C ∧ c < 0x110000) :
    (oneline s = oneline t → s = t) ∧ (onelineFixed s = onelineFixed t → s = t) := by
  constructor
  · intro h
    have a := unOneline_escWith isPrintable s hs
    have b := unOneline_escWith isPrintable t ht
    simp only [oneline] at h
    rw [h, b] at a; exact a.symm
  · intro h
    have a := unOneline_escWith (fun c => isPrintable c && decide (c < 0x80)) s hs
    have b := unOneline_escWith (fun c => isPrintable c && decide (c < 0x80)) t ht
    simp only [onelineFixed] at h
    rw [h, b] at a; exact a.symm

/-- The text record check of the driver: `firstNonText l = none` iff `l` is printable ASCII only. -/
theorem textline_spec (l : Str) : firstNonText l = none ↔ ∀ x ∈ l, 0x20 ≤ x ∧ x < 0x7F := by
  induction l with
  | nil => simp [firstNonText]
  | cons c t ih =>
    simp only [firstNonText, List.mem_cons, forall_eq_or_imp]
    by_cases h : 0x20 ≤ c ∧ c < 0x7F
    · simp only [h, and_self, if_true, Option.map_eq_none_iff, ih, true_and]
    · simp only [h, if_false, false_and]; simp

/-! ## Non-vacuity: the hypotheses are satisfiable and the checker discriminates -/

/-- An event shaped like ExaBGP's with a hostile leaf (the host name holds `"},{`, a line feed,
    a backslash, `é`, an astral code point, a lone surrogate and `"type": "down"`):
    `{ "exabgp": "6.0.0", "time": 1695480000.25, "neighbor": { "address": { "local": "127.0.0.1" },
       "open": { "hostname": <hostile>, "families": [ "ipv4 unicast", true, null ] } } }` -/
def sample : J :=
  .obj (.cons [0x65, 0x78, 0x61, 0x62, 0x67, 0x70] (.str [0x36, 0x2E, 0x30, 0x2E, 0x30]) (.cons [0x74, 0x69, 0x6D, 0x65] (.num [0x31, 0x36, 0x39, 0x35, 0x34, 0x38, 0x30, 0x30, 0x30, 0x30, 0x2E, 0x32, 0x35])
    (.cons [0x6E, 0x65, 0x69, 0x67, 0x68, 0x62, 0x6F, 0x72] (.obj (.cons [0x61, 0x64, 0x64, 0x72, 0x65, 0x73, 0x73] (.obj (.cons [0x6C, 0x6F, 0x63, 0x61, 0x6C] (.str [0x31, 0x32, 0x37, 0x2E, 0x30, 0x2E, 0x30, 0x2E, 0x31]) .nil))
      (.cons [0x6F, 0x70, 0x65, 0x6E] (.obj (.cons [0x68, 0x6F, 0x73, 0x74, 0x6E, 0x61, 0x6D, 0x65] (.str ([0x22, 0x7D, 0x2C, 0x7B, 0x0A, 0x5C, 0xE9, 0x1F600, 0xDC80] ++ [0x22, 0x74, 0x79, 0x70, 0x65, 0x22, 0x3A, 0x20, 0x22, 0x64, 0x6F, 0x77, 0x6E, 0x22]))
        (.cons [0x66, 0x61, 0x6D, 0x69, 0x6C, 0x69, 0x65, 0x73] (.arr (.cons (.str [0x69, 0x70, 0x76, 0x34, 0x20, 0x75, 0x6E, 0x69, 0x63, 0x61, 0x73, 0x74]) (.cons (.bool true) (.cons .null .nil)))) .nil))) .nil))) .nil)))

example : sample.wf = true ∧ sample.nodup = true := by decide +kernel
/-- accepted, read back exactly, and a single line -/
example : parseLine (render sample) = .ok sample := parseLine_render sample (by decide +kernel) (by decide +kernel)
example : 0x0A ∉ render sample := (single_line sample (by decide +kernel)).2.1

/-- F9's shape is rejected, at depth, and the key is named: `{ "update": { "attribute": { "aggregator": "1:1.1.1.1", "aggregator": "2:2.2.2.2" } } }` -/
example : parseLine [0x7B, 0x20, 0x22, 0x75, 0x70, 0x64, 0x61, 0x74, 0x65, 0x22, 0x3A, 0x20, 0x7B, 0x20, 0x22, 0x61, 0x74, 0x74, 0x72, 0x69, 0x62, 0x75, 0x74, 0x65, 0x22, 0x3A, 0x20, 0x7B, 0x20, 0x22, 0x61, 0x67, 0x67, 0x72, 0x65, 0x67, 0x61, 0x74, 0x6F, 0x72, 0x22, 0x3A, 0x20, 0x22, 0x31, 0x3A, 0x31, 0x2E, 0x31, 0x2E, 0x31, 0x2E, 0x31, 0x22, 0x2C, 0x20, 0x22, 0x61, 0x67, 0x67, 0x72, 0x65, 0x67, 0x61, 0x74, 0x6F, 0x72, 0x22, 0x3A, 0x20, 0x22, 0x32, 0x3A, 0x32, 0x2E, 0x32, 0x2E, 0x32, 0x2E, 0x32, 0x22, 0x20, 0x7D, 0x20, 0x7D, 0x20, 0x7D]
    = .error (.dup [0x61, 0x67, 0x67, 0x72, 0x65, 0x67, 0x61, 0x74, 0x6F, 0x72] 19) := by decide +kernel
/-- the same key in two different objects is fine: `{ "a": { "x": 1 }, "b": { "x": 2 } }` -/
example : (parseLine [0x7B, 0x20, 0x22, 0x61, 0x22, 0x3A, 0x20, 0x7B, 0x20, 0x22, 0x78, 0x22, 0x3A, 0x20, 0x31, 0x20, 0x7D, 0x2C, 0x20, 0x22, 0x62, 0x22, 0x3A, 0x20, 0x7B, 0x20, 0x22, 0x78, 0x22, 0x3A, 0x20, 0x32, 0x20, 0x7D, 0x20, 0x7D]).isOk
    = true := by decide +kernel
/-- trailing garbage: `{ "a": 1 } x` -/
example : parseLine [0x7B, 0x20, 0x22, 0x61, 0x22, 0x3A, 0x20, 0x31, 0x20, 0x7D, 0x20, 0x78]
    = .error (.bad 1) := by decide +kernel
/-- a second record on the same line: `{ "a": 1 }{ "b": 2 }` -/
example : parseLine [0x7B, 0x20, 0x22, 0x61, 0x22, 0x3A, 0x20, 0x31, 0x20, 0x7D, 0x7B, 0x20, 0x22, 0x62, 0x22, 0x3A, 0x20, 0x32, 0x20, 0x7D]
    = .error (.bad 10) := by decide +kernel
/-- a raw line feed inside a string: `{ "a": "x\ny" }` -/
example : (parseLine [0x7B, 0x20, 0x22, 0x61, 0x22, 0x3A, 0x20, 0x22, 0x78, 0x0A, 0x79, 0x22, 0x20, 0x7D]).isOk
    = false := by decide +kernel
/-- a raw line feed between tokens is JSON but not one line: `{ "a": 1,\n"b": 2 }` -/
example : (parseLine [0x7B, 0x20, 0x22, 0x61, 0x22, 0x3A, 0x20, 0x31, 0x2C, 0x0A, 0x22, 0x62, 0x22, 0x3A, 0x20, 0x32, 0x20, 0x7D]).isOk
    = false := by decide +kernel
-- `{ "a": 1,\n"b": 2 }`
example : (parse [0x7B, 0x20, 0x22, 0x61, 0x22, 0x3A, 0x20, 0x31, 0x2C, 0x0A, 0x22, 0x62, 0x22, 0x3A, 0x20, 0x32, 0x20, 0x7D]).isOk
    = true := by decide +kernel
/-- a trailing comma: `[ 1, 2, ]` -/
example : (parseLine [0x5B, 0x20, 0x31, 0x2C, 0x20, 0x32, 0x2C, 0x20, 0x5D]).isOk
    = false := by decide +kernel
/-- a leading zero: `[ 01 ]` -/
example : (parseLine [0x5B, 0x20, 0x30, 0x31, 0x20, 0x5D]).isOk
    = false := by decide +kernel
/-- an unescaped quote: `{ "a": "x"y" }` -/
example : (parseLine [0x7B, 0x20, 0x22, 0x61, 0x22, 0x3A, 0x20, 0x22, 0x78, 0x22, 0x79, 0x22, 0x20, 0x7D]).isOk
    = false := by decide +kernel
/-- the hostile host name of GHSA-jcrv-p53f-v5w5 through `oneline`: still one line -/
example : oneline [0x61, 0x0A, 0x6E, 0x65, 0x69, 0x67, 0x68, 0x62, 0x6F, 0x72, 0x20, 0x31, 0x2E, 0x32, 0x2E, 0x33, 0x2E, 0x34, 0x20, 0x64, 0x6F, 0x77, 0x6E, 0x20, 0x2D, 0x20, 0x66, 0x6F, 0x72, 0x67, 0x65, 0x64]
    = [0x61, 0x5C, 0x6E, 0x6E, 0x65, 0x69, 0x67, 0x68, 0x62, 0x6F, 0x72, 0x20, 0x31, 0x2E, 0x32, 0x2E, 0x33, 0x2E, 0x34, 0x20, 0x64, 0x6F, 0x77, 0x6E, 0x20, 0x2D, 0x20, 0x66, 0x6F, 0x72, 0x67, 0x65, 0x64] := by decide +kernel
/-- `café` + U+2028: the code lets `é` through, the repair escapes it -/
example : oneline [0x63, 0x61, 0x66, 0xE9, 0x2028] = [0x63, 0x61, 0x66, 0xE9] ++ [0x5C, 0x75, 0x32, 0x30, 0x32, 0x38] := by decide +kernel
example : onelineFixed [0x63, 0x61, 0x66, 0xE9, 0x2028] = [0x63, 0x61, 0x66, 0x5C, 0x78, 0x65, 0x39, 0x5C, 0x75, 0x32, 0x30, 0x32, 0x38] := by decide +kernel

end Exa.Props.C13
