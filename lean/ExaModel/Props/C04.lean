import ExaModel.Lemmas.RibDown
set_option linter.unusedSimpArgs false
/-!
# C04 — Adj-RIB-Out converges

Statement (properties.jsonl): for any sequence of announce, withdraw, watchdog,
route-refresh/flush and clear operations arriving at any time relative to message
transmission, once the outgoing queue has drained the table a peer obtains by applying, in
order, every UPDATE sent equals the table reported as Adj-RIB-Out.  No stale announcement
survives a later announce or withdraw of the same prefix, no withdrawn route is resurrected.

Model: `Exa.Rib` (M-Rib).  `Sess.run` executes any list of operations, `start`/`next` being the
generator steps of `Peer._send_route_updates` interleaved arbitrarily with the RIB operations;
`Sess.drain` consumes what is in flight and one more generator; `applyEvs` is the peer.
API `clear adj-rib out` is `withdrawAll`.  Hypotheses that remain and are part of the
statement: adj-rib-out is kept (`cacheOn = true`, `Sess.init true`), `paths_limit` not in force.
-/
namespace Exa.Props.C04
open Exa Exa.Rib

/-- **C04 (full statement).** From session start, after any operations in any interleaving
    with the transmission steps and a final drain, the peer's table is the reported
    Adj-RIB-Out — for every NLRI. -/
theorem c04_converges (fams : List Nat) (ops : List Op) (hops : ∀ op ∈ ops, op.isUp = true) (n : Nat) :
    let r := (Sess.init true fams).run ops
    AList.lookup n (applyEvs [] (r.2 ++ r.1.drain.2)) = r.1.drain.1.rib.cacheView n := by
  intro r
  have g := good_run (Sess.init true fams) [] ops hops (good_init fams)
  have := good_drain r.1 _ g n
  simpa [applyEvs, List.foldl_append] using this

/-- The same from any state satisfying the invariant (e.g. right after re-establishment, see C11),
    with whatever the peer already holds. -/
theorem c04_converges_from (s : Sess) (t : Table) (g : Good s t) (ops : List Op)
    (hops : ∀ op ∈ ops, op.isUp = true) (n : Nat) :
    let r := s.run ops
    AList.lookup n (applyEvs t (r.2 ++ r.1.drain.2)) = r.1.drain.1.rib.cacheView n := by
  intro r
  have g' := good_run s t ops hops g
  have := good_drain r.1 _ g' n
  simpa [applyEvs, List.foldl_append] using this

/-- **No stale announcement / no resurrection.** If the last thing that happened to a prefix is a
    withdraw, the peer does not hold it after the drain — whatever was queued, in flight or
    already sent before. -/
theorem c04_withdrawn_stays_withdrawn (fams : List Nat) (ops : List Op)
    (hops : ∀ op ∈ ops, op.isUp = true) (n f : Nat) :
    let r := (Sess.init true fams).run (ops ++ [Op.del n f])
    AList.lookup n (applyEvs [] (r.2 ++ r.1.drain.2)) = none := by
  intro r
  have hops' : ∀ op ∈ ops ++ [Op.del n f], op.isUp = true := by
    intro op hop
    rcases List.mem_append.1 hop with h | h
    · exact hops op h
    · simp at h; subst h; rfl
  have h := c04_converges fams (ops ++ [Op.del n f]) hops' n
  simp only at h
  rw [h, Rib.cacheView, drain_cache]
  have g := good_run (Sess.init true fams) [] ops hops (good_init fams)
  have hc := g.cacheOn
  simp only [run_append, Sess.run, Sess.step, Rib.del, hc, if_true, AList.lookup_erase_self, Option.map_none]

/-- **The last announce wins.** After a (forced or new) announce of a route as the last thing
    that happened to its prefix, the peer holds exactly its attributes and next hop. -/
theorem c04_last_announce_wins (fams : List Nat) (ops : List Op)
    (hops : ∀ op ∈ ops, op.isUp = true) (r : Route) :
    let x := (Sess.init true fams).run (ops ++ [Op.add r true])
    AList.lookup r.nlri (applyEvs [] (x.2 ++ x.1.drain.2)) = some (r.attr, r.nh) := by
  intro x
  have hops' : ∀ op ∈ ops ++ [Op.add r true], op.isUp = true := by
    intro op hop
    rcases List.mem_append.1 hop with h | h
    · exact hops op h
    · simp at h; subst h; rfl
  have h := c04_converges fams (ops ++ [Op.add r true]) hops' r.nlri
  simp only at h
  rw [h, Rib.cacheView, drain_cache]
  have g := good_run (Sess.init true fams) [] ops hops (good_init fams)
  have hc := g.cacheOn
  simp [run_append, Sess.run, Sess.step, Rib.add, Rib.updateRib, hc]

/-! Non-vacuity: a concrete history with a re-announce under other attributes inside one flush
    window (the F1 shape), a withdraw racing a partially consumed generator and a refresh. -/
def rt (n f a h : Nat) : Route := { nlri := n, fam := f, attr := a, nh := h }

def demoOps : List Op :=
  [ .add (rt 1 1 7 1) false, .add (rt 1 1 8 1) false, .add (rt 1 1 7 1) false,
    .add (rt 2 1 7 1) false, .start, .next, .del 2 1, .resend true none, .add (rt 3 2 9 2) false, .next ]

example : ∀ op ∈ demoOps, op.isUp = true := by decide
example : ((Sess.init true [1, 2]).run demoOps).1.drain.1.rib.cacheView 1 = some (7, 1) := by decide
example : AList.lookup 1 (applyEvs [] (((Sess.init true [1, 2]).run demoOps).2
    ++ ((Sess.init true [1, 2]).run demoOps).1.drain.2)) = some (7, 1) := by decide
example : AList.lookup 2 (applyEvs [] (((Sess.init true [1, 2]).run demoOps).2
    ++ ((Sess.init true [1, 2]).run demoOps).1.drain.2)) = none := by decide

end Exa.Props.C04

namespace Exa.Props.C04
open Exa Exa.Rib
/-- The F1 shape on the repaired model: `A/x, A/y, A/x` in one window sends `A/x` only (the
    entry under `y` would have been sent after it and is dropped). -/
example : ((Sess.init true [1]).run [.add (rt 1 1 7 1) false, .add (rt 1 1 8 1) false,
    .add (rt 1 1 7 1) false]).1.drain.2 = [Ev.ann (rt 1 1 7 1)] := by decide
/-- …whereas `A/x, A/y` sends both, in that order (behaviour pinned by the repository's tests). -/
example : ((Sess.init true [1]).run [.add (rt 1 1 7 1) false, .add (rt 1 1 8 1) false]).1.drain.2
    = [Ev.ann (rt 1 1 7 1), Ev.ann (rt 1 1 8 1)] := by decide
/-- The F2 shape: `A/x, A/y, withdraw A` announces nothing (the withdraw itself is not put on the
    wire by the first generator of a session: the peer's table is still empty). -/
example : ((Sess.init true [1]).run [.add (rt 1 1 7 1) false, .add (rt 1 1 8 1) false,
    .del 1 1]).1.drain.2 = [] := by decide
theorem flushed_not_pending (r : Rib) : r.flushed.pending = false := by
  simp [Rib.flushed, Rib.pending]

/-- after a drain nothing is in flight and nothing is queued -/
theorem drain_quiet (s : Sess) : s.drain.1.inflight = none ∧ s.drain.1.rib.pending = false := by
  unfold Sess.drain Sess.finish Sess.step
  cases hi : s.inflight with
  | none =>
    simp only [hi]
    cases hp : s.rib.pending with
    | false => simp [hi, hp]
    | true => simp [hi, hp, flushed_not_pending]
  | some evs =>
    simp only [hi]
    cases hp : s.rib.pending with
    | false => simp [hp]
    | true => simp [hp, flushed_not_pending]

/-- **Drained means drained.** Once the outgoing queue has drained, ExaBGP puts nothing more on
    the wire until a new operation arrives: a second drain — and any number of further generator
    steps (`start`, `next`) — sends nothing and leaves the reported Adj-RIB-Out as it is. The
    converged table of `c04_converges` is therefore final, not a point the stream passes through. -/
theorem c04_drained_is_silent (s : Sess) :
    s.drain.1.drain.2 = [] ∧ s.drain.1.drain.1.rib = s.drain.1.rib := by
  obtain ⟨hi, hp⟩ := drain_quiet s
  generalize s.drain.1 = d at hi hp
  unfold Sess.drain Sess.finish Sess.step
  simp [hi, hp]

theorem c04_drained_steps_silent (s : Sess) (ops : List Op)
    (hops : ∀ op ∈ ops, op = .start ∨ op = .next) :
    (s.drain.1.run ops).2 = [] ∧ (s.drain.1.run ops).1.rib = s.drain.1.rib := by
  obtain ⟨hi, hp⟩ := drain_quiet s
  generalize s.drain.1 = d at hi hp
  induction ops generalizing d with
  | nil => simp [Sess.run]
  | cons op ops ih =>
    have hstep : d.step op = (d, []) := by
      rcases hops op List.mem_cons_self with h | h <;> subst h <;> simp [Sess.step, hi, hp]
    simp only [Sess.run, hstep]
    have := ih (fun o ho => hops o (List.mem_cons_of_mem _ ho)) d hi hp
    simpa using this


/-- non-vacuity: an announce queued at session start is sent by the first drain, nothing by the second -/
example : ((Sess.init true [1]).run [.add { nlri := 7, fam := 1, attr := 3, nh := 9 } false]).1.drain.2
    = [Ev.ann { nlri := 7, fam := 1, attr := 3, nh := 9 }] := by decide

end Exa.Props.C04
