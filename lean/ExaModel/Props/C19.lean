import ExaModel.Lemmas.DecodeCacheToy
import ExaModel.Generated.DecodeCacheTable
set_option linter.unusedSimpArgs false
set_option linter.unusedVariables false
/-!
# C19 — Decoding does not depend on what was decoded before

Statement (properties.jsonl): the result of decoding a message depends only on its bytes and on
the negotiated parameters of the session it arrived on: for any sequence of messages received on
any number of concurrent sessions, each message yields the same routes, attributes and API
output as it would in a fresh process.  Objects shared between decoded messages (cached
attribute sets, singletons) are never altered by later processing.

Model: `Exa.DecodeCache` (M-DecodeCache).  A history is a `List (Params × Bytes)`: the attribute
block of each UPDATE with the negotiated parameters of the session it arrived on, in arrival
order, sessions interleaved arbitrarily.  `decodeAll P h` is what the process-wide
`AttributeCollection.cached/previous` logic hands out for each of them starting from a fresh
process, `decodeFresh P h = h.map parse` is what a fresh process yields for each.  The parse
function `P` is arbitrary (a parameter).

**Full statement** (what the property demands of the attribute cache):

    ∀ P h, decodeAll P h = decodeFresh P h

It is FALSE of the unchanged code (`c19_fails`, finding F8: the key is the bytes only, the parse
reads `negotiated.asn4` and `negotiated.aigp`).  Proved instead:
`c19_partial` (sessions agree on what the parse depends on), and the full statement for the
cache keyed by bytes + `(asn4, aigp)` (`c19_repaired`), under the hypothesis
`Parser.DependsOnlyOn` (= `parse_depends_only_on`: what a sound key must contain), which is tied to
the source by the generated table `reads` (`c19_reads_outside_mp_are_in_key`).
The second sentence of the property (shared objects never altered) is structural for values; the
one place where the code shares *mutable class state* between decoded objects is the
`kls.ID = code` rewrite of `Attribute.klass` / `Capability.klass`: harmless for attributes
(`c19_attr_klass_rewrite_harmless`), not for capabilities (`c19_cap_klass_rewrite_alters_earlier`).
-/
namespace Exa.Props.C19
open Exa Exa.DecodeCache Exa.DecodeCache.Toy Exa.Generated

/-! ## The property -/

/-- **C19 is false of the attribute cache as it is (finding F8).**  Even for a parser whose
    stored results depend on nothing but `(asn4, aigp)`, two sessions that differ in `asn4`
    receiving the same block do not both get what a fresh process yields: the second one is
    served the first one's parse.  Hence the negation of the full statement. -/
theorem c19_fails : ¬ ∀ (P : Parser Nat) (h : List (Params × Bytes)), decodeAll P h = decodeFresh P h := by
  intro hall
  have := hall toy [(s4, f8), (s2, f8)]
  revert this
  decide

/-- The witness, spelled out: the toy parser meets the key hypothesis of `c19_repaired` (its stored
    results depend on the parameters through `(asn4, aigp)` only), and the history "block
    `02 02 0001 0002 02 01 0003` on an ASN4 session, then on a 2-byte session" (corpus/C19/01) yields
    `[4, 4]` where fresh processes yield `[4, 2]`. -/
theorem c19_fails_witness :
    toy.DependsOnlyOn Params.attrKey ∧
      decodeAll toy [(s4, f8), (s2, f8)] = [4, 4] ∧ decodeFresh toy [(s4, f8), (s2, f8)] = [4, 2] :=
  ⟨toy_depends, by decide, by decide⟩

/-- The same failure through the other parameter the decoders read: an AIGP block parsed on a
    session where AIGP is enabled is served to a session where it is not. -/
theorem c19_fails_aigp : decodeAll toy [(s4ai, [26, 1]), (s4, [26, 1])] ≠ decodeFresh toy [(s4ai, [26, 1]), (s4, [26, 1])] := by
  decide

/-- **C19, partial (the unchanged code).**  If the stored results of the parse depend on the
    negotiated parameters only through `dep`, and all sessions of the history agree on `dep`,
    then every message of every history — any number of sessions, any interleaving, repeated
    blocks, MP / treat-as-withdraw / failing blocks in between — yields what a fresh process
    yields.  Missing for the full statement: sessions that differ in `dep` (= `asn4`, `aigp`). -/
theorem c19_partial {ρ δ : Type} [DecidableEq δ] (P : Parser ρ) (dep : Params → δ)
    (parse_depends_only_on : P.DependsOnlyOn dep)
    (h : List (Params × Bytes)) (agree : ∀ x ∈ h, ∀ y ∈ h, dep x.1 = dep y.1) :
    decodeAll P h = decodeFresh P h := by
  unfold decodeAll decodeFresh
  exact run_transparent (soundKey_bytes_on parse_depends_only_on h agree) h []
    (inv_nil _ _ _ _) (fun i hi => hi)

/-- **C19, full statement, for the cache keyed by the bytes and `(asn4, aigp)`** (the repair of
    F8): for every parse function whose stored results depend on the parameters only through
    what the key contains, every message of every history yields what a fresh process yields. -/
theorem c19_repaired {ρ : Type} (P : Parser ρ) (parse_depends_only_on : P.DependsOnlyOn Params.attrKey)
    (h : List (Params × Bytes)) :
    decodeAllFixed P h = decodeFresh P h := by
  unfold decodeAllFixed decodeFresh
  exact run_transparent (soundKey_full parse_depends_only_on) h [] (inv_nil _ _ _ _) (fun _ _ => trivial)

/-- The same, message by message: the `i`-th result is the parse of the `i`-th block under the
    parameters of the session it arrived on. -/
theorem c19_repaired_each {ρ : Type} (P : Parser ρ) (parse_depends_only_on : P.DependsOnlyOn Params.attrKey)
    (h : List (Params × Bytes)) (i : Nat) (hi : i < h.length) :
    (decodeAllFixed P h)[i]? = some (P.parse h[i].1 h[i].2) := by
  rw [c19_repaired P parse_depends_only_on h]
  simp [decodeFresh, hi]

/-- The repaired cache is still a cache: a block that parses to an ordinary attribute set and
    arrives twice in a row on sessions with the same `(asn4, aigp)` is parsed once. -/
theorem c19_repaired_still_caches {ρ : Type} (P : Parser ρ) (p p' : Params) (bs : Bytes)
    (hk : p.attrKey = p'.attrKey) (hplain : P.kind (P.parse p bs) = .plain) :
    runHits P.policy keyFull (fun x : Params × Bytes => P.parse x.1 x.2) [] [(p, bs), (p', bs)] = [false, true] := by
  simp [runHits, access, Store.after, Parser.policy, keyFull, hplain, Kind.effect, Kind.truthy, AList.lookup, hk]

/-- The model's store has the shape of the code's `(previous, cached)` pair: never two entries. -/
theorem c19_single_slot {ρ : Type} (P : Parser ρ) (st : State Bytes ρ) (x : Params × Bytes) (h : st.length ≤ 1) :
    (unpackCached P st x).1.length ≤ 1 := by
  unfold unpackCached unpackCachedK
  exact access_single_length rfl st _ _ h

/-- **The dict caches** (`Community.cache`, `LargeCommunity._instance_cache`,
    `UpdateCollection._EOR_CACHE`, `CapabilityCode._cache`) are keyed by the whole input of a pure
    constructor `mk`: over any history every lookup yields `mk key`. -/
theorem c19_dict_cache_transparent {κ ρ : Type} [DecidableEq κ] (mk : κ → ρ) (ks : List κ) :
    (run (Policy.dict ρ) (fun k : κ => k) mk [] ks).2 = ks.map mk := by
  apply run_transparent (U := fun _ => True) _ ks [] (inv_nil _ _ _ _) (fun _ _ => trivial)
  intro i j _ _ hk _ _
  simp only at hk
  rw [hk]

/-! ## Class attributes rewritten during dispatch -/

/-- **`Attribute.klass`'s `kls.ID = attribute_id` never alters a decoded attribute**: no
    attribute class is registered under two codes (generated table), so after any history of
    dispatches every attribute object ever returned still reads the code it was decoded from. -/
theorem c19_attr_klass_rewrite_harmless (dflt : Nat) (cs : List Nat) (i : Inst)
    (hi : some i ∈ (dispatchAll DecodeCacheTable.attrRegistry [] cs).2) :
    Inst.currentID (dispatchAll DecodeCacheTable.attrRegistry [] cs).1 dflt i = i.code :=
  dispatchAll_currentID (singleCodeB_sound (by decide)) dflt cs [] (regInv_nil _) i hi

/-- **`Capability.klass`'s `kls.ID = what` does alter an earlier decoded capability** (finding):
    `RouteRefresh` is registered for codes 2 and 128 (`MultiSession` for 68 and 131); after an OPEN
    with capability 128 has been decoded, the capability object of an OPEN decoded earlier from
    code 2 reads `ID = 128` ("Cisco" variant in its JSON and text). -/
theorem c19_cap_klass_rewrite_alters_earlier :
    ∃ (cs : List Nat) (i : Inst), some i ∈ (dispatchAll DecodeCacheTable.capRegistry [] cs).2 ∧
      Inst.currentID (dispatchAll DecodeCacheTable.capRegistry [] cs).1 2 i ≠ i.code :=
  ⟨[2, 128], { cls := 12, code := 2 }, by decide, by decide⟩

/-- The capability registry does register one class under two codes. -/
theorem c19_cap_registry_not_single_code : singleCodeB DecodeCacheTable.capRegistry = false := by decide

/-! ## Tie of the key hypothesis to the source -/

/-- Every read of a negotiated field on the decode side of the attribute package is either in a
    module whose results are never stored (`uncachedModules`: MP_REACH / MP_UNREACH) or reads a
    field the repaired key contains.  A new dependence added in /repo breaks this obligation. -/
theorem c19_reads_outside_mp_are_in_key :
    ∀ row ∈ DecodeCacheTable.reads, row.1 ∈ DecodeCacheTable.uncachedModules ∨ row.2.2 ∈ ["asn4", "aigp"] := by
  decide

/-- The results that are never stored are exactly those carrying MP_REACH_NLRI (14) or
    MP_UNREACH_NLRI (15) (`Kind.mp`). -/
theorem c19_uncached_codes : DecodeCacheTable.uncachedCodes = [14, 15] := by decide

/-! ## Non-vacuity -/

/-- the hypotheses of `c19_repaired` hold of the toy parser, which does depend on `asn4`, on
    `aigp`, and (for blocks that are never stored) on ADD-PATH -/
example : toyParse s4 f8 ≠ toyParse s2 f8 := by decide
example : toyParse s4ai [26, 1] ≠ toyParse s4 [26, 1] := by decide
example : toyParse s4ap [14, 0] ≠ toyParse s4 [14, 0] := by decide

/-- a mixed history over four sessions: what the unchanged cache yields differs from a fresh
    process exactly at the two F8 positions … -/
def mixed : List (Params × Bytes) :=
  [(s4, f8), (s4, f8), (s2, f8), (s4ap, [14, 0]), (s2, f8), (s4, f8), (s4, [255]), (s2, f8), (s4, [254]),
   (s4ai, [26, 1]), (s4, [26, 1]), (s4, []), (s4, []), (s4ap, f8)]

example : decodeFresh toy mixed = [4, 4, 2, 1001, 2, 4, 999, 2, 998, 26, 27, 0, 0, 4] := by decide
example : decodeAll toy mixed = [4, 4, 4, 1001, 2, 2, 999, 2, 998, 26, 26, 0, 0, 4] := by decide
/-- … the repaired cache yields the fresh results, and still serves from the cache -/
example : decodeAllFixed toy mixed = decodeFresh toy mixed := by decide
example : runHits toy.policy keyFull (fun x => toy.parse x.1 x.2) [] mixed =
    [false, true, false, false, false, false, false, false, false, false, false, false, false, false] := by decide
example : runHits toy.policy keyBytes (fun x => toy.parse x.1 x.2) [] mixed =
    [false, true, true, false, false, true, false, true, false, false, true, false, false, false] := by decide
/-- `c19_partial` applies to a non-trivial history (two sessions that differ in ADD-PATH only) -/
example : decodeAll toy [(s4, f8), (s4ap, f8), (s4ap, [14, 0]), (s4, f8)] = [4, 4, 1001, 4] := by decide
example : ∀ x ∈ [(s4, f8), (s4ap, f8), (s4ap, [14, 0]), (s4, f8)], ∀ y ∈ [(s4, f8), (s4ap, f8), (s4ap, [14, 0]), (s4, f8)],
    Params.attrKey x.1 = Params.attrKey y.1 := by decide

end Exa.Props.C19
