import ExaModel.Lemmas.TotalErr
import ExaModel.Lemmas.TotalSteps
import ExaModel.Lemmas.TotalValid
import ExaModel.Lemmas.TotalOpen
import ExaModel.Generated.NotifyCodes
set_option linter.unusedSimpArgs false
/-!
# C03 — No peer input can crash or wedge the speaker

Statement (properties.jsonl): any byte string presented as the body of any BGP message type, in any
session state and under any negotiated parameters, is either decoded or refused with a BGP
NOTIFICATION carrying a defined error code; decoding never raises any other error, never loops or
recurses without bound, and finishes in time proportional to the message size. A message that is
valid per the RFCs, however unusual (for instance hundreds of unknown optional attributes), is not
refused.

What is a theorem here, and of what. The theorems are about the RFC reference UPDATE decoder M-Wire
(`Exa.Wire.decodeUpdate`, a total Lean function on ALL `List Nat`, no bound on length) and its counting
twins (`Model/Steps.lean`): (1) every input is answered `.ok` or `.error (c, s)` with `(c, s)` in the
NOTIFICATION table re-extracted from /repo (`decode_total`, `decode_error_defined`); (2) every walk
makes progress, never stops for lack of fuel, and the number of loop iterations — of each walk and of
all walks of a whole UPDATE together — is bounded by the number of bytes (`*_walk_steps`,
`update_work_linear`): the model's notion of "time proportional to the size"; (3) a well-formed
UPDATE is never refused, in particular one made of unknown optional attributes, in any number
(`valid_not_refused`, `hundreds_of_unknown_attributes`, `unknown_attributes_any_number`);
(4) the tables: every literal `Notify(code, subcode)` in /repo's source, and every error site of the
reference decoder, is in the defined table, which contains the RFC table (`raised_codes_defined`, …).

This is the PARTIAL form of the property for ExaBGP itself: its ~3 kLoC of Python decoders are not
modelled; that they terminate, raise nothing but `Notify`, stay within a linear call budget and
refuse no message the reference accepts is established by the correspondence runs of
`harness/props/C03.py` on the real `Message.unpack` / `Protocol.read_message` (every message type,
eight session shapes, valid / corrupted / random streams, all lazy parts forced). The missing part is
named: totality and linearity of the Python decoders are sampled, not proved.
-/
namespace Exa.Props.C03
open Exa Exa.Wire Exa.Generated.NotifyCodes

/-! ## 1. decoded, or refused with a defined code -/

/-- **Every error of the reference decoder carries a defined (code, subcode)**: for every parameter
    set and EVERY byte string, an error is a member of the table re-extracted from
    `Notification._str_subcode` (case analysis of all error sites of the decoder + `decide` on the
    finite set of sites). -/
theorem decode_error_defined (p : Params) (bs : Bytes) (c s : Nat)
    (h : decodeUpdate p bs = .error (c, s)) : (c, s) ∈ definedCodes := by
  have h1 := decodeUpdate_err p bs (c, s) h
  have h2 : ∀ e ∈ errSites, e ∈ definedCodes := by decide
  exact h2 _ h1

/-- **Total**: every byte string under every parameter set is decoded, or refused with a defined
    code. (That the function returns at all is by construction: it is a total Lean function; what is
    stated is the shape of the answer.) -/
theorem decode_total (p : Params) (bs : Bytes) :
    (∃ u, decodeUpdate p bs = .ok u) ∨
    (∃ c s, decodeUpdate p bs = .error (c, s) ∧ (c, s) ∈ definedCodes) := by
  cases h : decodeUpdate p bs with
  | ok u => exact Or.inl ⟨u, rfl⟩
  | error e =>
    obtain ⟨c, s⟩ := e
    exact Or.inr ⟨c, s, rfl, decode_error_defined p bs c s h⟩

/-- **Translator obligation (error sites of /repo).** Every literal `Notify(code, subcode, …)` in
    ExaBGP's source — the error sites of its decoders and of the reactor, re-read by AST on every
    run — names a pair of the defined table. Editing a raise site to an undefined pair breaks this. -/
theorem raised_codes_defined : ∀ e ∈ raisedCodes, e ∈ definedCodes := by decide

/-- RFC 4271 §4.5 / §6 (codes 1–6 with their subcodes; subcode 0 = Unspecific), RFC 4486 (Cease 1–8),
    RFC 5492 (2/7), RFC 6608 (5/1–5/3), RFC 7313 (7/1). -/
def rfcCodes : List (Nat × Nat) :=
  [(1, 0), (1, 1), (1, 2), (1, 3),
   (2, 0), (2, 1), (2, 2), (2, 3), (2, 4), (2, 5), (2, 6), (2, 7),
   (3, 0), (3, 1), (3, 2), (3, 3), (3, 4), (3, 5), (3, 6), (3, 7), (3, 8), (3, 9), (3, 10), (3, 11),
   (4, 0), (5, 0), (5, 1), (5, 2), (5, 3),
   (6, 0), (6, 1), (6, 2), (6, 3), (6, 4), (6, 5), (6, 6), (6, 7), (6, 8),
   (7, 1)]

/-- **Translator obligation (the table).** The defined table of /repo contains every RFC pair, has no
    entry outside error codes 1–7, and no duplicate. -/
theorem defined_table_spec :
    (∀ e ∈ rfcCodes, e ∈ definedCodes) ∧ (∀ e ∈ definedCodes, 1 ≤ e.1 ∧ e.1 ≤ 7 ∧ e.2 < 256) ∧
    definedCodes.Nodup := by decide

/-- The ten error sites of the reference decoder are RFC pairs (so `decode_error_defined` does not
    lean on an entry only ExaBGP defines). -/
theorem error_sites_are_rfc : ∀ e ∈ errSites, e ∈ rfcCodes := by decide

/-- **OPEN bodies** (M-OpenCodec, the model of `Open.unpack_message` / `Capabilities.unpack` that C07
    ties to the code): every byte string is decoded or refused with one of five pairs — Bad Message
    Length 1/2, OPEN Message Error 2/0, 2/1, 2/4, 2/5 — all in the defined table. -/
theorem open_decode_total (body : Bytes) :
    (∃ o, Exa.Open.decodeOpen body = .ok o) ∨
    (∃ e, Exa.Open.decodeOpen body = .error e ∧ (e.code, e.sub) ∈ definedCodes) := by
  cases h : Exa.Open.decodeOpen body with
  | ok o => exact Or.inl ⟨o, rfl⟩
  | error e =>
    have h1 := Exa.Open.decodeOpen_err body e h
    have h2 : ∀ x ∈ Exa.Open.openErrSites, x ∈ definedCodes := by decide
    exact Or.inr ⟨e, rfl, h2 _ h1⟩

/-! ## 2. no unbounded loop: progress, fuel, linear iteration counts -/

/-- **The counters count the real walks**: the first component of every counting twin is the walk
    it instruments, for all fuels and inputs. -/
theorem steps_compute_the_walks (p : Params) (afi safi : Nat) (ap wd w4 : Bool) (f : Nat) (bs : Bytes) :
    (decAttrsSteps p f bs).1 = decAttrs p f bs ∧
    (decNlrisSteps afi safi ap wd f bs).1 = decNlris afi safi ap wd f bs ∧
    (decSegsSteps w4 f bs).1 = decSegs w4 f bs ∧
    (decAsnsSteps w4 f bs).1 = decAsns w4 f bs ∧
    (decStackSteps f bs).1 = decStack f bs :=
  ⟨decAttrsSteps_fst p f bs, decNlrisSteps_fst afi safi ap wd f bs, decSegsSteps_fst w4 f bs,
   decAsnsSteps_fst w4 f bs, decStackSteps_fst f bs⟩

/-- **Progress**: whatever a walk parses, it consumes at least the header of it — an attribute at
    least flags, type and one length octet; an NLRI at least its length octet. -/
theorem walks_make_progress (p : Params) (afi safi : Nat) (ap wd : Bool) (bs rest : Bytes) :
    (∀ a, decAttr p bs = .ok (a, rest) → rest.length + 3 ≤ bs.length) ∧
    (∀ n, decNlri afi safi ap wd bs = .ok (n, rest) → rest.length + 1 ≤ bs.length) :=
  ⟨fun a h => decAttr_progress p bs a rest h, fun n h => decNlri_progress afi safi ap wd bs n rest h⟩

/-- **Fuel is never what stops a walk**: the decoder runs its walks with fuel = number of bytes, and
    any fuel at least that large gives the same answer — so no error (and no `.ok`) of the model is an
    artefact of the fuel that makes the recursion structural. -/
theorem fuel_never_binds (p : Params) (afi safi : Nat) (ap wd w4 : Bool) (bs : Bytes) (f : Nat) (hf : bs.length ≤ f) :
    decAttrs p f bs = decAttrs p bs.length bs ∧
    decNlris afi safi ap wd f bs = decNlris afi safi ap wd bs.length bs ∧
    decSegs w4 f bs = decSegs w4 bs.length bs :=
  ⟨decAttrs_fuel p f bs.length bs hf (Nat.le_refl _), decNlris_fuel afi safi ap wd f bs.length bs hf (Nat.le_refl _),
   decSegs_fuel w4 f bs.length bs hf (Nat.le_refl _)⟩

/-- **Attribute walk: at most `len/3 + 1` iterations** (an attribute is at least 3 bytes; the `+ 1` is
    the iteration that finds the error), for every input, valid or not. -/
theorem attr_walk_steps (p : Params) (f : Nat) (bs : Bytes) : (decAttrsSteps p f bs).2 ≤ bs.length / 3 + 1 :=
  decAttrsSteps_le p f bs

/-- **NLRI walk: at most one iteration per byte** (stated as asked, `≤ len + 1`; what is proved is
    `≤ len`). -/
theorem nlri_walk_steps (afi safi : Nat) (ap wd : Bool) (f : Nat) (bs : Bytes) :
    (decNlrisSteps afi safi ap wd f bs).2 ≤ bs.length ∧ (decNlrisSteps afi safi ap wd f bs).2 ≤ bs.length + 1 :=
  ⟨decNlrisSteps_le afi safi ap wd f bs, Nat.le_succ_of_le (decNlrisSteps_le afi safi ap wd f bs)⟩

/-- **AS_PATH / AS4_PATH walk**: segment headers plus AS numbers looked at ≤ number of value bytes;
    the inner AS-number loop never exceeds the count octet. -/
theorem aspath_walk_steps (w4 : Bool) (f n : Nat) (bs : Bytes) :
    (decSegsSteps w4 f bs).2 ≤ bs.length ∧ (decAsnsSteps w4 n bs).2 ≤ n ∧ 2 * (decAsnsSteps w4 n bs).2 ≤ bs.length + 2 :=
  ⟨decSegsSteps_le w4 f bs, decAsnsSteps_le_n w4 n bs, decAsnsSteps_mul w4 n bs⟩

/-- **Label stack walk**: bounded by what the length octet allows and by a third of the bytes. -/
theorem label_walk_steps (n : Nat) (bs : Bytes) :
    (decStackSteps n bs).2 ≤ n ∧ 3 * (decStackSteps n bs).2 ≤ bs.length + 3 := decStackSteps_le n bs

/-- **Capability walk of an OPEN**: the counting twin computes `walkCaps`, and looks at no more than
    `len/2 + 1` capability TLVs (a TLV is at least code and length). -/
theorem cap_walk_steps (fuel : Nat) (data : Bytes) :
    (Exa.Open.walkCapsSteps fuel data).1 = Exa.Open.walkCaps fuel data ∧
    (Exa.Open.walkCapsSteps fuel data).2 ≤ data.length / 2 + 1 := by
  refine ⟨Exa.Open.walkCapsSteps_fst fuel data, ?_⟩
  have := Exa.Open.walkCapsSteps_le fuel data
  omega

/-- **The whole UPDATE: all loop iterations of all walks together ≤ number of bytes of the body** —
    the withdrawn-routes walk, the attribute walk, the walks inside every attribute value (AS_PATH
    segments and AS numbers, community lists, MP_REACH / MP_UNREACH NLRI) and the NLRI walk. This is
    the model's "time proportional to the message size", for every byte string. -/
theorem update_work_linear (p : Params) (bs : Bytes) : updateWork p bs ≤ bs.length := updateWork_le p bs

/-! ## 3. valid, however unusual, is not refused -/

/-- **A well-formed UPDATE is never refused** (all well-formed `u`, no bound on the number of
    attributes, segments, routes): the reference decoder returns exactly `u` from its encoding.
    (`wire_left_inverse` of C02, re-derived here from the same lemma so that C03 does not import C02.) -/
theorem valid_not_refused (p : Params) (u : UpdateSem) (h : WFUpdate p u) :
    decodeUpdate p (encodeUpdate p u) = .ok u := by
  obtain ⟨hw, ha, hn, hW, hA, hsz, hsem⟩ := h
  unfold decodeUpdate
  have c : ¬ (encodeUpdate p u).length + 19 > p.msgSize := by omega
  rw [if_neg c, decodeRaw_encodeUpdate p u hw ha hn hW hA]
  simp only [hsem]

/-- **Hundreds of unknown optional attributes.** An UPDATE made of one zero-length unrecognised
    optional attribute per type code of ANY duplicate-free list of unrecognised codes (there are 240
    such codes) that fits the negotiated size is decoded, not refused. -/
theorem hundreds_of_unknown_attributes (p : Params) (cs : List Nat) (hnd : cs.Nodup)
    (hk : ∀ c ∈ cs, c ∉ knownCodes ∧ c < 256) (hsz : 4 + 3 * cs.length + 19 ≤ p.msgSize)
    (h16 : 3 * cs.length < 65536) :
    decodeUpdate p (encodeUpdate p (unkUpdate cs)) = .ok (unkUpdate cs) :=
  valid_not_refused p (unkUpdate cs) (wfUpdate_unk p cs hnd (fun c hc => (hk c hc).1) hsz h16)

/-- **Any number of them, syntactically** (the message of finding F7: n ≥ 1000 attributes forces
    repeated type codes, which RFC 4271 §6.3 calls malformed and RFC 7606 §3.g tells the receiver to
    survive): for EVERY n, the attribute walk over n zero-length unknown optional attributes returns all
    n of them after exactly n iterations — no depth, no fuel, nothing but the length limits it. -/
theorem unknown_attributes_any_number (p : Params) (cs : List Nat) (hk : ∀ c ∈ cs, c ∉ knownCodes) :
    decAttrs p (encAttrs p (cs.map unkAttr)).length (encAttrs p (cs.map unkAttr)) = .ok (cs.map unkAttr) ∧
    (decAttrsSteps p (encAttrs p (cs.map unkAttr)).length (encAttrs p (cs.map unkAttr))).2 = cs.length ∧
    (encAttrs p (cs.map unkAttr)).length = 3 * cs.length := by
  refine ⟨?_, ?_, encAttrs_unk_length p cs⟩
  · apply decAttrs_encAttrs p (cs.map unkAttr) _ _ (Nat.le_refl _)
    intro a ha
    simp only [List.mem_map] at ha
    obtain ⟨c, hc, rfl⟩ := ha
    exact wf_unkAttr p c (hk c hc)
  · exact decAttrsSteps_unk p cs hk _ (by rw [encAttrs_unk_length]; exact Nat.le_refl _)

/-! ## Non-vacuity -/

def pEx : Params := { asn4 := false, addpath := [], extnh := [], msgSize := 4096 }

/-- the 240 type codes M-Wire does not recognise -/
def unknownCodes : List Nat := (List.range 256).filter (fun c => !knownCodes.contains c)

example : unknownCodes.length = 240 := by decide +kernel
example : unknownCodes.Nodup := List.nodup_range.filter _
example : ∀ c ∈ unknownCodes, c ∉ knownCodes ∧ c < 256 := by
  intro c hc
  simp only [unknownCodes, List.mem_filter, List.mem_range, Bool.not_eq_true', List.contains_eq_mem,
    decide_eq_false_iff_not] at hc
  exact ⟨hc.2, hc.1⟩
/-- the theorem applied: 240 unknown optional attributes on a 4096-byte session are accepted … -/
example : decodeUpdate pEx (encodeUpdate pEx (unkUpdate unknownCodes)) = .ok (unkUpdate unknownCodes) :=
  hundreds_of_unknown_attributes pEx unknownCodes (List.nodup_range.filter _)
    (by
      intro c hc
      simp only [unknownCodes, List.mem_filter, List.mem_range, Bool.not_eq_true', List.contains_eq_mem,
        decide_eq_false_iff_not] at hc
      exact ⟨hc.2, hc.1⟩)
    (by decide +kernel) (by decide +kernel)
/-- … in a body of 724 bytes, with 240 iterations of the attribute walk -/
example : (encodeUpdate pEx (unkUpdate unknownCodes)).length = 724 := by
  rw [encodeUpdate_unk_length]; decide +kernel
/-- the shape of finding F7 — 1200 attributes with the same unknown code 99 — is walked in 1200
    iterations (then refused for the duplicate, 3/1, by RFC 4271's rule) -/
example : (decAttrsSteps pEx 3600 (encAttrs pEx ((List.replicate 1200 99).map unkAttr))).2 = 1200 := by
  obtain ⟨_, h2, h3⟩ := unknown_attributes_any_number pEx (List.replicate 1200 99)
    (by intro c hc; rw [List.mem_replicate] at hc; rw [hc.2]; decide)
  rw [h3, List.length_replicate] at h2
  exact h2
/-- errors are defined pairs on concrete malformed inputs: truncated header, overrun, bad ORIGIN,
    bad prefix length, bad segment -/
example : decodeUpdate pEx [0, 0, 0] = .error (1, 2) := by decide
example : decodeUpdate pEx [0, 0, 0, 4, 0x40, 1, 2, 0] = .error (3, 1) := by decide
example : decodeUpdate pEx [0, 0, 0, 4, 0x40, 1, 1, 9] = .error (3, 6) := by decide
example : decodeUpdate pEx [0, 0, 0, 0, 33, 1, 2, 3, 4, 5] = .error (3, 10) := by decide
example : decodeUpdate pEx [0, 0, 0, 5, 0x40, 2, 2, 9, 1] = .error (3, 11) := by decide
/-- the counters on a concrete message: 3 attributes, 2 NLRIs, one 3-AS segment (1 + 3 iterations) -/
example : (decAttrsSteps pEx 20 [0x40, 1, 1, 0, 0x40, 2, 8, 2, 3, 0, 1, 0, 2, 0, 3, 0x40, 3, 4, 10, 0, 0, 1]).2 = 3 := by decide
example : (decNlrisSteps 1 1 false false 8 [24, 10, 0, 0, 8, 11]).2 = 2 := by decide
example : (decSegsSteps false 8 [2, 3, 0, 1, 0, 2, 0, 3]).2 = 4 := by decide
example : updateWork pEx [0, 0, 0, 22, 0x40, 1, 1, 0, 0x40, 2, 8, 2, 3, 0, 1, 0, 2, 0, 3, 0x40, 3, 4, 10, 0, 0, 1, 24, 10, 0, 0, 8, 11] = 9 := by decide
/-- OPEN: a 9-byte body is Bad Message Length, version 3 is 2/1, an authentication parameter is 2/5;
    a body with one unknown capability is decoded; three capability TLVs = three iterations -/
example : Exa.Open.decodeOpen [4, 0xFD, 0xE9, 0, 180, 2, 2, 2, 2] = .error ⟨1, 2⟩ := by decide
example : Exa.Open.decodeOpen [3, 0xFD, 0xE9, 0, 180, 2, 2, 2, 2, 0] = .error ⟨2, 1⟩ := by decide
example : Exa.Open.decodeOpen [4, 0xFD, 0xE9, 0, 180, 2, 2, 2, 2, 2, 1, 0] = .error ⟨2, 5⟩ := by decide
example : (Exa.Open.decodeOpen [4, 0xFD, 0xE9, 0, 180, 2, 2, 2, 2, 5, 2, 3, 200, 1, 7]).toOption.map (·.caps) =
    some [.unknown 200 [7]] := by decide
example : (Exa.Open.walkCapsSteps 10 [2, 0, 200, 1, 7, 70, 0]).2 = 3 := by decide
/-- the table is the one of /repo and is not trivial -/
example : 30 ≤ definedCodes.length ∧ 10 ≤ raisedCodes.length ∧ errSites.length = 10 := by decide
example : (9, 9) ∉ definedCodes := by decide

end Exa.Props.C03
