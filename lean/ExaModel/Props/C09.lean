import ExaModel.Lemmas.PackSpec
import ExaModel.Lemmas.PackWire
set_option linter.unusedSimpArgs false
set_option linter.unusedVariables false
/-!
# C09 — generated UPDATEs fit the negotiated size and lose nothing

Statement (properties.jsonl): for any set of routes to announce and withdraw, any attribute set
and either negotiated maximum message size, every UPDATE ExaBGP generates is no longer than the
negotiated maximum and parses on its own; taken together the generated messages announce every
requested route of a negotiated family with the requested attributes and its own next hop,
withdraw every requested withdrawal, and carry nothing else.  When the attributes leave no room
for even one prefix no message is produced for those routes rather than an oversized one.

Model: `Exa.Pack` (M-Pack), `pack : Input → Out` = `UpdateCollection.messages(negotiated,
include_withdraw)` over sizes, for EVERY `M`, attribute length, number and size of NLRIs, number
of families and next hops, mixed or not — the code after the repairs 9c66abf (F19) and b4bc906
(IPv4 multicast).  `(pack i).status` says how the generator ended: `ok`, `noRoom` (`msg_size ≤ 0`:
one `log.critical`, `return`, nothing sent), `tooLong` (`struct.error` from the 16-bit length
field, which needs a negotiated maximum above 65535).

`c09` is the property: for every input with `M ≤ 65535`
  * the generator ends without an exception,
  * every message is within the negotiated maximum,
  * the NLRIs announced are EXACTLY the requested announces of negotiated families that fit alone
    with the attributes, each in a message that carries the attribute block, MP routes under their
    own next hop; the NLRIs withdrawn are exactly the requested withdraws that fit alone (none
    without `include_withdraw`),
  * so a prefix the attributes leave no room for is in no message, and nothing else is dropped.
The remaining theorems are its parts, stated separately with weaker hypotheses where they need less.

"Parses on its own": `c09_parses_alone` (with `msg_len_is_encoding_length` and
`c09_decoded_union`) connects the size model to the RFC reference codec M-Wire: under the side
conditions `Realises ρ i` — `ρ` supplies wire NLRIs, next-hop bytes and an attribute block whose
reference encodings have exactly the sizes M-Pack was given — the length M-Pack computes for a
message IS the length of the reference encoding of the UPDATE the message stands for, and the
RFC reference decoder accepts that encoding, alone, and returns that UPDATE.  What remains for the
correspondence run: that ExaBGP's bytes are those of the reference encoder (C01/C15) and that
ExaBGP's own decoder accepts them (run on every emitted message).  Hypotheses that are part of the
statement: an NLRI has at least one byte (`PosSizes`), `famOrder` lists the families present
(`FamCover`: it is the iteration of the Python set built from them).
-/
namespace Exa.Props.C09
open Exa Exa.Pack

/-- The extended-length switch: the length the size check `_attr_len` predicts is the length of
    what `_attribute_header(code, len(payload)) + payload` puts on the wire, on both sides of 255. -/
theorem ext_len_switch (a : Mp) : a.wire = a.payload + (if a.payload > 255 then 4 else 3) := by
  rw [wire_eq]; rfl

/-- **Fits — unconditionally.** Every message generated is within the negotiated maximum, whatever
    the routes, the attributes and `M`: an NLRI that cannot fit alone is left out, never sent
    oversized. -/
theorem c09_fits (i : Input) : ∀ m ∈ (pack i).msgs, m.len ≤ i.M :=
  fun m hm => packRaw_fits i m (pack_sub i m hm)

/-- **No exception.** On a session whose maximum is at most 65535 (every BGP session: RFC 4271 /
    RFC 8654) `messages` never raises: it runs to its end (`ok`), or returns at once because the
    attributes alone reach the maximum (`noRoom`, nothing sent).  The `RuntimeError` of the old
    code does not exist any more (`Status` has no such case), `struct.error` cannot happen. -/
theorem c09_no_exception (i : Input) (hM : i.M ≤ 65535) :
    (pack i).status = .ok ∨ ((pack i).status = .noRoom ∧ (pack i).msgs = [] ∧ i.M ≤ 23 + chosenAttr i) := by
  have hc := cut_ok (packRaw i).msgs (fun m hm => Nat.le_trans (packRaw_fits i m hm) hM)
  rcases packRaw_status i with h | ⟨h1, h2, h3⟩
  · exact Or.inl (by simp [pack, hc, h])
  · exact Or.inr ⟨by simp [pack, hc, h1], by simp [pack, h2, cut], h3⟩

/-- **Complete.** Every requested announce of a negotiated family that fits alone with the
    attributes is in a message that carries the attribute block; with `include_withdraw`, every
    requested withdraw of a negotiated family that fits alone is in a message.  For ANY collection
    (mixed families, announces and withdraws together, several next hops). -/
theorem c09_complete (i : Input) (hM : i.M ≤ 65535) (hp : PosSizes i) (hf : FamCover i) :
    (∀ x ∈ i.anns, x.fam ∈ i.negotiated → fitsAnn i x →
        ∃ m ∈ (pack i).msgs, x ∈ m.annsOf ∧ m.attrs = true) ∧
    (i.includeWithdraw = true → ∀ x ∈ i.wds, x.fam ∈ i.negotiated → fitsWd i x →
        ∃ m ∈ (pack i).msgs, x ∈ m.wdsOf) := by
  have hc := cut_ok (packRaw i).msgs (fun m hm => Nat.le_trans (packRaw_fits i m hm) hM)
  have hm : (pack i).msgs = (packRaw i).msgs := by simp [pack, cut_all _ hc]
  rw [hm]
  obtain ⟨c1, c2, c3⟩ := packRaw_complete i hp hf
  have sec := packRaw_sections i
  have hpos : ∀ x ∈ i.anns, 0 < x.size := hp.1
  constructor
  · intro x hx hn hfit
    by_cases hv : x.v4 = true
    · have hfit' : 23 + chosenAttr i + x.size ≤ i.M := by simpa [fitsAnn, hv] using hfit
      obtain ⟨m, hm, hxm⟩ := c1 x (List.mem_filter.2 ⟨hx, by simp [hn, hv]⟩) hfit'
      refine ⟨m, hm, by rw [annsOf_eq]; exact List.mem_append_left _ hxm, ?_⟩
      rcases (sec m hm).att with h | ⟨h, _⟩
      · exact h
      · exfalso
        have : Pos m.ann4 := fun y hy => hpos y (List.mem_filter.1 ((sec m hm).a4 y hy).1).1
        rw [(sz_eq_zero_of_pos this).1 h] at hxm; simp at hxm
    · have hfit' : 23 + chosenAttr i + attrLen (5 + x.nhLen + x.size) ≤ i.M := by simpa [fitsAnn, hv] using hfit
      obtain ⟨m, hm, r, hr, hxr⟩ := c2 x (List.mem_filter.2 ⟨hx, by simp [hn, hv]⟩) hfit'
      refine ⟨m, hm, by rw [annsOf_eq, hr]; exact List.mem_append_right _ hxr, ?_⟩
      rcases (sec m hm).att with h | ⟨_, h⟩
      · exact h
      · rw [hr] at h; cases h
  · intro hi x hx hn hfit
    by_cases hv : x.v4 = true
    · have hfit' : 23 + chosenAttr i + x.size ≤ i.M := by simpa [fitsWd, hv] using hfit
      obtain ⟨m, hm, hxm⟩ := (c3 hi).1 x (List.mem_filter.2 ⟨hx, by simp [hn, hv]⟩) hfit'
      exact ⟨m, hm, by rw [wdsOf_eq]; exact List.mem_append_left _ hxm⟩
    · have hfit' : 23 + chosenAttr i + attrLen (3 + x.size) ≤ i.M := by simpa [fitsWd, hv] using hfit
      obtain ⟨m, hm, r, hr, hxr⟩ := (c3 hi).2 x (List.mem_filter.2 ⟨hx, by simp [hn, hv]⟩) hfit'
      exact ⟨m, hm, by rw [wdsOf_eq, hr]; exact List.mem_append_right _ hxr⟩

/-- **Nothing else, and nothing that does not fit.** Every NLRI announced by a message is a
    requested announce of a negotiated family that fits alone; every NLRI withdrawn is a requested
    withdraw of a negotiated family that fits alone and `include_withdraw` was set; the classic
    fields only hold what the code classifies as IPv4 unicast (`v4`), the MP attributes only the
    rest.  In particular a prefix the attributes leave no room for is in no message. -/
theorem c09_nothing_else (i : Input) : ∀ m ∈ (pack i).msgs,
    (∀ x ∈ m.annsOf, x ∈ i.anns ∧ x.fam ∈ i.negotiated ∧ fitsAnn i x) ∧
    (∀ x ∈ m.wdsOf, x ∈ i.wds ∧ x.fam ∈ i.negotiated ∧ fitsWd i x ∧ i.includeWithdraw = true) ∧
    (∀ x ∈ m.ann4 ++ m.wd4, x.v4 = true) ∧
    (∀ x ∈ oitems m.reach ++ oitems m.unreach, x.v4 = false) := by
  intro m hm
  have s := packRaw_sections i m (pack_sub i m hm)
  have fa : ∀ x, x ∈ v4Anns i → x ∈ i.anns ∧ x.fam ∈ i.negotiated ∧ x.v4 = true := by
    intro x hx; have := List.mem_filter.1 hx; simp at this; exact ⟨this.1, this.2.1, this.2.2⟩
  have fw : ∀ x, x ∈ v4Wds i → x ∈ i.wds ∧ x.fam ∈ i.negotiated ∧ x.v4 = true := by
    intro x hx; have := List.mem_filter.1 hx; simp at this; exact ⟨this.1, this.2.1, this.2.2⟩
  have ma : ∀ x, x ∈ mpAnns i → x ∈ i.anns ∧ x.fam ∈ i.negotiated ∧ x.v4 = false := by
    intro x hx; have := List.mem_filter.1 hx; simp at this; exact ⟨this.1, this.2.1, this.2.2⟩
  have mw : ∀ x, x ∈ mpWds i → x ∈ i.wds ∧ x.fam ∈ i.negotiated ∧ x.v4 = false := by
    intro x hx; have := List.mem_filter.1 hx; simp at this; exact ⟨this.1, this.2.1, this.2.2⟩
  refine ⟨?_, ?_, ?_, ?_⟩
  · intro x hx
    rw [annsOf_eq] at hx
    rcases List.mem_append.1 hx with h | h
    · have h' := s.a4 x h
      have := fa x h'.1
      exact ⟨this.1, this.2.1, by simpa [fitsAnn, this.2.2] using h'.2⟩
    · cases hr : m.reach with
      | none => simp [hr] at h
      | some r =>
        simp [hr] at h
        have h' := (s.r r hr).2.2 x h
        have := ma x h'.1
        exact ⟨this.1, this.2.1, by simpa [fitsAnn, this.2.2] using h'.2.2.2.2⟩
  · intro x hx
    rw [wdsOf_eq] at hx
    rcases List.mem_append.1 hx with h | h
    · have h' := s.w4 x h
      have := fw x h'.1
      exact ⟨this.1, this.2.1, by simpa [fitsWd, this.2.2] using h'.2.2, h'.2.1⟩
    · cases hu : m.unreach with
      | none => simp [hu] at h
      | some u =>
        simp [hu] at h
        have h' := s.u u hu
        have h'' := h'.2.2.2 x h
        have := mw x h''.1
        exact ⟨this.1, this.2.1, by simpa [fitsWd, this.2.2] using h''.2.2, h'.1⟩
  · intro x hx
    rcases List.mem_append.1 hx with h | h
    · exact (fa x (s.a4 x h).1).2.2
    · exact (fw x (s.w4 x h).1).2.2
  · intro x hx
    rcases List.mem_append.1 hx with h | h
    · cases hr : m.reach with
      | none => simp [hr] at h
      | some r => simp [hr] at h; exact (ma x ((s.r r hr).2.2 x h).1).2.2
    · cases hu : m.unreach with
      | none => simp [hu] at h
      | some u => simp [hu] at h; exact (mw x ((s.u u hu).2.2.2 x h).1).2.2

/-- **Own next hop.** An MP_REACH_NLRI of the output is for one family and one next hop (its
    header is AFI, SAFI, length, that next hop, reserved) and every NLRI in it was requested with
    exactly that family and next hop; an MP_UNREACH_NLRI is for one family. -/
theorem c09_own_nexthop (i : Input) : ∀ m ∈ (pack i).msgs,
    (∀ r, m.reach = some r → r.hdr = 5 + r.nhLen ∧
        ∀ x ∈ r.items, x.fam = r.fam ∧ x.nh = r.nh ∧ x.nhLen = r.nhLen) ∧
    (∀ u, m.unreach = some u → u.hdr = 3 ∧ ∀ x ∈ u.items, x.fam = u.fam) := by
  intro m hm
  have s := packRaw_sections i m (pack_sub i m hm)
  constructor
  · intro r hr
    obtain ⟨h1, _, h2⟩ := s.r r hr
    exact ⟨h1, fun x hx => ⟨(h2 x hx).2.1, (h2 x hx).2.2.1, (h2 x hx).2.2.2.1⟩⟩
  · intro u hu
    obtain ⟨_, h1, _, h2⟩ := s.u u hu
    exact ⟨h1, fun x hx => (h2 x hx).2.1⟩

/-- **The attribute block travels with every announce.** -/
theorem c09_attrs_present (i : Input) (hp : PosSizes i) : ∀ m ∈ (pack i).msgs, m.annsOf ≠ [] → m.attrs = true := by
  intro m hm hne
  have s := packRaw_sections i m (pack_sub i m hm)
  rcases s.att with h | ⟨h0, hr⟩
  · exact h
  · exfalso
    apply hne
    rw [annsOf_eq, hr]
    have : Pos m.ann4 := fun y hy => hp.1 y (List.mem_filter.1 (s.a4 y hy).1).1
    simp [(sz_eq_zero_of_pos this).1 h0]

/-- **No room at all.** When the attribute block alone (with the 23 bytes of framing) reaches the
    negotiated maximum, no message is produced. -/
theorem c09_no_room (i : Input) (h : i.M ≤ 23 + chosenAttr i) : (pack i).msgs = [] := by
  have := packRaw_no_room i h
  simp [pack, this, cut]

/-- **C09.** For every collection on a session whose maximum is at most 65535: no exception; every
    message within the maximum; announced = requested ∩ negotiated ∩ fits-alone, with the
    attribute block and under its own next hop; withdrawn = requested ∩ negotiated ∩ fits-alone
    (when `include_withdraw`); nothing else. -/
theorem c09 (i : Input) (hM : i.M ≤ 65535) (hp : PosSizes i) (hf : FamCover i) :
    (pack i).status ≠ .tooLong ∧
    (∀ m ∈ (pack i).msgs, m.len ≤ i.M) ∧
    (∀ x, (∃ m ∈ (pack i).msgs, x ∈ m.annsOf) ↔ (x ∈ i.anns ∧ x.fam ∈ i.negotiated ∧ fitsAnn i x)) ∧
    (∀ m ∈ (pack i).msgs, m.annsOf ≠ [] → m.attrs = true) ∧
    (∀ x, (∃ m ∈ (pack i).msgs, x ∈ m.wdsOf) ↔
        (x ∈ i.wds ∧ x.fam ∈ i.negotiated ∧ fitsWd i x ∧ i.includeWithdraw = true)) ∧
    (∀ m ∈ (pack i).msgs, ∀ r, m.reach = some r →
        ∀ x ∈ r.items, x.fam = r.fam ∧ x.nh = r.nh ∧ x.nhLen = r.nhLen) := by
  have hc := c09_complete i hM hp hf
  refine ⟨?_, c09_fits i, ?_, c09_attrs_present i hp, ?_, ?_⟩
  · rcases c09_no_exception i hM with h | ⟨h, _, _⟩ <;> simp [h]
  · intro x
    constructor
    · rintro ⟨m, hm, hx⟩; exact (c09_nothing_else i m hm).1 x hx
    · rintro ⟨hx, hn, hfit⟩
      obtain ⟨m, hm, hxm, _⟩ := hc.1 x hx hn hfit
      exact ⟨m, hm, hxm⟩
  · intro x
    constructor
    · rintro ⟨m, hm, hx⟩; exact (c09_nothing_else i m hm).2.1 x hx
    · rintro ⟨hx, hn, hfit, hi⟩
      exact hc.2 hi x hx hn hfit
  · intro m hm r hr x hx
    exact ((c09_own_nexthop i m hm).1 r hr).2 x hx

/-! ## The byte level: what a message stands for (M-Pack ↔ M-Wire)

`realise ρ m` (Lemmas/PackWire.lean) is the `Exa.Wire.UpdateSem` of a message of the partition:
Withdrawn Routes = the wire NLRIs of `m.wd4`; path attributes = MP_UNREACH_NLRI (if any), the common
block `ρ.blk` (if `m.attrs`), MP_REACH_NLRI with the group's next hop (if any), in the order
`messages` concatenates them; NLRI = the wire NLRIs of `m.ann4`.  `Realises ρ i` are the exact side
conditions: `ρ.p.msgSize = i.M ≤ 65535`; the block encodes to `chosenAttr i` bytes, is well formed,
has one attribute per code and neither MP attribute, and holds ORIGIN/AS_PATH(/NEXT_HOP) when MP
(IPv4) routes are announced; every requested NLRI has a well-formed wire form whose encoding (in the
classic field, resp. in the MP attribute of its supported family) has the size M-Pack uses; every
MP next hop has bytes of the length M-Pack uses, a length the family allows. -/

/-- **The size arithmetic is the byte layout.** The length M-Pack computes for a message — 23 +
    attribute block, 3/4-byte attribute headers, MP overhead `5 + nhLen` / `3` — is 19 (header) + the
    length of the RFC reference encoding of the UPDATE the message stands for. -/
theorem msg_len_is_encoding_length (ρ : Real) (i : Input) (H : Realises ρ i) :
    ∀ m ∈ (pack i).msgs, m.len = 19 + (Wire.encodeUpdate ρ.p (realise ρ m)).length :=
  fun m hm => realise_len H (packRaw_sections i m (pack_sub i m hm))

/-- **Every message parses on its own.** The RFC reference decoder, given the reference encoding of
    the UPDATE a message stands for and nothing else, accepts it (size, syntax, attribute flags and
    lengths, duplicate / mandatory attribute and MP next-hop checks) and returns exactly that UPDATE. -/
theorem c09_parses_alone (ρ : Real) (i : Input) (H : Realises ρ i) :
    ∀ m ∈ (pack i).msgs,
      Wire.decodeUpdate ρ.p (Wire.encodeUpdate ρ.p (realise ρ m)) = .ok (realise ρ m) := by
  intro m hm
  have s := packRaw_sections i m (pack_sub i m hm)
  obtain ⟨hw, ha, hn, hW, hA, hsz, hsem⟩ := realise_wf H s (c09_fits i m hm)
  unfold Wire.decodeUpdate
  have c : ¬ (Wire.encodeUpdate ρ.p (realise ρ m)).length + 19 > ρ.p.msgSize := by omega
  rw [if_neg c, Wire.decodeRaw_encodeUpdate ρ.p _ hw ha hn hW hA]
  simp only [hsem]

/-- **What the messages decode to, taken together, is the request.**
    (a) every requested announce of a negotiated family that fits alone is announced by the decoding
    of some message — in the NLRI field for what the code classifies as IPv4 unicast, else in an
    MP_REACH_NLRI of its family under its own next hop — and that decoding carries the whole attribute
    block; every such withdraw is withdrawn by the decoding of some message;
    (b) conversely everything any message decodes to — NLRI field, Withdrawn Routes, every
    MP_REACH_NLRI / MP_UNREACH_NLRI entry — is the wire form of a requested route of a negotiated
    family that fits alone (withdraws only with `include_withdraw`). -/
theorem c09_decoded_union (ρ : Real) (i : Input) (H : Realises ρ i) (hp : PosSizes i) (hf : FamCover i) :
    (∀ x ∈ i.anns, x.fam ∈ i.negotiated → fitsAnn i x →
      ∃ m ∈ (pack i).msgs, ∃ u, Wire.decodeUpdate ρ.p (Wire.encodeUpdate ρ.p (realise ρ m)) = .ok u ∧
        (∀ a ∈ ρ.blk, a ∈ u.attrs) ∧
        (if x.v4 then ρ.nl x ∈ u.nlri
         else ((ρ.famOf x.fam).1, (ρ.famOf x.fam).2, Wire.nhAddr (ρ.famOf x.fam).2 (ρ.nhb x.nh), ρ.nl x)
                ∈ Wire.mpAnnounces u.attrs)) ∧
    (i.includeWithdraw = true → ∀ x ∈ i.wds, x.fam ∈ i.negotiated → fitsWd i x →
      ∃ m ∈ (pack i).msgs, ∃ u, Wire.decodeUpdate ρ.p (Wire.encodeUpdate ρ.p (realise ρ m)) = .ok u ∧
        (if x.v4 then ρ.nl x ∈ u.withdrawn
         else ((ρ.famOf x.fam).1, (ρ.famOf x.fam).2, Wire.eraseLabels (ρ.nl x)) ∈ Wire.mpWithdraws u.attrs)) ∧
    (∀ m ∈ (pack i).msgs, ∀ u, Wire.decodeUpdate ρ.p (Wire.encodeUpdate ρ.p (realise ρ m)) = .ok u →
      (∀ n ∈ u.nlri, ∃ x ∈ i.anns, x.fam ∈ i.negotiated ∧ fitsAnn i x ∧ x.v4 = true ∧ n = ρ.nl x) ∧
      (∀ t ∈ Wire.mpAnnounces u.attrs, ∃ x ∈ i.anns, x.fam ∈ i.negotiated ∧ fitsAnn i x ∧ x.v4 = false ∧
          t = ((ρ.famOf x.fam).1, (ρ.famOf x.fam).2, Wire.nhAddr (ρ.famOf x.fam).2 (ρ.nhb x.nh), ρ.nl x)) ∧
      (∀ n ∈ u.withdrawn, ∃ x ∈ i.wds, x.fam ∈ i.negotiated ∧ fitsWd i x ∧ i.includeWithdraw = true ∧ x.v4 = true ∧ n = ρ.nl x) ∧
      (∀ t ∈ Wire.mpWithdraws u.attrs, ∃ x ∈ i.wds, x.fam ∈ i.negotiated ∧ fitsWd i x ∧ i.includeWithdraw = true ∧ x.v4 = false ∧
          t = ((ρ.famOf x.fam).1, (ρ.famOf x.fam).2, Wire.eraseLabels (ρ.nl x)))) := by
  have hc := c09_complete i H.small hp hf
  have hpa := c09_parses_alone ρ i H
  refine ⟨?_, ?_, ?_⟩
  · intro x hx hn hfit
    obtain ⟨m, hm, hxm, hat⟩ := hc.1 x hx hn hfit
    refine ⟨m, hm, realise ρ m, hpa m hm, ?_, ?_⟩
    · intro a ha; simp [realise, hat, ha]
    · have hne := c09_nothing_else i m hm
      rw [annsOf_eq] at hxm
      by_cases hv : x.v4 = true
      · simp only [hv, if_true]
        rcases List.mem_append.1 hxm with h | h
        · exact List.mem_map.2 ⟨x, h, rfl⟩
        · have := hne.2.2.2 x (List.mem_append_left _ h); rw [hv] at this; cases this
      · have hv' : x.v4 = false := by simpa using hv
        simp only [hv', Bool.false_eq_true, if_false]
        rcases List.mem_append.1 hxm with h | h
        · have := hne.2.2.1 x (List.mem_append_left _ h); rw [hv'] at this; cases this
        · cases hr : m.reach with
          | none => simp [hr] at h
          | some r =>
            simp [hr] at h
            obtain ⟨hfam, hnh, _⟩ := ((c09_own_nexthop i m hm).1 r hr).2 x h
            rw [mpAnnounces_realise H]
            exact ⟨r, hr, x, h, by rw [hfam, hnh]⟩
  · intro hi x hx hn hfit
    obtain ⟨m, hm, hxm⟩ := hc.2 hi x hx hn hfit
    refine ⟨m, hm, realise ρ m, hpa m hm, ?_⟩
    have hne := c09_nothing_else i m hm
    rw [wdsOf_eq] at hxm
    by_cases hv : x.v4 = true
    · simp only [hv, if_true]
      rcases List.mem_append.1 hxm with h | h
      · exact List.mem_map.2 ⟨x, h, rfl⟩
      · have := hne.2.2.2 x (List.mem_append_right _ h); rw [hv] at this; cases this
    · have hv' : x.v4 = false := by simpa using hv
      simp only [hv', Bool.false_eq_true, if_false]
      rcases List.mem_append.1 hxm with h | h
      · have := hne.2.2.1 x (List.mem_append_right _ h); rw [hv'] at this; cases this
      · cases hu : m.unreach with
        | none => simp [hu] at h
        | some u =>
          simp [hu] at h
          have hfam := ((c09_own_nexthop i m hm).2 u hu).2 x h
          rw [mpWithdraws_realise H]
          exact ⟨u, hu, x, h, by rw [hfam]⟩
  · intro m hm u hu
    rw [hpa m hm] at hu
    cases hu
    have hne := c09_nothing_else i m hm
    refine ⟨?_, ?_, ?_, ?_⟩
    · intro n hn
      simp only [realise, List.mem_map] at hn
      obtain ⟨x, hx, rfl⟩ := hn
      have h1 := hne.1 x (by rw [annsOf_eq]; exact List.mem_append_left _ hx)
      exact ⟨x, h1.1, h1.2.1, h1.2.2, hne.2.2.1 x (List.mem_append_left _ hx), rfl⟩
    · intro t ht
      rw [mpAnnounces_realise H] at ht
      obtain ⟨r, hr, x, hx, rfl⟩ := ht
      have h1 := hne.1 x (by rw [annsOf_eq, hr]; exact List.mem_append_right _ hx)
      obtain ⟨hfam, hnh, _⟩ := ((c09_own_nexthop i m hm).1 r hr).2 x hx
      refine ⟨x, h1.1, h1.2.1, h1.2.2, hne.2.2.2 x (List.mem_append_left _ (by simp [hr, hx])), ?_⟩
      rw [hfam, hnh]
    · intro n hn
      simp only [realise, List.mem_map] at hn
      obtain ⟨x, hx, rfl⟩ := hn
      have h1 := hne.2.1 x (by rw [wdsOf_eq]; exact List.mem_append_left _ hx)
      exact ⟨x, h1.1, h1.2.1, h1.2.2.1, h1.2.2.2, hne.2.2.1 x (List.mem_append_right _ hx), rfl⟩
    · intro t ht
      rw [mpWithdraws_realise H] at ht
      obtain ⟨v, hv, x, hx, rfl⟩ := ht
      have h1 := hne.2.1 x (by rw [wdsOf_eq, hv]; exact List.mem_append_right _ hx)
      have hfam := ((c09_own_nexthop i m hm).2 v hv).2 x hx
      refine ⟨x, h1.1, h1.2.1, h1.2.2.1, h1.2.2.2, hne.2.2.2 x (List.mem_append_right _ (by simp [hv, hx])), ?_⟩
      rw [hfam]

/-! ## The two points that were excluded before the repair (F19), on the repaired model

`unfitInput` and `mixedInput` are defined next to the model (`Model/Pack.lean`); the harness checks
through `drv_pack` (`pack witness unfit|mixed`) that they are exactly the inputs measured on the real
objects of corpus/C09/f19-oversize-4097.json and corpus/C09/f19-runtime-error.json, and that the real
code does what these examples say. -/

/-- was: messages of 4094 and **4097** bytes on a 4096 session.  Now the /32 that cannot fit alone
    (23 + 4069 + 5 = 4097) is left out with one log line and the /8 is sent. -/
example : (pack unfitInput).status = .ok ∧ (pack unfitInput).msgs.map (·.len) = [4094]
    ∧ (pack unfitInput).msgs.map (fun m => m.ann4.map (·.id)) = [[1]] ∧ logged unfitInput = 1
    ∧ ¬ fitsAnn unfitInput (nlri4 2 5) := by decide

/-- was: `RuntimeError`, nothing sent.  Now the MP_REACH (58 bytes) goes in a first message and the
    MP_UNREACH, which does not fit next to it (58 + 23 > 60), in a second one. -/
example : (pack mixedInput).status = .ok ∧ (pack mixedInput).msgs.map (·.len) = [4094, 4059]
    ∧ (pack mixedInput).msgs.map (fun m => ((oitems m.reach).map (·.id), (oitems m.unreach).map (·.id)))
        = [([1, 2], []), ([], [3])] ∧ logged mixedInput = 0 := by decide

/-! ## Non-vacuity: the hypotheses are satisfiable on inputs that exercise every part -/

def v4 (id size : Nat) : Nlri := nlri4 id size
def v6 (id size nh : Nat) : Nlri := nlri6 id size nh

/-- Thirteen IPv4 announces and a withdraw that need two messages (the first one exactly full),
    then two MP families; two next hops in family 3; reach and unreach of family 3 share a message;
    one route (id 27) is of a family that is not negotiated; one IPv6 route (id 30, 90 bytes with a
    16-byte next hop → 114-byte attribute) cannot fit in the 60 bytes the attributes leave. -/
def demo : Input :=
  { M := 100, attrDef := 17, attrNoDef := 0, negotiated := [1, 3, 4], simple := [1, 2, 3, 4], famOrder := [4, 3],
    anns := (List.range 13).map (fun k => v4 (k + 1) 5)
      ++ [{ (v6 24 2 1) with fam := 4 }, v6 25 3 1, v6 26 3 2, { (v4 27 5) with fam := 9 }, v6 30 90 1],
    wds := [v4 28 4, wd6 29 2], includeWithdraw := true }

example : demo.M ≤ 65535 ∧ PosSizes demo ∧ FamCover demo := by decide
example : (pack demo).status = .ok ∧ logged demo = 1 := by decide
example : (pack demo).msgs.map (·.len) = [100, 49, 66, 67, 75] := by decide
/-- the IPv4 NLRIs are NOT repeated in the first MP message any more -/
example : ((pack demo).msgs.map (fun m => (m.wd4.map (·.id), m.ann4.map (·.id), (oitems m.reach).map (·.id),
    (oitems m.unreach).map (·.id)))) =
    [([], [1, 2, 3, 4, 5, 6, 7, 8, 9, 10, 11, 12], [], []), ([28], [13], [], []), ([], [], [24], []),
     ([], [], [25], []), ([], [], [26], [29])] := by decide
/-- the route of the family that is not negotiated (27) and the one that cannot fit (30) are in no message -/
example : ∀ m ∈ (pack demo).msgs, ∀ x ∈ m.annsOf, x.id ≠ 27 ∧ x.id ≠ 30 := by decide
example : ¬ fitsAnn demo (v6 30 90 1) ∧ fitsAnn demo (v6 25 3 1) ∧ fitsWd demo (wd6 29 2) := by decide
/-- `c09_no_room` is not vacuous: a request, attributes that fill the message, no output -/
example : (pack { demo with attrDef := 77 }).msgs = [] ∧ (pack { demo with attrDef := 77 }).status = .noRoom := by decide
/-- only MP withdraws: the attribute block without defaults is chosen -/
example : chosenAttr { demo with anns := [], wds := [wd6 29 2] } = 0 := by decide
/-- the extended-length switch is reached: 14 IPv6 /128 NLRIs with one next hop make a 259-byte
    MP_REACH payload (header 4), 13 make 242 (header 3) -/
example : (pack { demo with M := 4096, anns := (List.range 14).map (fun k => v6 k 17 1), wds := [] }).msgs.map (·.len)
    = [19 + 4 + 17 + (4 + (21 + 14 * 17))] := by decide
example : (pack { demo with M := 4096, anns := (List.range 13).map (fun k => v6 k 17 1), wds := [] }).msgs.map (·.len)
    = [19 + 4 + 17 + (3 + (21 + 13 * 17))] := by decide
/-- the former `struct.error` case on a 65535 session: the message that would have been 65536 bytes
    is not built; the /8 is sent in 65533 bytes -/
example : (pack { unfitInput with M := 65535, attrDef := 65508 }).status = .ok
    ∧ (pack { unfitInput with M := 65535, attrDef := 65508 }).msgs.map (·.len) = [65533] := by decide

/-! ## Non-vacuity of the byte level: a concrete realisation

An eBGP-like block ORIGIN IGP, empty AS_PATH, NEXT_HOP 1.2.3.4 (4 + 3 + 7 = 14 bytes); an IPv4 /24
(4 bytes), an IPv6 /64 with a 16-byte next hop (9 bytes), an IPv6 /32 withdraw (5 bytes). -/

def wkFlags : Wire.Flags := { opt := false, trans := true, part := false, ext := false }

def realBlk : List Wire.Attr :=
  [{ flags := wkFlags, val := .origin 0 }, { flags := wkFlags, val := .asPath [] },
   { flags := wkFlags, val := .nextHop 16909060 }]

def realIn : Input :=
  { M := 4096, attrDef := 14, attrNoDef := 0, negotiated := [1, 3], simple := [1, 2, 3, 4], famOrder := [3],
    anns := [{ id := 1, size := 4, fam := 1, v4 := true, nh := 1, nhLen := 4 },
             { id := 2, size := 9, fam := 3, v4 := false, nh := 2, nhLen := 16 }],
    wds := [{ id := 3, size := 5, fam := 3, v4 := false, nh := 0, nhLen := 0 }], includeWithdraw := true }

def realRho : Real :=
  { p := { asn4 := true, addpath := [], extnh := [], msgSize := 4096 },
    famOf := fun f => if f = 1 then (1, 1) else if f = 3 then (2, 1) else (0, 0),
    nl := fun x =>
      if x.id = 1 then { pathId := none, labels := [], rd := [], plen := 24, pfx := [10, 0, 0] }
      else if x.id = 2 then { pathId := none, labels := [], rd := [], plen := 64, pfx := [32, 1, 13, 184, 0, 0, 0, 1] }
      else { pathId := none, labels := [], rd := [], plen := 32, pfx := [32, 1, 13, 185] },
    nhb := fun _ => [32, 1, 13, 184, 0, 0, 0, 0, 0, 0, 0, 0, 0, 0, 0, 1],
    blk := realBlk }

theorem realRho_realises : Realises realRho realIn where
  msgSize := rfl
  small := by decide
  blkLen := by decide
  blkWF := by
    intro a ha
    simp only [realRho, realBlk, List.mem_cons, List.not_mem_nil, or_false] at ha
    rcases ha with rfl | rfl | rfl
    · exact ⟨by decide, by show (0 : Nat) ≤ 2; decide, by decide⟩
    · exact ⟨by decide, by simp [Wire.WFVal], by decide⟩
    · exact ⟨by decide, by show (16909060 : Nat) < 4294967296; decide, by decide⟩
  blkNodup := by decide
  blk14 := by decide
  blk15 := by decide
  va := by decide
  vw := by decide
  ma := by decide
  mw := by decide
  mand4 := by intro _; decide
  mandMp := by intro _; decide

/-- two messages: the IPv4 one, then MP_REACH + MP_UNREACH of IPv6 sharing one message -/
example : (pack realIn).msgs.map (·.len) = [41, 81] := by decide
/-- the bytes of the first one (after the 19-byte header), from the RFC reference encoder -/
example : (pack realIn).msgs.map (fun m => Wire.encodeUpdate realRho.p (realise realRho m)) =
    [[0, 0, 0, 14, 64, 1, 1, 0, 64, 2, 0, 64, 3, 4, 1, 2, 3, 4, 24, 10, 0, 0],
     [0, 0, 0, 58, 128, 15, 8, 0, 2, 1, 32, 32, 1, 13, 185, 64, 1, 1, 0, 64, 2, 0, 64, 3, 4, 1, 2, 3, 4,
      128, 14, 30, 0, 2, 1, 16, 32, 1, 13, 184, 0, 0, 0, 0, 0, 0, 0, 0, 0, 0, 0, 1, 0, 64, 32, 1, 13, 184, 0, 0, 0, 1]] := by
  decide
/-- `c09_parses_alone` and `msg_len_is_encoding_length` apply to it -/
example : ∀ m ∈ (pack realIn).msgs,
    Wire.decodeUpdate realRho.p (Wire.encodeUpdate realRho.p (realise realRho m)) = .ok (realise realRho m) ∧
    m.len = 19 + (Wire.encodeUpdate realRho.p (realise realRho m)).length :=
  fun m hm => ⟨c09_parses_alone realRho realIn realRho_realises m hm,
               msg_len_is_encoding_length realRho realIn realRho_realises m hm⟩
example : PosSizes realIn ∧ FamCover realIn := by decide

end Exa.Props.C09
