import ExaModel.Lemmas.PackSpec
set_option linter.unusedSimpArgs false
set_option linter.unusedVariables false
/-!
# C09 — generated UPDATEs fit the negotiated size and lose nothing

Statement (properties.jsonl): for any set of routes to announce and withdraw, any attribute set
and either negotiated maximum message size, every UPDATE ExaBGP generates is no longer than the
negotiated maximum and parses on its own; taken together the generated messages announce every
requested route of a negotiated family with the requested attributes and its own next hop,
withdraw every requested withdrawal, and carry nothing else.  When the attributes leave no room
for even one prefix no message is produced for those routes rather than an oversized one.

Model: `Exa.Pack` (M-Pack), `pack : Input → Out` = `UpdateCollection.messages(negotiated,
include_withdraw)` over sizes, for EVERY `M`, attribute length, number and size of NLRIs, number
of families and next hops, mixed or not — the code after the repairs 9c66abf (F19) and b4bc906
(IPv4 multicast).  `(pack i).status` says how the generator ended: `ok`, `noRoom` (`msg_size ≤ 0`:
one `log.critical`, `return`, nothing sent), `tooLong` (`struct.error` from the 16-bit length
field, which needs a negotiated maximum above 65535).

`c09` is the property: for every input with `M ≤ 65535`
  * the generator ends without an exception,
  * every message is within the negotiated maximum,
  * the NLRIs announced are EXACTLY the requested announces of negotiated families that fit alone
    with the attributes, each in a message that carries the attribute block, MP routes under their
    own next hop; the NLRIs withdrawn are exactly the requested withdraws that fit alone (none
    without `include_withdraw`),
  * so a prefix the attributes leave no room for is in no message, and nothing else is dropped.
The remaining theorems are its parts, stated separately with weaker hypotheses where they need less.

"Parses on its own" is about bytes; it is checked by the correspondence run (the real decoder on
every emitted message of every case), not by this size model.  Hypotheses that are part of the
statement: an NLRI has at least one byte (`PosSizes`), `famOrder` lists the families present
(`FamCover`: it is the iteration of the Python set built from them).
-/
namespace Exa.Props.C09
open Exa Exa.Pack

/-- The extended-length switch: the length the size check `_attr_len` predicts is the length of
    what `_attribute_header(code, len(payload)) + payload` puts on the wire, on both sides of 255. -/
theorem ext_len_switch (a : Mp) : a.wire = a.payload + (if a.payload > 255 then 4 else 3) := by
  rw [wire_eq]; rfl

/-- **Fits — unconditionally.** Every message generated is within the negotiated maximum, whatever
    the routes, the attributes and `M`: an NLRI that cannot fit alone is left out, never sent
    oversized. -/
theorem c09_fits (i : Input) : ∀ m ∈ (pack i).msgs, m.len ≤ i.M :=
  fun m hm => packRaw_fits i m (pack_sub i m hm)

/-- **No exception.** On a session whose maximum is at most 65535 (every BGP session: RFC 4271 /
    RFC 8654) `messages` never raises: it runs to its end (`ok`), or returns at once because the
    attributes alone reach the maximum (`noRoom`, nothing sent).  The `RuntimeError` of the old
    code does not exist any more (`Status` has no such case), `struct.error` cannot happen. -/
theorem c09_no_exception (i : Input) (hM : i.M ≤ 65535) :
    (pack i).status = .ok ∨ ((pack i).status = .noRoom ∧ (pack i).msgs = [] ∧ i.M ≤ 23 + chosenAttr i) := by
  have hc := cut_ok (packRaw i).msgs (fun m hm => Nat.le_trans (packRaw_fits i m hm) hM)
  rcases packRaw_status i with h | ⟨h1, h2, h3⟩
  · exact Or.inl (by simp [pack, hc, h])
  · exact Or.inr ⟨by simp [pack, hc, h1], by simp [pack, h2, cut], h3⟩

/-- **Complete.** Every requested announce of a negotiated family that fits alone with the
    attributes is in a message that carries the attribute block; with `include_withdraw`, every
    requested withdraw of a negotiated family that fits alone is in a message.  For ANY collection
    (mixed families, announces and withdraws together, several next hops). -/
theorem c09_complete (i : Input) (hM : i.M ≤ 65535) (hp : PosSizes i) (hf : FamCover i) :
    (∀ x ∈ i.anns, x.fam ∈ i.negotiated → fitsAnn i x →
        ∃ m ∈ (pack i).msgs, x ∈ m.annsOf ∧ m.attrs = true) ∧
    (i.includeWithdraw = true → ∀ x ∈ i.wds, x.fam ∈ i.negotiated → fitsWd i x →
        ∃ m ∈ (pack i).msgs, x ∈ m.wdsOf) := by
  have hc := cut_ok (packRaw i).msgs (fun m hm => Nat.le_trans (packRaw_fits i m hm) hM)
  have hm : (pack i).msgs = (packRaw i).msgs := by simp [pack, cut_all _ hc]
  rw [hm]
  obtain ⟨c1, c2, c3⟩ := packRaw_complete i hp hf
  have sec := packRaw_sections i
  have hpos : ∀ x ∈ i.anns, 0 < x.size := hp.1
  constructor
  · intro x hx hn hfit
    by_cases hv : x.v4 = true
    · have hfit' : 23 + chosenAttr i + x.size ≤ i.M := by simpa [fitsAnn, hv] using hfit
      obtain ⟨m, hm, hxm⟩ := c1 x (List.mem_filter.2 ⟨hx, by simp [hn, hv]⟩) hfit'
      refine ⟨m, hm, by rw [annsOf_eq]; exact List.mem_append_left _ hxm, ?_⟩
      rcases (sec m hm).att with h | ⟨h, _⟩
      · exact h
      · exfalso
        have : Pos m.ann4 := fun y hy => hpos y (List.mem_filter.1 ((sec m hm).a4 y hy).1).1
        rw [(sz_eq_zero_of_pos this).1 h] at hxm; simp at hxm
    · have hfit' : 23 + chosenAttr i + attrLen (5 + x.nhLen + x.size) ≤ i.M := by simpa [fitsAnn, hv] using hfit
      obtain ⟨m, hm, r, hr, hxr⟩ := c2 x (List.mem_filter.2 ⟨hx, by simp [hn, hv]⟩) hfit'
      refine ⟨m, hm, by rw [annsOf_eq, hr]; exact List.mem_append_right _ hxr, ?_⟩
      rcases (sec m hm).att with h | ⟨_, h⟩
      · exact h
      · rw [hr] at h; cases h
  · intro hi x hx hn hfit
    by_cases hv : x.v4 = true
    · have hfit' : 23 + chosenAttr i + x.size ≤ i.M := by simpa [fitsWd, hv] using hfit
      obtain ⟨m, hm, hxm⟩ := (c3 hi).1 x (List.mem_filter.2 ⟨hx, by simp [hn, hv]⟩) hfit'
      exact ⟨m, hm, by rw [wdsOf_eq]; exact List.mem_append_left _ hxm⟩
    · have hfit' : 23 + chosenAttr i + attrLen (3 + x.size) ≤ i.M := by simpa [fitsWd, hv] using hfit
      obtain ⟨m, hm, r, hr, hxr⟩ := (c3 hi).2 x (List.mem_filter.2 ⟨hx, by simp [hn, hv]⟩) hfit'
      exact ⟨m, hm, by rw [wdsOf_eq, hr]; exact List.mem_append_right _ hxr⟩

/-- **Nothing else, and nothing that does not fit.** Every NLRI announced by a message is a
    requested announce of a negotiated family that fits alone; every NLRI withdrawn is a requested
    withdraw of a negotiated family that fits alone and `include_withdraw` was set; the classic
    fields only hold what the code classifies as IPv4 unicast (`v4`), the MP attributes only the
    rest.  In particular a prefix the attributes leave no room for is in no message. -/
theorem c09_nothing_else (i : Input) : ∀ m ∈ (pack i).msgs,
    (∀ x ∈ m.annsOf, x ∈ i.anns ∧ x.fam ∈ i.negotiated ∧ fitsAnn i x) ∧
    (∀ x ∈ m.wdsOf, x ∈ i.wds ∧ x.fam ∈ i.negotiated ∧ fitsWd i x ∧ i.includeWithdraw = true) ∧
    (∀ x ∈ m.ann4 ++ m.wd4, x.v4 = true) ∧
    (∀ x ∈ oitems m.reach ++ oitems m.unreach, x.v4 = false) := by
  intro m hm
  have s := packRaw_sections i m (pack_sub i m hm)
  have fa : ∀ x, x ∈ v4Anns i → x ∈ i.anns ∧ x.fam ∈ i.negotiated ∧ x.v4 = true := by
    intro x hx; have := List.mem_filter.1 hx; simp at this; exact ⟨this.1, this.2.1, this.2.2⟩
  have fw : ∀ x, x ∈ v4Wds i → x ∈ i.wds ∧ x.fam ∈ i.negotiated ∧ x.v4 = true := by
    intro x hx; have := List.mem_filter.1 hx; simp at this; exact ⟨this.1, this.2.1, this.2.2⟩
  have ma : ∀ x, x ∈ mpAnns i → x ∈ i.anns ∧ x.fam ∈ i.negotiated ∧ x.v4 = false := by
    intro x hx; have := List.mem_filter.1 hx; simp at this; exact ⟨this.1, this.2.1, this.2.2⟩
  have mw : ∀ x, x ∈ mpWds i → x ∈ i.wds ∧ x.fam ∈ i.negotiated ∧ x.v4 = false := by
    intro x hx; have := List.mem_filter.1 hx; simp at this; exact ⟨this.1, this.2.1, this.2.2⟩
  refine ⟨?_, ?_, ?_, ?_⟩
  · intro x hx
    rw [annsOf_eq] at hx
    rcases List.mem_append.1 hx with h | h
    · have h' := s.a4 x h
      have := fa x h'.1
      exact ⟨this.1, this.2.1, by simpa [fitsAnn, this.2.2] using h'.2⟩
    · cases hr : m.reach with
      | none => simp [hr] at h
      | some r =>
        simp [hr] at h
        have h' := (s.r r hr).2 x h
        have := ma x h'.1
        exact ⟨this.1, this.2.1, by simpa [fitsAnn, this.2.2] using h'.2.2.2.2⟩
  · intro x hx
    rw [wdsOf_eq] at hx
    rcases List.mem_append.1 hx with h | h
    · have h' := s.w4 x h
      have := fw x h'.1
      exact ⟨this.1, this.2.1, by simpa [fitsWd, this.2.2] using h'.2.2, h'.2.1⟩
    · cases hu : m.unreach with
      | none => simp [hu] at h
      | some u =>
        simp [hu] at h
        have h' := s.u u hu
        have h'' := h'.2.2 x h
        have := mw x h''.1
        exact ⟨this.1, this.2.1, by simpa [fitsWd, this.2.2] using h''.2.2, h'.1⟩
  · intro x hx
    rcases List.mem_append.1 hx with h | h
    · exact (fa x (s.a4 x h).1).2.2
    · exact (fw x (s.w4 x h).1).2.2
  · intro x hx
    rcases List.mem_append.1 hx with h | h
    · cases hr : m.reach with
      | none => simp [hr] at h
      | some r => simp [hr] at h; exact (ma x ((s.r r hr).2 x h).1).2.2
    · cases hu : m.unreach with
      | none => simp [hu] at h
      | some u => simp [hu] at h; exact (mw x ((s.u u hu).2.2 x h).1).2.2

/-- **Own next hop.** An MP_REACH_NLRI of the output is for one family and one next hop (its
    header is AFI, SAFI, length, that next hop, reserved) and every NLRI in it was requested with
    exactly that family and next hop; an MP_UNREACH_NLRI is for one family. -/
theorem c09_own_nexthop (i : Input) : ∀ m ∈ (pack i).msgs,
    (∀ r, m.reach = some r → r.hdr = 5 + r.nhLen ∧
        ∀ x ∈ r.items, x.fam = r.fam ∧ x.nh = r.nh ∧ x.nhLen = r.nhLen) ∧
    (∀ u, m.unreach = some u → u.hdr = 3 ∧ ∀ x ∈ u.items, x.fam = u.fam) := by
  intro m hm
  have s := packRaw_sections i m (pack_sub i m hm)
  constructor
  · intro r hr
    obtain ⟨h1, h2⟩ := s.r r hr
    exact ⟨h1, fun x hx => ⟨(h2 x hx).2.1, (h2 x hx).2.2.1, (h2 x hx).2.2.2.1⟩⟩
  · intro u hu
    obtain ⟨_, h1, h2⟩ := s.u u hu
    exact ⟨h1, fun x hx => (h2 x hx).2.1⟩

/-- **The attribute block travels with every announce.** -/
theorem c09_attrs_present (i : Input) (hp : PosSizes i) : ∀ m ∈ (pack i).msgs, m.annsOf ≠ [] → m.attrs = true := by
  intro m hm hne
  have s := packRaw_sections i m (pack_sub i m hm)
  rcases s.att with h | ⟨h0, hr⟩
  · exact h
  · exfalso
    apply hne
    rw [annsOf_eq, hr]
    have : Pos m.ann4 := fun y hy => hp.1 y (List.mem_filter.1 (s.a4 y hy).1).1
    simp [(sz_eq_zero_of_pos this).1 h0]

/-- **No room at all.** When the attribute block alone (with the 23 bytes of framing) reaches the
    negotiated maximum, no message is produced. -/
theorem c09_no_room (i : Input) (h : i.M ≤ 23 + chosenAttr i) : (pack i).msgs = [] := by
  have := packRaw_no_room i h
  simp [pack, this, cut]

/-- **C09.** For every collection on a session whose maximum is at most 65535: no exception; every
    message within the maximum; announced = requested ∩ negotiated ∩ fits-alone, with the
    attribute block and under its own next hop; withdrawn = requested ∩ negotiated ∩ fits-alone
    (when `include_withdraw`); nothing else. -/
theorem c09 (i : Input) (hM : i.M ≤ 65535) (hp : PosSizes i) (hf : FamCover i) :
    (pack i).status ≠ .tooLong ∧
    (∀ m ∈ (pack i).msgs, m.len ≤ i.M) ∧
    (∀ x, (∃ m ∈ (pack i).msgs, x ∈ m.annsOf) ↔ (x ∈ i.anns ∧ x.fam ∈ i.negotiated ∧ fitsAnn i x)) ∧
    (∀ m ∈ (pack i).msgs, m.annsOf ≠ [] → m.attrs = true) ∧
    (∀ x, (∃ m ∈ (pack i).msgs, x ∈ m.wdsOf) ↔
        (x ∈ i.wds ∧ x.fam ∈ i.negotiated ∧ fitsWd i x ∧ i.includeWithdraw = true)) ∧
    (∀ m ∈ (pack i).msgs, ∀ r, m.reach = some r →
        ∀ x ∈ r.items, x.fam = r.fam ∧ x.nh = r.nh ∧ x.nhLen = r.nhLen) := by
  have hc := c09_complete i hM hp hf
  refine ⟨?_, c09_fits i, ?_, c09_attrs_present i hp, ?_, ?_⟩
  · rcases c09_no_exception i hM with h | ⟨h, _, _⟩ <;> simp [h]
  · intro x
    constructor
    · rintro ⟨m, hm, hx⟩; exact (c09_nothing_else i m hm).1 x hx
    · rintro ⟨hx, hn, hfit⟩
      obtain ⟨m, hm, hxm, _⟩ := hc.1 x hx hn hfit
      exact ⟨m, hm, hxm⟩
  · intro x
    constructor
    · rintro ⟨m, hm, hx⟩; exact (c09_nothing_else i m hm).2.1 x hx
    · rintro ⟨hx, hn, hfit, hi⟩
      exact hc.2 hi x hx hn hfit
  · intro m hm r hr x hx
    exact ((c09_own_nexthop i m hm).1 r hr).2 x hx

/-! ## The two points that were excluded before the repair (F19), on the repaired model

`unfitInput` and `mixedInput` are defined next to the model (`Model/Pack.lean`); the harness checks
through `drv_pack` (`pack witness unfit|mixed`) that they are exactly the inputs measured on the real
objects of corpus/C09/f19-oversize-4097.json and corpus/C09/f19-runtime-error.json, and that the real
code does what these examples say. -/

/-- was: messages of 4094 and **4097** bytes on a 4096 session.  Now the /32 that cannot fit alone
    (23 + 4069 + 5 = 4097) is left out with one log line and the /8 is sent. -/
example : (pack unfitInput).status = .ok ∧ (pack unfitInput).msgs.map (·.len) = [4094]
    ∧ (pack unfitInput).msgs.map (fun m => m.ann4.map (·.id)) = [[1]] ∧ logged unfitInput = 1
    ∧ ¬ fitsAnn unfitInput (nlri4 2 5) := by decide

/-- was: `RuntimeError`, nothing sent.  Now the MP_REACH (58 bytes) goes in a first message and the
    MP_UNREACH, which does not fit next to it (58 + 23 > 60), in a second one. -/
example : (pack mixedInput).status = .ok ∧ (pack mixedInput).msgs.map (·.len) = [4094, 4059]
    ∧ (pack mixedInput).msgs.map (fun m => ((oitems m.reach).map (·.id), (oitems m.unreach).map (·.id)))
        = [([1, 2], []), ([], [3])] ∧ logged mixedInput = 0 := by decide

/-! ## Non-vacuity: the hypotheses are satisfiable on inputs that exercise every part -/

def v4 (id size : Nat) : Nlri := nlri4 id size
def v6 (id size nh : Nat) : Nlri := nlri6 id size nh

/-- Thirteen IPv4 announces and a withdraw that need two messages (the first one exactly full),
    then two MP families; two next hops in family 3; reach and unreach of family 3 share a message;
    one route (id 27) is of a family that is not negotiated; one IPv6 route (id 30, 90 bytes with a
    16-byte next hop → 114-byte attribute) cannot fit in the 60 bytes the attributes leave. -/
def demo : Input :=
  { M := 100, attrDef := 17, attrNoDef := 0, negotiated := [1, 3, 4], simple := [1, 2, 3, 4], famOrder := [4, 3],
    anns := (List.range 13).map (fun k => v4 (k + 1) 5)
      ++ [{ (v6 24 2 1) with fam := 4 }, v6 25 3 1, v6 26 3 2, { (v4 27 5) with fam := 9 }, v6 30 90 1],
    wds := [v4 28 4, wd6 29 2], includeWithdraw := true }

example : demo.M ≤ 65535 ∧ PosSizes demo ∧ FamCover demo := by decide
example : (pack demo).status = .ok ∧ logged demo = 1 := by decide
example : (pack demo).msgs.map (·.len) = [100, 49, 66, 67, 75] := by decide
/-- the IPv4 NLRIs are NOT repeated in the first MP message any more -/
example : ((pack demo).msgs.map (fun m => (m.wd4.map (·.id), m.ann4.map (·.id), (oitems m.reach).map (·.id),
    (oitems m.unreach).map (·.id)))) =
    [([], [1, 2, 3, 4, 5, 6, 7, 8, 9, 10, 11, 12], [], []), ([28], [13], [], []), ([], [], [24], []),
     ([], [], [25], []), ([], [], [26], [29])] := by decide
/-- the route of the family that is not negotiated (27) and the one that cannot fit (30) are in no message -/
example : ∀ m ∈ (pack demo).msgs, ∀ x ∈ m.annsOf, x.id ≠ 27 ∧ x.id ≠ 30 := by decide
example : ¬ fitsAnn demo (v6 30 90 1) ∧ fitsAnn demo (v6 25 3 1) ∧ fitsWd demo (wd6 29 2) := by decide
/-- `c09_no_room` is not vacuous: a request, attributes that fill the message, no output -/
example : (pack { demo with attrDef := 77 }).msgs = [] ∧ (pack { demo with attrDef := 77 }).status = .noRoom := by decide
/-- only MP withdraws: the attribute block without defaults is chosen -/
example : chosenAttr { demo with anns := [], wds := [wd6 29 2] } = 0 := by decide
/-- the extended-length switch is reached: 14 IPv6 /128 NLRIs with one next hop make a 259-byte
    MP_REACH payload (header 4), 13 make 242 (header 3) -/
example : (pack { demo with M := 4096, anns := (List.range 14).map (fun k => v6 k 17 1), wds := [] }).msgs.map (·.len)
    = [19 + 4 + 17 + (4 + (21 + 14 * 17))] := by decide
example : (pack { demo with M := 4096, anns := (List.range 13).map (fun k => v6 k 17 1), wds := [] }).msgs.map (·.len)
    = [19 + 4 + 17 + (3 + (21 + 13 * 17))] := by decide
/-- the former `struct.error` case on a 65535 session: the message that would have been 65536 bytes
    is not built; the /8 is sent in 65533 bytes -/
example : (pack { unfitInput with M := 65535, attrDef := 65508 }).status = .ok
    ∧ (pack { unfitInput with M := 65535, attrDef := 65508 }).msgs.map (·.len) = [65533] := by decide

end Exa.Props.C09
