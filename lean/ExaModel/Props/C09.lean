import ExaModel.Lemmas.PackSpec
import ExaModel.Lemmas.PackRib
set_option linter.unusedSimpArgs false
set_option linter.unusedVariables false
/-!
# C09 — generated UPDATEs fit the negotiated size and lose nothing

Statement (properties.jsonl): for any set of routes to announce and withdraw, any attribute set
and either negotiated maximum message size, every UPDATE ExaBGP generates is no longer than the
negotiated maximum and parses on its own; taken together the generated messages announce every
requested route of a negotiated family with the requested attributes and its own next hop,
withdraw every requested withdrawal, and carry nothing else.  When the attributes leave no room
for even one prefix no message is produced for those routes rather than an oversized one.

Model: `Exa.Pack` (M-Pack), `pack : Input → Out` = `UpdateCollection.messages(negotiated,
include_withdraw)` over sizes, for EVERY `M`, attribute length, number and size of NLRIs, number
of families and next hops.  `(pack i).status` says how the generator ended: `ok`, `noRoom` (the
silent `log.critical` + `return`), `raised` (`RuntimeError('NLRI too large …')`), `tooLong`
(`struct.error` from the 16-bit length field).

What is proved, and what is NOT true of the unchanged code:
* `c09_fits` is the size half, under `FitsAlone` — the hypothesis the proof forces.  Without it
  the statement is false: `c09_unfit_oversize` (a 4097-byte message on a 4096 session, F19).
* `c09_complete` is the "lose nothing" half for a generator that ran to its end (`status = ok`).
  The full statement would need `FitsAlone i → (pack i).status = ok`, which is FALSE:
  `c09_mixed_mp_raises` (every route fits alone, `RuntimeError` all the same, F19).  So the
  property is proved as the named parts below; the two witnesses are replayed on the real code by
  harness/props/C09.py (corpus/C09/f19-*.json).
* `c09_partial` assembles the parts into the property itself for the collections the RIB really
  builds (`RibShaped`: one kind of NLRI per collection), where `c09_rib_shaped_runs_to_end` shows
  that `FitsAlone` does imply `status = ok`.
* "parses on its own" is about bytes; it is checked by the correspondence run (real decoder on
  every emitted message), not by this size model.
-/
namespace Exa.Props.C09
open Exa Exa.Pack

/-- The extended-length switch: the length the size check `_attr_len` predicts is the length of
    what `_attribute_header(code, len(payload)) + payload` puts on the wire, on both sides of 255. -/
theorem ext_len_switch (a : Mp) : a.wire = a.payload + (if a.payload > 255 then 4 else 3) := by
  rw [wire_eq]; rfl

/-- **Fits (size half of C09).** If every NLRI that is to be sent fits alone with the attributes,
    every message generated — IPv4 part, every MP family, the message that repeats the IPv4 NLRIs
    in front of the first MP attribute included — is within the negotiated maximum. -/
theorem c09_fits (i : Input) (h : FitsAlone i) : ∀ m ∈ (pack i).msgs, m.len ≤ i.M :=
  fun m hm => packRaw_fits i h m (pack_sub i m hm)

/-- **Complete ("lose nothing" half), for a generator that ran to its end.** Every requested
    announce of a negotiated family is in a message that carries the attribute block; with
    `include_withdraw`, every requested withdraw of a negotiated family is in a message.
    (Hypotheses: an NLRI has at least one byte; `famOrder` lists the families present.) -/
theorem c09_complete (i : Input) (hp : PosSizes i) (hf : FamCover i) (hok : (pack i).status = .ok) :
    (∀ x ∈ i.anns, x.fam ∈ i.negotiated →
        ∃ m ∈ (pack i).msgs, x ∈ m.annsOf ∧ m.attrs = true) ∧
    (i.includeWithdraw = true → ∀ x ∈ i.wds, x.fam ∈ i.negotiated →
        ∃ m ∈ (pack i).msgs, x ∈ m.wdsOf) := by
  -- `ok` means neither exception: the 16-bit cut did not happen and the raw generator ended
  have hc : (cut (packRaw i).msgs).2 = false := by
    cases h : (cut (packRaw i).msgs).2 with
    | false => rfl
    | true => simp [pack, h] at hok
  have hraw : (packRaw i).status = .ok := by simpa [pack, hc] using hok
  have hm : (pack i).msgs = (packRaw i).msgs := by simp [pack, cut_all _ hc]
  rw [hm]
  obtain ⟨c1, c2, c3⟩ := packRaw_complete i hp hf hraw
  have sec := packRaw_sections i
  have hpos : ∀ x ∈ i.anns, 0 < x.size := hp.1
  constructor
  · intro x hx hn
    by_cases hv : x.v4 = true
    · obtain ⟨m, hm, hxm⟩ := c1 x (List.mem_filter.2 ⟨hx, by simp [hn, hv]⟩)
      refine ⟨m, hm, by rw [annsOf_eq]; exact List.mem_append_left _ hxm, ?_⟩
      rcases (sec m hm).att with h | ⟨h, _⟩
      · exact h
      · exfalso
        have : Pos m.ann4 := fun y hy => hpos y (List.mem_filter.1 ((sec m hm).a4 y hy)).1
        rw [(sz_eq_zero_of_pos this).1 h] at hxm; simp at hxm
    · obtain ⟨m, hm, r, hr, hxr⟩ := c2 x (List.mem_filter.2 ⟨hx, by simp [hn, hv]⟩)
      refine ⟨m, hm, by rw [annsOf_eq, hr]; exact List.mem_append_right _ hxr, ?_⟩
      rcases (sec m hm).att with h | ⟨_, h⟩
      · exact h
      · rw [hr] at h; cases h
  · intro hi x hx hn
    by_cases hv : x.v4 = true
    · obtain ⟨m, hm, hxm⟩ := (c3 hi).1 x (List.mem_filter.2 ⟨hx, by simp [hn, hv]⟩)
      exact ⟨m, hm, by rw [wdsOf_eq]; exact List.mem_append_left _ hxm⟩
    · obtain ⟨m, hm, r, hr, hxr⟩ := (c3 hi).2 x (List.mem_filter.2 ⟨hx, by simp [hn, hv]⟩)
      exact ⟨m, hm, by rw [wdsOf_eq, hr]; exact List.mem_append_right _ hxr⟩

/-- **Nothing else** (holds however the generator ended, for the messages it did yield): every
    NLRI announced by a message is a requested announce of a negotiated family, every NLRI
    withdrawn is a requested withdraw of a negotiated family and `include_withdraw` was set; the
    classic fields only hold what the code classifies as IPv4 (`v4`), the MP attributes only the
    rest.  (The IPv4 NLRIs repeated in the first MP message are the same requested routes.) -/
theorem c09_nothing_else (i : Input) : ∀ m ∈ (pack i).msgs,
    (∀ x ∈ m.annsOf, x ∈ i.anns ∧ x.fam ∈ i.negotiated) ∧
    (∀ x ∈ m.wdsOf, x ∈ i.wds ∧ x.fam ∈ i.negotiated ∧ i.includeWithdraw = true) ∧
    (∀ x ∈ m.ann4 ++ m.wd4, x.v4 = true) ∧
    (∀ x ∈ oitems m.reach ++ oitems m.unreach, x.v4 = false) := by
  intro m hm
  have s := packRaw_sections i m (pack_sub i m hm)
  have fa : ∀ x, x ∈ v4Anns i → x ∈ i.anns ∧ x.fam ∈ i.negotiated ∧ x.v4 = true := by
    intro x hx; have := List.mem_filter.1 hx; simp at this; exact ⟨this.1, this.2.1, this.2.2⟩
  have fw : ∀ x, x ∈ v4Wds i → x ∈ i.wds ∧ x.fam ∈ i.negotiated ∧ x.v4 = true := by
    intro x hx; have := List.mem_filter.1 hx; simp at this; exact ⟨this.1, this.2.1, this.2.2⟩
  have ma : ∀ x, x ∈ mpAnns i → x ∈ i.anns ∧ x.fam ∈ i.negotiated ∧ x.v4 = false := by
    intro x hx; have := List.mem_filter.1 hx; simp at this; exact ⟨this.1, this.2.1, this.2.2⟩
  have mw : ∀ x, x ∈ mpWds i → x ∈ i.wds ∧ x.fam ∈ i.negotiated ∧ x.v4 = false := by
    intro x hx; have := List.mem_filter.1 hx; simp at this; exact ⟨this.1, this.2.1, this.2.2⟩
  refine ⟨?_, ?_, ?_, ?_⟩
  · intro x hx
    rw [annsOf_eq] at hx
    rcases List.mem_append.1 hx with h | h
    · have := fa x (s.a4 x h); exact ⟨this.1, this.2.1⟩
    · cases hr : m.reach with
      | none => simp [hr] at h
      | some r =>
        simp [hr] at h
        have := ma x ((s.r r hr).2 x h).1; exact ⟨this.1, this.2.1⟩
  · intro x hx
    rw [wdsOf_eq] at hx
    rcases List.mem_append.1 hx with h | h
    · have h' := s.w4 x h
      have := fw x h'.1; exact ⟨this.1, this.2.1, h'.2⟩
    · cases hu : m.unreach with
      | none => simp [hu] at h
      | some u =>
        simp [hu] at h
        have h' := s.u u hu
        have := mw x (h'.2.2 x h).1; exact ⟨this.1, this.2.1, h'.1⟩
  · intro x hx
    rcases List.mem_append.1 hx with h | h
    · exact (fa x (s.a4 x h)).2.2
    · exact (fw x (s.w4 x h).1).2.2
  · intro x hx
    rcases List.mem_append.1 hx with h | h
    · cases hr : m.reach with
      | none => simp [hr] at h
      | some r => simp [hr] at h; exact (ma x ((s.r r hr).2 x h).1).2.2
    · cases hu : m.unreach with
      | none => simp [hu] at h
      | some u => simp [hu] at h; exact (mw x ((s.u u hu).2.2 x h).1).2.2

/-- **Own next hop.** An MP_REACH_NLRI of the output is for one family and one next hop (its
    header is AFI, SAFI, length, that next hop, reserved) and every NLRI in it was requested with
    exactly that family and next hop; an MP_UNREACH_NLRI is for one family. -/
theorem c09_own_nexthop (i : Input) : ∀ m ∈ (pack i).msgs,
    (∀ r, m.reach = some r → r.hdr = 5 + r.nhLen ∧
        ∀ x ∈ r.items, x.fam = r.fam ∧ x.nh = r.nh ∧ x.nhLen = r.nhLen) ∧
    (∀ u, m.unreach = some u → u.hdr = 3 ∧ ∀ x ∈ u.items, x.fam = u.fam) := by
  intro m hm
  have s := packRaw_sections i m (pack_sub i m hm)
  constructor
  · intro r hr
    obtain ⟨h1, h2⟩ := s.r r hr
    exact ⟨h1, fun x hx => (h2 x hx).2⟩
  · intro u hu
    obtain ⟨_, h1, h2⟩ := s.u u hu
    exact ⟨h1, fun x hx => (h2 x hx).2⟩

/-- **No room at all.** When the attribute block alone (with the 23 bytes of framing) reaches the
    negotiated maximum, no message is produced. -/
theorem c09_no_room (i : Input) (h : i.M ≤ 23 + chosenAttr i) : (pack i).msgs = [] := by
  have := packRaw_no_room i h
  simp [pack, this, cut]

/-- **Giving up is silent and total.** Whenever the code takes its `log.critical` + `return`
    (attributes too large for the NLRI in hand), it has not produced any message — in particular
    no oversized one. -/
theorem c09_gives_up_before_first_message (i : Input) (hp : PosSizes i) (h : (pack i).status = .noRoom) :
    (pack i).msgs = [] := by
  have hc : (cut (packRaw i).msgs).2 = false := by
    cases hh : (cut (packRaw i).msgs).2 with
    | false => rfl
    | true => simp [pack, hh] at h
  have hraw : (packRaw i).status = .noRoom := by simpa [pack, hc] using h
  have := packRaw_noRoom i hp hraw
  simp [pack, this, cut]

/-- **The collections the RIB builds run to the end.** `OutgoingRIB.updates` only ever builds
    collections of one kind — classic IPv4 NLRIs only, or NLRIs of MP families with announces or
    withdraws but not both (`RibShaped`).  For those, when every NLRI fits alone (and the attributes
    leave any room at all, on a session whose maximum is at most 65535), `messages` ends normally:
    no `RuntimeError`, no `struct.error`, no silent give-up. -/
theorem c09_rib_shaped_runs_to_end (i : Input) (hfit : FitsAlone i) (hM : i.M ≤ 65535)
    (hroom : 23 + chosenAttr i < i.M) (hs : RibShaped i) : (pack i).status = .ok := by
  have hraw := packRaw_rib_ok i hfit hroom hs
  have hc := cut_ok (packRaw i).msgs (fun m hm => Nat.le_trans (packRaw_fits i hfit m hm) hM)
  simp [pack, hc, hraw]

/-- **C09 in full for the collections the RIB builds** (`c09_partial`: the missing part of the
    property as worded — arbitrary MIXED collections — is false of the unchanged code, see
    `c09_mixed_mp_raises`).  When every NLRI fits alone: every message is within the negotiated
    maximum; the messages announce exactly the requested routes of negotiated families, each in a
    message that carries the attribute block, MP routes under their own next hop; they withdraw
    exactly the requested withdrawals (none without `include_withdraw`); nothing else. -/
theorem c09_partial (i : Input) (hfit : FitsAlone i) (hp : PosSizes i) (hf : FamCover i) (hM : i.M ≤ 65535)
    (hroom : 23 + chosenAttr i < i.M) (hs : RibShaped i) :
    (∀ m ∈ (pack i).msgs, m.len ≤ i.M) ∧
    (∀ x, (∃ m ∈ (pack i).msgs, x ∈ m.annsOf) ↔ (x ∈ i.anns ∧ x.fam ∈ i.negotiated)) ∧
    (∀ m ∈ (pack i).msgs, m.annsOf ≠ [] → m.attrs = true) ∧
    (∀ x, (∃ m ∈ (pack i).msgs, x ∈ m.wdsOf) ↔
        (x ∈ i.wds ∧ x.fam ∈ i.negotiated ∧ i.includeWithdraw = true)) ∧
    (∀ m ∈ (pack i).msgs, ∀ r, m.reach = some r →
        ∀ x ∈ r.items, x.fam = r.fam ∧ x.nh = r.nh ∧ x.nhLen = r.nhLen) := by
  have hok := c09_rib_shaped_runs_to_end i hfit hM hroom hs
  have hc := c09_complete i hp hf hok
  refine ⟨c09_fits i hfit, ?_, ?_, ?_, ?_⟩
  · intro x
    constructor
    · rintro ⟨m, hm, hx⟩; exact (c09_nothing_else i m hm).1 x hx
    · rintro ⟨hx, hn⟩
      obtain ⟨m, hm, hxm, _⟩ := hc.1 x hx hn
      exact ⟨m, hm, hxm⟩
  · intro m hm hne
    have s := packRaw_sections i m (pack_sub i m hm)
    rcases s.att with h | ⟨h0, hr⟩
    · exact h
    · exfalso
      apply hne
      rw [annsOf_eq, hr]
      have : Pos m.ann4 := fun y hy => hp.1 y (List.mem_filter.1 (s.a4 y hy)).1
      simp [(sz_eq_zero_of_pos this).1 h0]
  · intro x
    constructor
    · rintro ⟨m, hm, hx⟩; exact (c09_nothing_else i m hm).2.1 x hx
    · rintro ⟨hx, hn, hi⟩
      exact hc.2 hi x hx hn
  · intro m hm r hr x hx
    exact ((c09_own_nexthop i m hm).1 r hr).2 x hx

/-! ## The excluded points (F19): `decide` witnesses, replayed on the real code -/

/-! `unfitInput` and `mixedInput` are defined next to the model (`Model/Pack.lean`); the harness
    checks through `drv_pack` (`pack witness unfit|mixed`) that they are exactly the inputs measured on
    the real objects of corpus/C09/f19-oversize-4097.json and corpus/C09/f19-runtime-error.json, and
    that the real code does what the two theorems say. -/

/-- **Without `FitsAlone` the size half is false**: the second message is 4097 bytes long on a
    session whose maximum is 4096 (the second prefix does not fit alone: 23 + 4069 + 5 = 4097). -/
theorem c09_unfit_oversize :
    ¬ FitsAlone unfitInput ∧ (pack unfitInput).status = .ok ∧
    (pack unfitInput).msgs.map (·.len) = [4094, 4097] ∧ unfitInput.M = 4096 := by
  decide

/-- **Every route fits alone and yet nothing is sent**: the MP_UNREACH generator is given the room
    left NEXT TO the pending MP_REACH (60 − 58 = 2 bytes) and raises `RuntimeError` instead of the
    pending attribute being sent first; both announces and the withdraw are lost. -/
theorem c09_mixed_mp_raises :
    FitsAlone mixedInput ∧ PosSizes mixedInput ∧ FamCover mixedInput ∧
    (pack mixedInput).status = .raised ∧ (pack mixedInput).msgs = [] := by
  decide

/-! ## Non-vacuity: the hypotheses are satisfiable on inputs that exercise every part -/

def v4 (id size : Nat) : Nlri := nlri4 id size
def v6 (id size nh : Nat) : Nlri := nlri6 id size nh

/-- Thirteen IPv4 announces and a withdraw that need two messages (the first one exactly full),
    then two MP families; the first MP message repeats the IPv4 NLRIs of the last IPv4 message; two
    next hops in family 3; reach and unreach of family 3 share a message; one route (id 27) is of
    a family that is not negotiated. -/
def demo : Input :=
  { M := 100, attrDef := 17, attrNoDef := 0, negotiated := [1, 3, 4], simple := [1, 2, 3, 4], famOrder := [4, 3],
    anns := (List.range 13).map (fun k => v4 (k + 1) 5)
      ++ [{ (v6 24 2 1) with fam := 4 }, v6 25 3 1, v6 26 3 2, { (v4 27 5) with fam := 9 }],
    wds := [v4 28 4, wd6 29 2], includeWithdraw := true }

example : FitsAlone demo ∧ PosSizes demo ∧ FamCover demo := by decide
example : (pack demo).status = .ok := by decide
example : (pack demo).msgs.map (·.len) = [100, 49, 75, 67, 75] := by decide
/-- the IPv4 section is repeated in the first MP message (family 4 comes first in the set order) -/
example : ((pack demo).msgs.map (fun m => (m.wd4.map (·.id), m.ann4.map (·.id), (oitems m.reach).map (·.id),
    (oitems m.unreach).map (·.id)))) =
    [([], [1, 2, 3, 4, 5, 6, 7, 8, 9, 10, 11, 12], [], []), ([28], [13], [], []), ([28], [13], [24], []),
     ([], [], [25], []), ([], [], [26], [29])] := by decide
/-- the route of the family that is not negotiated (id 7) is in no message -/
example : ∀ m ∈ (pack demo).msgs, ∀ x ∈ m.annsOf, x.id ≠ 27 := by decide
/-- `c09_partial` is not vacuous: 13 IPv4 announces needing two messages; an MP family with two next hops -/
example : let i := { demo with anns := (List.range 13).map (fun k => v4 (k + 1) 5), wds := [] }
    FitsAlone i ∧ PosSizes i ∧ FamCover i ∧ RibShaped i ∧ 23 + chosenAttr i < i.M ∧ (pack i).msgs.length = 2 := by decide
example : let i := { demo with anns := [v6 25 3 1, v6 26 3 2, v6 27 17 1], wds := [] }
    FitsAlone i ∧ PosSizes i ∧ FamCover i ∧ RibShaped i ∧ 23 + chosenAttr i < i.M ∧ (pack i).msgs.length = 2 := by decide
/-- `demo` itself is mixed (not `RibShaped`), and `mixedInput` is why the hypothesis is there -/
example : ¬ RibShaped demo ∧ ¬ RibShaped mixedInput := by decide
/-- `c09_no_room` is not vacuous: a request, attributes that fill the message, no output -/
example : (pack { demo with attrDef := 77 }).msgs = [] ∧ (pack { demo with attrDef := 77 }).status = .noRoom := by decide
/-- only MP withdraws: the attribute block without defaults is chosen -/
example : chosenAttr { demo with anns := [], wds := [wd6 29 2] } = 0 := by decide
/-- the extended-length switch is reached: 14 IPv6 /128 NLRIs with one next hop make a 259-byte
    MP_REACH payload (header 4), 13 make 242 (header 3) -/
example : (pack { demo with M := 4096, anns := (List.range 14).map (fun k => v6 k 17 1), wds := [] }).msgs.map (·.len)
    = [19 + 4 + 17 + (4 + (21 + 14 * 17))] := by decide
example : (pack { demo with M := 4096, anns := (List.range 13).map (fun k => v6 k 17 1), wds := [] }).msgs.map (·.len)
    = [19 + 4 + 17 + (3 + (21 + 13 * 17))] := by decide
/-- on a 65535 session the oversized message is not sent: `struct.error` (status `tooLong`) -/
example : (pack { unfitInput with M := 65535, attrDef := 65508 }).status = .tooLong
    ∧ (pack { unfitInput with M := 65535, attrDef := 65508 }).msgs.map (·.len) = [65533] := by decide

end Exa.Props.C09
