import ExaModel.Lemmas.FlowExaDecodeMain
import ExaModel.Generated.FlowTable
set_option linter.unusedSimpArgs false
/-!
# C16 — FlowSpec rules mean on the wire what they say in text

Statement (properties.jsonl): every FlowSpec rule expressible in configuration or API text is
encoded per RFC 8955/8956: components in ascending type order, end-of-list set on exactly the
last operator of each component, AND bits as written, each value in the shortest allowed width,
the NLRI length in one byte below 240 and two bytes (0xFnnn) from 240 to 4095, the route
distinguisher first for flow-vpn, and traffic actions mapped to the RFC extended communities.
Every well-formed FlowSpec NLRI decodes to the rule an RFC reference decoder extracts, and an
NLRI with an undefined component or a truncated value is never delivered as a shorter, broader rule.

Model: `Exa.Flow` (M-Flow, `Model/Flow.lean`).
* `Rule = List Comp`; `encodeFlow`/`decodeFlow`/`encodeNlri`/`decodeNlri` are the RFC 8955/8956
  reference codec written from the wire layouts (not from ExaBGP); the raw layer
  (`RawComp`, `encodeRaw`, `decodeRaw`) is the byte grammar.
* `exaPack`/`exaDecode` model what `flow.py` does (dict by ID + `sorted`, EOL rewrite, width by
  class, `Flow.add`, `_encode_length`, `unpack_nlri`); `exaAction` the then-clause mapping.
* Generated table `Generated/FlowTable.lean` (component IDs, operator family, `VALUE_SIZES`, bit
  constants, length constants, community codes) is re-extracted from /repo on every run.

What the unchanged tree gets wrong is *not* hidden in hypotheses: `GoodText` (the texts for which
ExaBGP's encoder is proved to be the RFC encoder) excludes exactly IPv6 offsets ≠ 0, values above
the RFC width (refused by the parser), repeated/mixed-family prefixes and non-canonical host bits, and the `example`s at
the end of the file exhibit the model's (and, by the correspondence run, the code's) behaviour on
those inputs.
-/
namespace Exa.Props.C16
open Exa Exa.Flow

/-! ## The reference codec: round trip -/

/-- **Round trip (rule).** The reference decoder is a left inverse of the reference encoder on
    every well-formed rule: nothing a rule says is lost or altered by the wire format. -/
theorem flow_roundtrip (v6 : Bool) (r : Rule) (h : WFRule v6 r) : decodeFlow v6 (encodeFlow r) = .ok r :=
  flow_roundtrip' v6 r h

/-- **Round trip (NLRI).** With length prefix and (flow-vpn) route distinguisher, followed by
    any further bytes of the UPDATE: exactly the NLRI is consumed and the same rule comes back. -/
theorem nlri_roundtrip (v6 vpn : Bool) (x : Nlri) (rest : Bytes) (h : WFNlri v6 vpn x) :
    decodeNlri v6 vpn (encodeNlri x ++ rest) = .ok (x, rest) :=
  nlri_roundtrip' v6 vpn x rest h

/-! ## Shape of the encoding -/

/-- **Ascending type order.** Reading the encoding of a well-formed rule as a sequence of
    components gives one raw component per rule component, and the type octets met on the wire
    are strictly ascending. -/
theorem ordered (v6 : Bool) (r : Rule) (h : WFRule v6 r) :
    ∃ rc, decodeRaw v6 (encodeFlow r) = .ok rc ∧ rc.map RawComp.ty = r.map Comp.ty ∧
      ascending (rc.map RawComp.ty) = true :=
  ⟨r.map toRaw, decodeRaw_encodeFlow v6 r h.1, map_toRaw_ty r, by rw [map_toRaw_ty]; exact h.2⟩

/-- **End-of-list on exactly the last operator.** In the operator list written for a component
    (`toRawTerms`, whose concatenation is the component's bytes), operator `i` carries the
    end-of-list bit iff it is the last one; and there is one operator per term. -/
theorem eol_last_only (ts : List Term) (i : Nat) (h : i < ts.length) :
    (toRawTerms ts).length = ts.length ∧
    opEol ((toRawTerms ts)[i]'(by rw [toRawTerms_length]; exact h)).op = decide (i + 1 = ts.length) := by
  refine ⟨toRawTerms_length ts, ?_⟩
  rw [toRawTerms_getElem ts i h]
  simp only [toRawTerm]
  exact opEol_opByte _ _ _ _ _ _ (widthCode_lt _)

/-- **AND bits as written** (and the comparison bits too): operator `i` on the wire carries
    exactly the flags of term `i`. -/
theorem and_bits_preserved (ts : List Term) (i : Nat) (h : i < ts.length) :
    let op := ((toRawTerms ts)[i]'(by rw [toRawTerms_length]; exact h)).op
    opAnd op = ts[i].andBit ∧ opLt op = ts[i].lt ∧ opGt op = ts[i].gt ∧ opEq op = ts[i].eq ∧ op < 256 := by
  intro op
  have e : op = (toRawTerm (decide (i + 1 = ts.length)) ts[i]).op := by
    simp only [op]; rw [toRawTerms_getElem ts i h]
  have hc := widthCode_lt ts[i].value
  rw [e]
  simp only [toRawTerm]
  exact ⟨opAnd_opByte _ _ _ _ _ _ hc, opLt_opByte _ _ _ _ _ _ hc, opGt_opByte _ _ _ _ _ _ hc,
    opEq_opByte _ _ _ _ _ _ hc, opByte_lt _ _ _ _ _ _ hc⟩

/-- **Shortest allowed width.** The value of term `i` is written in `w` bytes where `w` is the
    width the operator announces, the value fits in `w` bytes and reads back, no shorter width of
    1, 2, 4, 8 holds it, and for a value the component allows (`< 256 ^ maxWidth ty`) `w` is one
    of the component's allowed widths (`≤ maxWidth ty`). -/
theorem shortest_width (ty : Nat) (ts : List Term) (i : Nat) (h : i < ts.length)
    (hv : ts[i].value < 256 ^ maxWidth ty) :
    let rt := (toRawTerms ts)[i]'(by rw [toRawTerms_length]; exact h)
    rt.val.length = opWidth rt.op ∧ ts[i].value < 256 ^ rt.val.length ∧ rdN rt.val = ts[i].value ∧
    (∀ w, w = 1 ∨ w = 2 ∨ w = 4 ∨ w = 8 → ts[i].value < 256 ^ w → rt.val.length ≤ w) ∧
    rt.val.length ≤ maxWidth ty ∧ WFBytes rt.val := by
  intro rt
  have e : rt = toRawTerm (decide (i + 1 = ts.length)) ts[i] := by
    simp only [rt]; rw [toRawTerms_getElem ts i h]
  have hc := widthCode_lt ts[i].value
  have hb : ts[i].value < 18446744073709551616 := by have := maxWidth_bound ty _ hv; omega
  rw [e]
  simp only [toRawTerm, beN_length]
  refine ⟨(opWidth_opByte _ _ _ _ _ _ hc).symm, widthCode_fits _ hb, rdN_beN_lt (widthCode_fits _ hb), ?_, ?_, wf_beN _ _⟩
  · intro w hw hlt; exact widthCode_min _ w hw hlt
  · exact widthCode_allowed ty _ hv

/-- **Length switch at 240.** One octet below 240; two octets `0xFn nn` from 240 to 4095, whose
    first octet lies in `0xF0..0xFF` and whose 12 low bits are the length; the field is made of
    bytes, announces exactly the payload length, and the reference decoder splits on it. -/
theorem length_switch_240 (n : Nat) (h : n < 4096) :
    (n < 240 → lengthPrefix n = [n]) ∧
    (240 ≤ n → lengthPrefix n = [240 + n / 256, n % 256] ∧ 240 + n / 256 < 256 ∧
      (240 + n / 256) % 16 * 256 + n % 256 = n) ∧
    WFBytes (lengthPrefix n) ∧ LenField rfcHi (lengthPrefix n) n ∧
    (∀ p rest : Bytes, p.length = n → splitNlri rfcHi (lengthPrefix n ++ p ++ rest) = .ok (p, rest)) := by
  refine ⟨lengthPrefix_small n, ?_, wf_lengthPrefix n h, lenField_lengthPrefix n h, ?_⟩
  · intro h240; exact ⟨lengthPrefix_big n h240, by omega, by omega⟩
  · intro p rest hp; subst hp; exact splitNlri_encode p rest h

/-- **Route distinguisher first.** For flow-vpn the payload is the 8 RD bytes followed by the
    components, the length field counts both, and the decoder hands back those 8 bytes as the RD. -/
theorem rd_first (v6 : Bool) (rd : Bytes) (r : Rule) (rest : Bytes) (hrd : rd.length = 8)
    (h : WFRule v6 r) (hlen : 8 + (encodeFlow r).length < 4096) :
    encodeNlri ⟨some rd, r⟩ = lengthPrefix (8 + (encodeFlow r).length) ++ (rd ++ encodeFlow r) ∧
    decodeNlri v6 true (encodeNlri ⟨some rd, r⟩ ++ rest) = .ok (⟨some rd, r⟩, rest) := by
  refine ⟨?_, ?_⟩
  · simp [encodeNlri, nlriPayload, hrd]
  · apply nlri_roundtrip'
    refine ⟨h, ?_, ?_⟩
    · simp [nlriPayload, hrd]; omega
    · exact ⟨rd, rfl, hrd⟩

/-! ## Safety: what the reference decoder accepts -/

/-- **Only complete NLRIs of defined components are accepted.** If the reference decoder returns
    a rule for `bs` then `bs` is exactly: a length field, a payload of exactly the announced
    length, and the rest; the payload is (for flow-vpn) 8 RD bytes followed by a sequence of
    *complete* components — every type defined for the family, every prefix with all its pattern
    bytes, every operator with all the value bytes it announces, every operator list closed by
    its end-of-list bit on its last operator only (`CompShape`) — in strictly ascending type
    order, and the rule is the meaning of precisely those components.  So a payload that ends
    inside a value, or contains an undefined component, is never read as a shorter rule. -/
theorem truncated_or_undefined_rejected (v6 vpn : Bool) (bs : Bytes) (x : Nlri) (rest : Bytes)
    (h : decodeNlri v6 vpn bs = .ok (x, rest)) :
    ∃ lp rdb rc, bs = lp ++ (rdb ++ encodeRaw rc) ++ rest ∧ LenField rfcHi lp (rdb ++ encodeRaw rc).length ∧
      (if vpn then rdb.length = 8 ∧ x.rd = some rdb else rdb = [] ∧ x.rd = none) ∧
      (∀ c ∈ rc, CompShape v6 rfcP6 c) ∧ ascending (rc.map RawComp.ty) = true ∧ x.rule = rc.map (interp v6) :=
  decodeNlri_sound v6 vpn bs x rest h

/-- **Undefined component.** Whatever complete components precede it and whatever follows, a
    type octet the family does not define makes the whole payload an error — the components
    parsed so far are not delivered. -/
theorem undefined_component_rejected (v6 : Bool) (pre : List RawComp) (t : Nat) (tail : Bytes)
    (hpre : ∀ c ∈ pre, CompShape v6 rfcP6 c) (ht : kindOf v6 t = none) :
    decodeFlow v6 (encodeRaw pre ++ t :: tail) = .error .undefinedType := by
  have := decodeComps_prefix_error v6 rfcP6 pre (t :: tail) .undefinedType ((encodeRaw pre ++ t :: tail).length + 1)
    hpre (by omega) (fun f hf => decodeComps_undefined v6 rfcP6 t tail ht f hf)
  simp only [decodeFlow, decodeRaw, this]

/-- **Truncated value.** A payload whose last operator announces more value bytes than remain is
    an error, whatever complete components and complete operators precede it. -/
theorem truncated_value_rejected (v6 : Bool) (pre : List RawComp) (ty : Nat) (ts : List RawTerm) (op : Nat)
    (val : Bytes) (hpre : ∀ c ∈ pre, CompShape v6 rfcP6 c)
    (hk : kindOf v6 ty = some .numeric ∨ kindOf v6 ty = some .bitmask) (hts : TermsOpen ts)
    (hshort : val.length < opWidth op) :
    decodeFlow v6 (encodeRaw pre ++ ty :: (ts.flatMap encodeRawTerm ++ op :: val)) = .error .valueShort := by
  have := decodeComps_prefix_error v6 rfcP6 pre (ty :: (ts.flatMap encodeRawTerm ++ op :: val)) .valueShort
    ((encodeRaw pre ++ ty :: (ts.flatMap encodeRawTerm ++ op :: val)).length + 1) hpre (by omega)
    (fun f hf => decodeComps_value_short v6 rfcP6 ty ts op val hk hts hshort f hf)
  simp only [decodeFlow, decodeRaw, this]

/-- **Missing end-of-list.** A payload that ends inside an operator list (no operator carried the
    end-of-list bit) is an error. -/
theorem missing_eol_rejected (v6 : Bool) (pre : List RawComp) (ty : Nat) (ts : List RawTerm)
    (hpre : ∀ c ∈ pre, CompShape v6 rfcP6 c)
    (hk : kindOf v6 ty = some .numeric ∨ kindOf v6 ty = some .bitmask) (hts : TermsOpen ts) :
    decodeFlow v6 (encodeRaw pre ++ ty :: ts.flatMap encodeRawTerm) = .error .noEol := by
  have := decodeComps_prefix_error v6 rfcP6 pre (ty :: ts.flatMap encodeRawTerm) .noEol
    ((encodeRaw pre ++ ty :: ts.flatMap encodeRawTerm).length + 1) hpre (by omega)
    (fun f hf => decodeComps_no_eol v6 rfcP6 ty ts hk hts f hf)
  simp only [decodeFlow, decodeRaw, this]

/-- **Truncated NLRI.** If fewer bytes follow the length field than it announces, nothing is decoded. -/
theorem short_buffer_rejected (v6 vpn : Bool) (n : Nat) (body : Bytes) (h : n < 4096) (hshort : body.length < n) :
    decodeNlri v6 vpn (lengthPrefix n ++ body) = .error .lengthShort := by
  by_cases hn : n < 240
  · rw [lengthPrefix_small n hn]
    simp only [decodeNlri, List.cons_append, List.nil_append, splitNlri]
    rw [if_neg (by omega), if_pos hshort]
  · rw [lengthPrefix_big n (by omega)]
    simp only [decodeNlri, List.cons_append, List.nil_append, splitNlri]
    rw [if_pos (by omega)]
    have e : rfcHi ((240 + n / 256) % 16) + n % 256 = n := by simp only [rfcHi]; omega
    simp only [e, hshort, if_true]

/-! ## Traffic actions -/

/-- **Actions are the RFC extended communities.** Every action is 8 bytes, the first two are the
    type/subtype the RFCs assign (RFC 8955 §7: 0x8006 traffic-rate-bytes, 0x800c
    traffic-rate-packets, 0x8007 traffic-action, 0x8008 / 0x8108 / 0x8208 rt-redirect, 0x8009
    traffic-marking; drafts: 0x0800, 0x010c), and the fields are recovered by the reference reader. -/
theorem action_communities (a : Action) (h : WFAction a) :
    (encodeAction a).length = 8 ∧ WFBytes (encodeAction a) ∧ decodeAction (encodeAction a) = some a ∧
    (encodeAction a).take 2 =
      (match a with
       | .rateBytes _ _ => [0x80, 0x06] | .ratePackets _ _ => [0x80, 0x0c] | .trafficAction _ _ => [0x80, 0x07]
       | .redirectAS2 _ _ => [0x80, 0x08] | .redirectIP4 _ _ => [0x81, 0x08] | .redirectAS4 _ _ => [0x82, 0x08]
       | .mark _ => [0x80, 0x09] | .nexthopSimpson _ => [0x08, 0x00] | .nexthopIetf4 _ _ => [0x01, 0x0c]) :=
  ⟨action_length a, action_wf a h, action_roundtrip a h, by cases a <;> rfl⟩

/-- traffic-action bits: sample is bit 46 (0x02 of the last octet), terminal bit 47 (0x01);
    traffic-marking keeps the DSCP in the six low bits of the last octet; discard is rate 0. -/
theorem action_fields (s t : Bool) (d : Nat) (hd : d < 64) :
    encodeAction (.trafficAction s t) = [0x80, 0x07, 0, 0, 0, 0, 0, b2n s * 2 + b2n t] ∧
    encodeAction (.mark d) = [0x80, 0x09, 0, 0, 0, 0, 0, d] ∧ d % 64 = d ∧
    exaAction .discard = some (.rateBytes 0 0) ∧ encodeAction (.rateBytes 0 0) = [0x80, 0x06, 0, 0, 0, 0, 0, 0] :=
  ⟨rfl, rfl, Nat.mod_eq_of_lt hd, rfl, by decide⟩

/-- the text actions the parser accepts always map to well-formed communities -/
theorem text_actions_wellformed (ta : TAction) (a : Action) (h : exaAction ta = some a)
    (hip : match ta with | .redirectNexthopIetf ip => ip < 4294967296 | _ => True)
    : WFAction a ∨ ∃ n, a = .rateBytes 0 (f32OfNat n) ∨ a = .ratePackets 0 (f32OfNat n) := by
  cases ta with
  | discard => simp [exaAction] at h; subst h; left; simp [WFAction]
  | rateLimitBytes n => simp [exaAction] at h; subst h; right; exact ⟨_, Or.inl rfl⟩
  | rateLimitPackets n => simp [exaAction] at h; subst h; right; exact ⟨_, Or.inr rfl⟩
  | redirect asn nn =>
    simp only [exaAction] at h
    split at h
    · simp at h
    · split at h
      · split at h
        · simp at h
        · simp at h; subst h; left; simp only [WFAction]; omega
      · split at h
        · simp at h
        · simp at h; subst h; left; simp only [WFAction]; omega
  | markDscp d =>
    simp only [exaAction] at h
    split at h
    · simp at h
    · simp at h; subst h; left; simp only [WFAction]; omega
  | action s t =>
    simp only [exaAction] at h
    split at h
    · simp at h; subst h; left; simp [WFAction]
    · simp at h
  | redirectToNexthop => simp [exaAction] at h; subst h; left; simp [WFAction]
  | redirectIp _ => simp [exaAction] at h; subst h; left; simp [WFAction]
  | copyIp _ => simp [exaAction] at h; subst h; left; simp [WFAction]
  | redirectNexthopIetf ip => simp [exaAction] at h; subst h; left; simpa [WFAction] using hip

/-! ## Tables extracted from the code -/

open Exa.Generated.FlowTable in
/-- **Component table.** IDs, operator family and allowed value sizes registered in the code
    (`flow.decode`, `flow.factory`, `VALUE_SIZES`) are the RFC 8955/8956 table, for both families. -/
theorem table_matches_rfc : table4 = specTable false ∧ table6 = specTable true := by
  refine ⟨by decide, by decide⟩

/-- the RFC table is what `kindOf` / `maxWidth` (used by every theorem above) say, for both families,
    and a type is defined iff it is 1–12, or 13 for IPv6 -/
theorem spec_table_consistent :
    (∀ v6 : Bool, ∀ r ∈ specTable v6,
      (kindOf v6 r.1).map Kind.code = some r.2.1 ∧ (r.2.1 ≠ 0 → r.2.2 = widthsUpTo (maxWidth r.1))) ∧
    (∀ v6 : Bool, ∀ t : Nat, (kindOf v6 t).isSome = true ↔ (1 ≤ t ∧ t ≤ 12) ∨ (t = 13 ∧ v6 = true)) := by
  refine ⟨by decide, ?_⟩
  intro v6 t
  simp only [kindOf]
  constructor
  · intro h
    split at h
    · omega
    · split at h
      · omega
      · split at h
        · omega
        · split at h
          · rename_i h13; right; exact h13
          · simp at h
  · intro h
    split
    · rfl
    · split
      · rfl
      · split
        · rfl
        · split
          · rfl
          · rename_i h1 h2 h3 h4
            rcases h with h | h
            · omega
            · exact absurd h h4

open Exa.Generated.FlowTable in
/-- operator bit constants, value-width table and length constants of the code are the ones the
    models are written with (`opByte`, `opWidth`, `exaEncodeLength`, `exaHi`) -/
theorem code_constants :
    opEOL = opByte true false 0 false false false ∧ opAND = opByte false true 0 false false false ∧
    opLEN = 3 * 16 ∧ numLT = opByte false false 0 true false false ∧ numGT = opByte false false 0 false true false ∧
    numEQ = opByte false false 0 false false true ∧ binNOT = numGT ∧ binMATCH = numEQ ∧
    power = [0, 1, 2, 3].map (fun c => (c, opWidth (c * 16))) ∧
    (∀ n, exaEncodeLength n =
      if n < lengthCompactMax then .ok [n] else if n ≤ lengthExtendedMax then .ok [lengthExtendedValue + n / 256, n % 256]
      else .error .tooLong) ∧
    (∀ n, exaHi n = n * 2 ^ lengthExtendedShift) ∧ lengthExtendedMask = 0xF0 ∧ lengthLowerMask = 0x0F := by
  refine ⟨by decide, by decide, by decide, by decide, by decide, by decide, by decide, by decide, by decide, ?_, ?_, by decide, by decide⟩
  · intro n; rfl
  · intro n; simp [exaHi, lengthExtendedShift]

open Exa.Generated.FlowTable in
/-- the community codes of `traffic.py` are the RFC ones the model encodes (the two IPv6-specific
    20-byte communities are outside the 8-byte model) -/
theorem action_codes_generated :
    (actionCodes.filter (fun r => r.2.2.2 == 8)).map (fun r => (r.1, r.2.1, r.2.2.1)) =
      [("TrafficAction", 0x80, 0x07), ("TrafficMark", 0x80, 0x09), ("TrafficNextHopIPv4IETF", 0x01, 0x0c),
       ("TrafficNextHopSimpson", 0x08, 0x00), ("TrafficRate", 0x80, 0x06), ("TrafficRatePackets", 0x80, 0x0c),
       ("TrafficRedirect", 0x80, 0x08), ("TrafficRedirectASN4", 0x82, 0x08)] := by
  decide

open Exa.Generated.FlowTable in
/-- the widths the code's encoder classes can write cover the RFC widths -/
theorem generated_sizes_ok : SizesOk Exa.Generated.FlowTable.sizeOf := by
  intro id h1 h2
  have : id = 3 ∨ id = 4 ∨ id = 5 ∨ id = 6 ∨ id = 7 ∨ id = 8 ∨ id = 9 ∨ id = 10 ∨ id = 11 ∨ id = 12 ∨ id = 13 := by
    omega
  rcases this with rfl | rfl | rfl | rfl | rfl | rfl | rfl | rfl | rfl | rfl | rfl <;> decide

/-! ## ExaBGP's encoder -/

/-- **ExaBGP's encoder is the RFC encoder on good text.** For every text whose components the
    RFCs can express (`GoodText`: one family, at most one source and one destination, canonical
    prefixes with offset 0, values within the RFC width, any number of operator keywords in any
    order, repeated operator keywords), with or without route distinguisher, up to 4095 bytes:
    `Flow.pack_nlri` as modelled (dict by ID, `sorted`, EOL rewrite, width by encoder class of the
    generated table) emits exactly the reference encoding of the rule the text denotes, in the
    family of its prefixes. -/
theorem exa_pack_reference (v6 hint6 : Bool) (rd : Option Bytes) (text : List TComp) (hg : GoodText v6 text)
    (hlen : (nlriPayload ⟨rd, toRule v6 text⟩).length ≤ 4095) :
    exaPack Exa.Generated.FlowTable.sizeOf hint6 rd text
      = .ok (exaFamily hint6 text, encodeNlri ⟨rd, toRule v6 text⟩) :=
  exaPack_good _ v6 hint6 rd text generated_sizes_ok hg hlen

/-- … in the family of its prefixes when it has one (without a prefix: IPv6 iff an IPv6-only keyword is used) -/
theorem exa_pack_family (v6 hint6 : Bool) (text : List TComp) (hg : GoodText v6 text)
    (hp : text.any (fun c => c.isPrefix) = true) : exaFamily hint6 text = v6 :=
  exaFamily_good v6 hint6 text hg.comps hp

/-- **What is sent means what was written.** Under the same hypotheses the RFC reference decoder
    applied to the bytes ExaBGP's encoder emits (followed by anything) returns the rule as written
    in text, the route distinguisher as written, and consumes exactly the NLRI. -/
theorem exa_pack_meaning (v6 vpn hint6 : Bool) (rd : Option Bytes) (text : List TComp) (rest : Bytes)
    (hg : GoodText v6 text) (hlen : (nlriPayload ⟨rd, toRule v6 text⟩).length ≤ 4095)
    (hrd : if vpn then ∃ b, rd = some b ∧ b.length = 8 else rd = none) :
    ∃ fam bs, exaPack Exa.Generated.FlowTable.sizeOf hint6 rd text = .ok (fam, bs) ∧
      decodeNlri v6 vpn (bs ++ rest) = .ok (⟨rd, toRule v6 text⟩, rest) := by
  refine ⟨_, _, exa_pack_reference v6 hint6 rd text hg hlen, ?_⟩
  apply nlri_roundtrip'
  exact ⟨toRule_wf v6 text hg, by omega, hrd⟩

/-- the text → rule mapping gives a well-formed rule for every good text -/
theorem good_text_wellformed (v6 : Bool) (text : List TComp) (hg : GoodText v6 text) : WFRule v6 (toRule v6 text) :=
  toRule_wf v6 text hg

/-! ## ExaBGP's decoder: the length field -/

/-- ExaBGP reads the two-octet length as the RFC does (`FLOW_LENGTH_EXTENDED_SHIFT = 8`, tied to the
    code by `code_constants`) -/
theorem exa_length_is_rfc (n : Nat) : exaHi n = rfcHi n := rfl

/-! ## ExaBGP's decoder against the reference decoder

`exaDecode` is the model of `Flow.unpack_nlri` + `_parse_rules` (tied to the code by the decode
correspondence run); `exaDelivered` is the rule a consumer reads from what it returns (operators
through `exaStoredOp`, i.e. what `_parse_operations` stores).  The only side condition is the open
finding F46: no IPv6 prefix with a non-zero offset (`NoOffset` on the reference's rule, `NoOffsetRaw`
on what the code delivers) — the code reads `ceil(length/8)` address bytes there, RFC 8956
`length - offset` pattern bits.  For IPv4 there is no side condition at all. -/

/-- **(a) Every well-formed NLRI decodes in the code to the rule the reference extracts (partial: F46).**
    Full statement: `decodeNlri v6 vpn bs = .ok (x, rest) → ∃ rc, exaDecode v6 vpn bs = .ok x.rd rc rest ∧
    rc.map (exaDelivered v6) = x.rule`.  It is false of the code exactly when the rule holds an IPv6
    prefix with offset ≠ 0 (witness below), so it is proved under `NoOffset x.rule`: then the model of
    the code accepts, leaves the same bytes unread, returns the same route distinguisher, and the rule
    it delivers is the reference's rule, component for component, operator for operator. -/
theorem exa_decode_agrees_reference_partial (v6 vpn : Bool) (bs : Bytes) (x : Nlri) (rest : Bytes)
    (h : decodeNlri v6 vpn bs = .ok (x, rest)) (h0 : NoOffset x.rule) :
    ∃ rc, exaDecode v6 vpn bs = .ok x.rd rc rest ∧ rc.map (exaDelivered v6) = x.rule :=
  exaDecode_of_reference v6 vpn bs x rest h h0

/-- **(b) The code delivers only what the reference accepts — or an out-of-order NLRI (partial: F46).**
    Whenever the model of the code returns a rule (without offset), the reference decoder either
    returns exactly that rule, route distinguisher and rest, or rejects the NLRI for one reason only:
    its components are not in strictly ascending order (the code keeps them in a dict by ID and never
    checks the order; it then delivers all of them, regrouped — nothing is dropped). -/
theorem exa_decode_only_reference_partial (v6 vpn : Bool) (bs : Bytes) (rd : Option Bytes) (cs : List RawComp)
    (rest : Bytes) (h : exaDecode v6 vpn bs = .ok rd cs rest) (h0 : NoOffsetRaw cs) :
    decodeNlri v6 vpn bs = .ok (⟨rd, cs.map (exaDelivered v6)⟩, rest) ∨ decodeNlri v6 vpn bs = .error .order :=
  reference_of_exaDecode v6 vpn bs rd cs rest h h0

/-- **(b) What the reference rejects as truncated or undefined is never delivered as a rule (partial: F46).**
    If the reference rejects `bs` for any reason other than component order — empty, length field
    running past the buffer, flow-vpn payload shorter than a route distinguisher, undefined component
    type, prefix length out of range, prefix or value running past the payload, missing end-of-list —
    then the model of the code does not return a rule (`NLRI.INVALID` or a raised Notify), unless what
    it returns contains an IPv6 prefix with a non-zero offset (F46). -/
theorem exa_decode_rejects_malformed_partial (v6 vpn : Bool) (bs : Bytes) (e : Err)
    (h : decodeNlri v6 vpn bs = .error e) (he : e ≠ .order)
    (rd : Option Bytes) (cs : List RawComp) (rest : Bytes) (hx : exaDecode v6 vpn bs = .ok rd cs rest) :
    ¬ NoOffsetRaw cs := by
  intro h0
  rcases reference_of_exaDecode v6 vpn bs rd cs rest hx h0 with h' | h'
  · rw [h] at h'; cases h'
  · rw [h] at h'; simp only [Except.error.injEq] at h'; exact he h'

/-- **IPv4: full agreement, no side condition.** The model of the code returns a rule for an IPv4
    NLRI iff the reference accepts it or rejects it only for component order; when the reference
    accepts, both return the same rule, route distinguisher and rest. -/
theorem exa_decode_agrees_reference_ipv4 (vpn : Bool) (bs : Bytes) :
    (∀ x rest, decodeNlri false vpn bs = .ok (x, rest) →
      ∃ rc, exaDecode false vpn bs = .ok x.rd rc rest ∧ rc.map (exaDelivered false) = x.rule) ∧
    (∀ rd cs rest, exaDecode false vpn bs = .ok rd cs rest →
      decodeNlri false vpn bs = .ok (⟨rd, cs.map (exaDelivered false)⟩, rest) ∨
      decodeNlri false vpn bs = .error .order) :=
  ⟨fun x rest h => exaDecode_of_reference false vpn bs x rest h (noOffset_of_reference_v4 vpn bs x rest h),
   fun rd cs rest h => reference_of_exaDecode false vpn bs rd cs rest h (noOffsetRaw_of_exaDecode_v4 vpn bs rd cs rest h)⟩

/-- the stored operator (`exaStoredOp`) read back is the RFC meaning of the operator byte: reserved
    bits dropped, the AND bit of the first operator unset -/
theorem stored_operator_meaning (numeric first : Bool) (op : Nat) (val : Bytes) :
    storedTerm numeric (exaStoredOp numeric first op) val = interpTerm numeric first ⟨op, val⟩ :=
  storedTerm_exaStoredOp numeric first op val

/-! ## Non-vacuity and witnesses -/

/-- a rule with a prefix, a numeric list with AND and a two-byte value, and a bitmask: well-formed -/
def sampleRule : Rule :=
  [.prefix4 1 24 0x0A0000, .ops 3 [⟨false, false, false, true, 6⟩],
   .ops 5 [⟨false, false, false, true, 80⟩, ⟨false, false, true, false, 1024⟩, ⟨true, true, false, false, 2048⟩],
   .ops 9 [⟨false, false, false, true, 0x12⟩]]

example : WFRule false sampleRule := by decide
example : encodeFlow sampleRule = [1, 24, 10, 0, 0, 3, 0x81, 6, 5, 0x01, 80, 0x12, 4, 0, 0xd4, 8, 0, 9, 0x81, 0x12] := by decide
example : decodeFlow false (encodeFlow sampleRule) = .ok sampleRule := by decide
example : WFNlri false true ⟨some [0, 0, 0xfd, 0xe8, 0, 0, 0, 1], sampleRule⟩ :=
  ⟨by decide, by decide, ⟨_, rfl, rfl⟩⟩
/-- RFC 8956 §3.8.2: source ::1234:5678:9a00:0/64-104 is `02 68 40 12 34 56 78 9a` -/
example : encodeFlow [.prefix6 2 104 64 0x123456789a] = [2, 0x68, 0x40, 0x12, 0x34, 0x56, 0x78, 0x9a] := by decide
example : WFRule true [.prefix6 2 104 64 0x123456789a] := by decide
example : decodeFlow true [2, 0x68, 0x40, 0x12, 0x34, 0x56, 0x78, 0x9a] = .ok [.prefix6 2 104 64 0x123456789a] := by decide
/-- hypotheses of the rejection theorems are satisfiable: destination 10/8 then type 13 in IPv4; a
    port operator announcing 2 bytes with 1 left; an operator list without end-of-list -/
example : decodeFlow false [1, 8, 10, 13, 0x81, 5] = .error .undefinedType := by decide
example : decodeFlow false [1, 8, 10, 5, 0x91, 0x50] = .error .valueShort := by decide
example : decodeFlow false [1, 8, 10, 5, 0x01, 0x50] = .error .noEol := by decide
example : decodeNlri false false [4, 1, 8, 10] = .error .lengthShort := by decide
example : lengthPrefix 239 = [0xef] ∧ lengthPrefix 240 = [0xf0, 0xf0] ∧ lengthPrefix 4095 = [0xff, 0xff] := by decide
example : f32OfNat 9600 = 0x46160000 ∧ f32OfNat 16777217 = 0x4b800000 ∧ f32OfNat 1000000000000 = 0x5368d4a5 := by decide

/-- a good text (out of order, repeated keyword, AND chain): `GoodText` is satisfiable -/
def sampleText : List TComp :=
  [.op 5 1 80, .prefix4 1 0x0A000000 24, .op 3 1 6, .op 5 2 1024, .op 5 (0x40 + 4) 2048]

example : GoodText false sampleText := by
  refine ⟨?_, ?_, ?_⟩
  · intro c hc
    simp only [sampleText, List.mem_cons, List.not_mem_nil, or_false] at hc
    rcases hc with rfl | rfl | rfl | rfl | rfl
    · unfold GoodTComp; exact ⟨by decide, 80, rfl, by decide, by decide, by decide, by decide⟩
    · unfold GoodTComp; decide
    · unfold GoodTComp; exact ⟨by decide, 6, rfl, by decide, by decide, by decide, by decide⟩
    · unfold GoodTComp; exact ⟨by decide, 1024, rfl, by decide, by decide, by decide, by decide⟩
    · unfold GoodTComp; exact ⟨by decide, 2048, rfl, by decide, by decide, by decide, by decide⟩
  · intro id hid; rcases hid with rfl | rfl <;> decide
  · intro id p hp
    have : (opPairs (sampleText.filter (fun c => c.ty == id))).take 1 = [] ∨
        (opPairs (sampleText.filter (fun c => c.ty == id))).take 1 = [(1, 80)] ∨
        (opPairs (sampleText.filter (fun c => c.ty == id))).take 1 = [(1, 6)] := by
      by_cases h5 : id = 5
      · subst h5; right; left; decide
      · by_cases h3 : id = 3
        · subst h3; right; right; decide
        · left
          by_cases h1 : id = 1
          · subst h1; decide
          · have a5 : (5 == id) = false := by simp; omega
            have a3 : (3 == id) = false := by simp; omega
            have a1 : (1 == id) = false := by simp; omega
            have e : sampleText.filter (fun c => c.ty == id) = [] := by
              simp [sampleText, TComp.ty, List.filter, a5, a3, a1]
            rw [e]; rfl
    rcases this with e | e | e <;> rw [e] at hp <;> simp at hp <;> subst hp <;> decide

example : exaPack Exa.Generated.FlowTable.sizeOf false none sampleText
    = .ok (false, [17, 1, 24, 10, 0, 0, 3, 0x81, 6, 5, 0x01, 80, 0x12, 4, 0, 0xd4, 8, 0]) := by decide
example : toRule false sampleText =
    [.prefix4 1 24 0x0A0000, .ops 3 [⟨false, false, false, true, 6⟩],
     .ops 5 [⟨false, false, false, true, 80⟩, ⟨false, false, true, false, 1024⟩, ⟨true, true, false, false, 2048⟩]] := by decide

/-! ### Decoder agreement: non-vacuity and the named exceptions -/

/-- hypotheses of (a) hold on a concrete NLRI (sampleRule with its length octet) and the conclusion is what it says -/
example : decodeNlri false false (20 :: encodeFlow sampleRule) = .ok (⟨none, sampleRule⟩, []) ∧ NoOffset sampleRule := by decide
example : exaDecode false false (20 :: encodeFlow sampleRule) = .ok none (sampleRule.map toRaw) [] ∧
    (sampleRule.map toRaw).map (exaDelivered false) = sampleRule := by decide
/-- reserved bits and a first-operator AND are not delivered: `04 ce 50` (port, e|a|reserved|lt|gt, 80) is `port !=80` -/
example : exaDecode false false [3, 4, 0xce, 0x50] = .ok none [.ops 4 [⟨0xce, [0x50]⟩]] [] ∧
    exaDelivered false (.ops 4 [⟨0xce, [0x50]⟩]) = .ops 4 [⟨false, true, true, false, 80⟩] := by decide
/-- hypotheses of (b): a truncated value, an undefined component — the model of the code says INVALID -/
example : decodeNlri false false [6, 1, 8, 10, 5, 0x91, 0x50] = .error .valueShort ∧
    exaDecode false false [6, 1, 8, 10, 5, 0x91, 0x50] = .invalid [] := by decide
example : decodeNlri false false [6, 1, 8, 10, 13, 0x81, 5] = .error .undefinedType ∧
    exaDecode false false [6, 1, 8, 10, 13, 0x81, 5] = .invalid [] := by decide
/-- the order exception of (b): destination-port before protocol is rejected by the reference and delivered
    (regrouped, complete) by the code -/
example : decodeNlri false false [6, 5, 0x81, 80, 3, 0x81, 6] = .error .order ∧
    exaDecode false false [6, 5, 0x81, 80, 3, 0x81, 6] = .ok none [.ops 3 [⟨0x81, [6]⟩], .ops 5 [⟨0x81, [80]⟩]] [] := by decide
/-- **F46 witness for (a):** the RFC 8956 §3.8.2 example is accepted by the reference and INVALID for the code -/
example : decodeNlri true false [8, 2, 0x68, 0x40, 0x12, 0x34, 0x56, 0x78, 0x9a] = .ok (⟨none, [.prefix6 2 104 64 0x123456789a]⟩, []) ∧
    exaDecode true false [8, 2, 0x68, 0x40, 0x12, 0x34, 0x56, 0x78, 0x9a] = .invalid [] := by decide
/-- **F46 witness for (b):** `destination ::/16` offset 8 followed by a truncated component: the reference rejects,
    the code swallows the next component's type as an address byte and delivers the prefix alone -/
example : decodeNlri true false [5, 1, 16, 8, 0xaa, 3] = .error .noEol ∧
    exaDecode true false [5, 1, 16, 8, 0xaa, 3] = .ok none [.prefix6 1 16 8 [0xaa, 3]] [] := by decide

/-! ### Witnesses: where the model of the unchanged code departs from the RFC (each reproduced on the real
    code by the correspondence run and reported by the oracle) -/

/-- IPv6 offset: `destination 2001:db8::/64/32` is written with 8 address bytes; RFC 8956 carries the 32 pattern bits -/
example : exaPack Exa.Generated.FlowTable.sizeOf false none [.prefix6 1 0x20010db8000000000000000000000000 64 32]
    = .ok (true, [11, 1, 64, 32, 0x20, 0x01, 0x0d, 0xb8, 0, 0, 0, 0]) ∧
    encodeNlri ⟨none, toRule true [.prefix6 1 0x20010db8000000000000000000000000 64 32]⟩ = [7, 1, 64, 32, 0, 0, 0, 0] := by
  decide
/-- `next-header tcp` alone is an IPv6 route -/
example : exaPack Exa.Generated.FlowTable.sizeOf true none [.op 3 1 6] = .ok (true, [3, 3, 0x81, 6]) := by decide
/-- formerly findings, now as the RFC wants them: 4095 bytes is `ff ff`; a flow-vpn NLRI shorter
    than a route distinguisher is invalid -/
example : exaEncodeLength 4095 = .ok [255, 255] := by decide
example : exaDecode false true [3, 3, 0x81, 6] = .invalid [] := by decide

end Exa.Props.C16
