import ExaModel.Lemmas.FlowAction
import ExaModel.Generated.FlowTable
set_option linter.unusedSimpArgs false
/-!
# C16 — FlowSpec rules mean on the wire what they say in text

Statement (properties.jsonl): every FlowSpec rule expressible in configuration or API text is
encoded per RFC 8955/8956: components in ascending type order, end-of-list set on exactly the
last operator of each component, AND bits as written, each value in the shortest allowed width,
the NLRI length in one byte below 240 and two bytes (0xFnnn) from 240 to 4095, the route
distinguisher first for flow-vpn, and traffic actions mapped to the RFC extended communities.
Every well-formed FlowSpec NLRI decodes to the rule an RFC reference decoder extracts, and an
NLRI with an undefined component or a truncated value is never delivered as a shorter, broader rule.

Model: `Exa.Flow` (M-Flow).  `encodeFlow`/`decodeFlow`/`encodeNlri`/`decodeNlri` are the RFC
reference codec written from the wire layouts; `exaPack`/`exaDecode` model what ExaBGP does.
-/
namespace Exa.Props.C16
open Exa Exa.Flow

/-- **Round trip (rule).** The reference decoder is a left inverse of the reference encoder on
    every well-formed rule: the wire format loses nothing of what a rule says. -/
theorem flow_roundtrip (v6 : Bool) (r : Rule) (h : WFRule v6 r) : decodeFlow v6 (encodeFlow r) = .ok r :=
  flow_roundtrip' v6 r h

end Exa.Props.C16
