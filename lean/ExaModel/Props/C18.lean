import ExaModel.Lemmas.FieldsAccept
import ExaModel.Generated.PyAnnounce
set_option linter.unusedSimpArgs false
/-!
# C18 — Route text is accepted if and only if it can be sent

Statement (properties.jsonl): any text offered as a route, flow, VPLS or attribute definition —
in a configuration file or an API command — is either refused with an error message (file and
line for a configuration, an error reply on the API) or accepted; it is never answered with an
unhandled exception.  Every accepted definition can be encoded for every kind of session without
raising and carries the values as written, so a value the wire format cannot hold is refused at
parse time rather than wrapped or truncated, while every value the RFCs allow (for example
4-byte AS numbers in an AS path) is accepted.

What is proved here is the **spec side** of that statement, for the model `Exa.Fields`
(M-Fields), for ALL values of every field of the grammar and both kinds of session that matter
to a field (`Sess.asn4`, `Sess.asn2`; ADD-PATH, iBGP/eBGP and the message size do not change how
a field is laid out):

* a value that fits survives the wire (`fits_roundtrip`), in exactly `width f` well-formed bytes
  (`encode_length`, `encode_wellformed`) that a receiver takes as a value (`encode_valid`);
* a value that does not fit has NO encoding: no byte string of the field's width that a receiver
  takes as a value of the field reads back as it (`nofit_no_encoding`) — so a parser that accepts
  it can only wrap, truncate, or fail later; `unfit_wraps` says what wrapping yields;
* the values the RFCs allow are exactly the values that fit (`rfc_values_fit`,
  `rfc_limit_is_layout_limit`), in particular every AS number below 2^32 on every kind of session
  (`asn_fits_every_session`, via AS_TRANS + AS4_PATH on a 2-byte session: `astrans_shape`);
* AS_PATH segments never exceed the one-byte segment length (`segSplit_sound`);
* the acceptance side: `accepts f v`, the range check of the parser as a function of the bounds
  re-extracted from the parser sources on every run, is exactly "not negative and fits" for every value
  field, and "fits and leaves room in the UPDATE" for the five list lengths (`parser_bounds_exact`,
  `accepts_iff_fits`, `accepts_iff_sendable`); what is accepted is carried as written
  (`accepted_encodes`), what is refused cannot be sent (`refused_cannot_be_sent`).

This is `partial` in the sense of DESIGN section 1: the range checks of the parsers are in the model
(generated), their *control flow* is not — that the parser applies exactly the generated comparison to
the token, and never raises on a token that is not a number, is the acceptance sweep of
`harness/props/C18.py` (every field × every boundary value and a random sample × every entry point ×
every session shape), which compares the real accept / refuse decision with `accepts` and uses
`fits`, `encodeField` and `decodeField` of this file through `drv_fields` as the oracle.
-/
namespace Exa.Props.C18
open Exa Exa.Fields

/-- **Values that fit survive the wire.**  For every field, every session kind and every value:
    if the wire format can hold the value, decoding the encoding gives the value back. -/
theorem fits_roundtrip (f : Field) (v : Nat) (h : fits f v = true) :
    decodeField f (encodeField f v) = v := by
  by_cases ht : f.isTrans = true
  · exact trans_roundtrip f ht v h
  · have ht' : f.isTrans = false := by simpa using ht
    simp only [decodeField, encodeField, ht', Bool.false_eq_true, if_false]
    exact Layout.roundtrip _ (layout_wf f) v h

/-- **A value that does not fit has no encoding.**  If the wire format cannot hold `v`, then no
    well-formed byte string of the field's width that a receiver takes as a value of the field
    decodes to `v`: accepting the text can only mean wrapping, truncation or a later failure. -/
theorem nofit_no_encoding (f : Field) (v : Nat) (h : fits f v = false) (bs : Bytes)
    (hlen : bs.length = width f) (hbs : WFBytes bs) (hvalid : validWire f bs = true) :
    decodeField f bs ≠ v := by
  by_cases ht : f.isTrans = true
  · exact trans_nofit f ht v h bs hlen hbs
  · have ht' : f.isTrans = false := by simpa using ht
    simp only [decodeField, validWire, ht', Bool.false_eq_true, if_false] at *
    exact Layout.nofit _ v h bs hvalid

/-- For the fields with no semantic bound below the capacity of their bits (`full`), the
    `validWire` hypothesis of `nofit_no_encoding` is no restriction: every well-formed byte string
    of the right width is a value of the field. -/
theorem every_wire_value_valid (f : Field) (hf : full f = true) (bs : Bytes)
    (hlen : bs.length = width f) (hbs : WFBytes bs) : validWire f bs = true := by
  by_cases ht : f.isTrans = true
  · simp [validWire, ht]
  · have ht' : f.isTrans = false := by simpa using ht
    simp only [validWire, full, width, ht', Bool.false_eq_true, if_false, Bool.false_or] at *
    exact Layout.validWire_of_full _ (layout_wf f) hf bs hlen hbs

/-- Which fields have a semantic bound below their capacity: the prefix lengths, the DSCP values,
    the IPv6 flow label and the IPv6 FlowSpec prefix offset — and no other. -/
theorem full_fields (f : Field) : full f = false ↔
    f ∈ [Field.mask4, .mask6, .flowDscp, .flowLabel, .flowMask4, .flowMask6, .flowOffset6, .markDscp] := by
  cases f <;> first | decide | (rename_i s; cases s <;> decide)

/-- The encoding takes exactly `width f` bytes, whatever the value. -/
theorem encode_length (f : Field) (v : Nat) : (encodeField f v).length = width f := by
  by_cases ht : f.isTrans = true
  · simp [encodeField, width, ht, beN_length]
  · have ht' : f.isTrans = false := by simpa using ht
    simp [encodeField, width, ht', Layout.encode_length]

/-- The encoding is a byte string (every element below 256), whatever the value. -/
theorem encode_wellformed (f : Field) (v : Nat) : WFBytes (encodeField f v) := by
  by_cases ht : f.isTrans = true
  · simp only [encodeField, ht, if_true]
    exact wfBytes_append (wf_beN _ _) (wf_beN _ _)
  · have ht' : f.isTrans = false := by simpa using ht
    simp only [encodeField, ht', Bool.false_eq_true, if_false]
    exact Layout.encode_wfBytes _ _

/-- What is sent for a value that fits is a value of the field for the receiver. -/
theorem encode_valid (f : Field) (v : Nat) (h : fits f v = true) :
    validWire f (encodeField f v) = true := by
  by_cases ht : f.isTrans = true
  · simp [validWire, ht]
  · have ht' : f.isTrans = false := by simpa using ht
    simp only [validWire, encodeField, ht', Bool.false_eq_true, if_false]
    exact Layout.encode_valid _ (layout_wf f) v h

/-- The limits of the wire layouts are the RFC limits written out independently in `rfcLimit`. -/
theorem rfc_limit_is_layout_limit (f : Field) : (layout f).limit = rfcLimit f := by
  cases f <;> first | decide | (rename_i s; cases s <;> decide)

/-- **Every value the RFCs allow fits, and nothing else does.** -/
theorem rfc_values_fit (f : Field) (v : Nat) : fits f v = true ↔ v < rfcLimit f := by
  simp [fits, Layout.fits, rfc_limit_is_layout_limit]

/-- **4-byte AS numbers on every kind of session.**  Every AS number below 2^32 can be sent in an
    AS_PATH and in an AGGREGATOR whether or not the session negotiated 4-byte AS numbers. -/
theorem asn_fits_every_session (s : Sess) (v : Nat) (h : v < 4294967296) :
    fits (.asPathAsn s) v = true ∧ fits (.aggregatorAsn s) v = true := by
  constructor <;> exact (rfc_values_fit _ v).2 (by simpa [rfcLimit] using h)

/-- On a 2-byte session an AS number that needs 4 bytes is sent as AS_TRANS (23456) in the 2-byte
    element and in full in the AS4_PATH element (RFC 6793; ties to `c01_astrans`). -/
theorem astrans_shape (v : Nat) (h1 : 65536 ≤ v) :
    encodeField (.asPathAsn .asn2) v = [91, 160] ++ beN 4 v := by
  have : ¬ v < 65536 := by omega
  simp [encodeField, Field.isTrans, this, asTrans, beN]

/-- **What accepting an unfit value means for a plain unsigned field**: the bytes that come out of
    shifting and masking are those of `v mod 256^w` — a different number whenever `v` does not fit. -/
theorem unfit_wraps (w v : Nat) : rdN (beN w v) = v % 256 ^ w := rdN_beN w v

/-- **AS_PATH segment length.**  The segments `ASPath._segment` produces for `n` AS numbers written
    in one segment hold all `n` of them and each holds between 1 and 255. -/
theorem segSplit_sound (n : Nat) : (segSplit n).sum = n ∧ ∀ x ∈ segSplit n, 0 < x ∧ x ≤ 255 :=
  ⟨segSplitAux_sum n n (Nat.le_refl n), segSplitAux_le n n⟩

/-! ## the acceptance side: the parser of /repo accepts exactly what can be sent

`accepts f v` is the range check of the repaired parser on a plain decimal token, as a function of the
bounds `harness/tables/fields.py` reads from the comparisons of the parser sources on every run
(`Generated/FieldLimits.lean`: 67 rows, one per field; 63 read from comparisons in the source, the 4
IPv4-octet fields of `originator-id`, `cluster-list`, `aggregator` and `path-information` are bounded by
`socket.inet_pton` / `bytes()` and measured).  The three exceptions of the first version of this file
(`flowTrafficClass` 0xFFFF, `vplsBase` 0xFFFF, `FlowFragment` two bytes wide) were closed by the repairs
(F75…F85) and are gone: the statements below have no exception list. -/

/-- **The translation obligation.**  For every field, the bounds re-extracted from the parser are
    exactly `[0, acceptLimit f - 1]`: the RFC limit of the field, and for the five list lengths what
    leaves room in a 65535-byte UPDATE.  A comparison that changes in /repo changes the generated
    row and this theorem no longer checks; one that disappears or changes operator stops the
    translator. -/
theorem parser_bounds_exact (f : Field) :
    parserBound f = some (0, (acceptLimit f : Int) - 1) := parserBound_eq f

/-- **Accepted if and only if it fits** — every field that is a value (62 of the 67): the parser lets a
    plain decimal token through exactly when it is not negative and the wire format can hold it. -/
theorem accepts_iff_fits (f : Field) (hf : f.isCount = false) (v : Int) :
    accepts f v = true ↔ (0 ≤ v ∧ fits f v.toNat = true) := by
  rw [accepts_iff_lt, acceptLimit_of_not_count f hf, fits_iff_lt]
  omega

/-- **Accepted if and only if it can be sent** — every field, no exception: for a value "fits"; for
    the five list lengths (data bytes of a generic attribute, communities, large communities, extended
    communities, cluster ids) "fits its length field AND leaves room in a 65535-byte UPDATE" (header 19,
    two length fields 4, attribute header 4, 128 bytes for the other attributes and the NLRI). -/
theorem accepts_iff_sendable (f : Field) (v : Int) :
    accepts f v = true ↔
      (0 ≤ v ∧ fits f v.toNat = true ∧
        (f.isCount = true → msgFits 65535 (v.toNat * f.unit + 4) 128 = true)) := by
  rw [accepts_iff_lt, fits_iff_lt]
  by_cases hf : f.isCount = true
  · have hr := count_room f hf v.toNat
    have hle := acceptLimit_le_rfcLimit f
    simp only [hf, forall_const]
    constructor
    · rintro ⟨h0, h1⟩
      have : v.toNat < acceptLimit f := by omega
      exact ⟨h0, by omega, hr.1 this⟩
    · rintro ⟨h0, _, h2⟩
      have := hr.2 h2
      omega
  · have hf' : f.isCount = false := by simpa using hf
    rw [acceptLimit_of_not_count f hf']
    simp only [hf', Bool.false_eq_true, false_implies, and_true]
    omega

/-- Whatever the parser accepts fits the wire format (all 67 fields). -/
theorem accepts_implies_fits (f : Field) (v : Int) (h : accepts f v = true) :
    0 ≤ v ∧ fits f v.toNat = true := by
  have := (accepts_iff_sendable f v).1 h
  exact ⟨this.1, this.2.1⟩

/-- **Every accepted definition carries the value as written.**  A token the parser accepts is a
    natural number whose encoding is exactly `width f` well-formed bytes, which a receiver takes as
    a value of the field and decodes to the number written — on both kinds of session. -/
theorem accepted_encodes (f : Field) (v : Int) (h : accepts f v = true) :
    ((v.toNat : Int) = v) ∧ (encodeField f v.toNat).length = width f ∧ WFBytes (encodeField f v.toNat)
      ∧ validWire f (encodeField f v.toNat) = true
      ∧ decodeField f (encodeField f v.toNat) = v.toNat := by
  obtain ⟨h0, hfit⟩ := accepts_implies_fits f v h
  exact ⟨by omega, encode_length f _, encode_wellformed f _, encode_valid f _ hfit, fits_roundtrip f _ hfit⟩

/-- What the parser refuses cannot be sent: a negative number, a value with no encoding
    (`nofit_no_encoding`), or a list that leaves no room in the UPDATE. -/
theorem refused_cannot_be_sent (f : Field) (v : Int) (h : accepts f v = false) :
    v < 0 ∨ fits f v.toNat = false ∨
      (f.isCount = true ∧ msgFits 65535 (v.toNat * f.unit + 4) 128 = false) := by
  have hs := accepts_iff_sendable f v
  by_cases h0 : 0 ≤ v
  · by_cases h1 : fits f v.toNat = true
    · by_cases hc : f.isCount = true
      · by_cases h2 : msgFits 65535 (v.toNat * f.unit + 4) 128 = true
        · have : accepts f v = true := hs.2 ⟨h0, h1, fun _ => h2⟩
          simp [this] at h
        · exact Or.inr (Or.inr ⟨hc, by simpa using h2⟩)
      · have : accepts f v = true := hs.2 ⟨h0, h1, fun hc' => absurd hc' hc⟩
        simp [this] at h
    · exact Or.inr (Or.inl (by simpa using h1))
  · exact Or.inl (by omega)

/-- The widest value each FlowSpec component class encodes (`VALUE_SIZES`) is the model's width. -/
theorem flow_widths_match :
    ∀ row ∈ Exa.Generated.FieldLimits.flowWidth,
      ∃ f, Field.ofName? row.1 = some f ∧ (layout f).width = row.2 := by
  decide

/-- `ASPath.SEGMENT_MAX_LENGTH`, `AS_TRANS`, `ASN.MAX_2BYTE`, `ATTRIBUTE_VALUE_MAX` and the bytes one
    list element takes are the constants of the model. -/
theorem generated_constants :
    Exa.Generated.FieldLimits.segmentMax = 255 ∧ Exa.Generated.FieldLimits.asTrans = asTrans
      ∧ Exa.Generated.FieldLimits.asn2Max + 1 = 65536
      ∧ Exa.Generated.FieldLimits.attributeValueMax = 65535 - 19 - 4 - 4 - 128
      ∧ (∀ row ∈ Exa.Generated.FieldLimits.countUnits,
          ∃ f, Field.ofName? row.1 = some f ∧ f.isCount = true ∧ f.unit = row.2)
      ∧ Exa.Generated.FieldLimits.parserBounds.length = allFields.length := by decide

/-! ## non-vacuity: the hypotheses are satisfiable and the conclusions bite -/

-- the property's own example: AS 4200000000 in an AS path on a 2-byte session
example : fits (.asPathAsn .asn2) 4200000000 = true := by decide
example : encodeField (.asPathAsn .asn2) 4200000000 = [91, 160, 250, 86, 234, 0] := by decide
example : decodeField (.asPathAsn .asn2) [91, 160, 250, 86, 234, 0] = 4200000000 := by decide
example : decodeField (.asPathAsn .asn2) (encodeField (.asPathAsn .asn2) 23456) = 23456 := by decide
example : encodeField (.asPathAsn .asn4) 65536 = [0, 1, 0, 0] := by decide
-- F23: 65536 fits an AS path element on both kinds of session (and the parser raises struct.error)
example : fits (.asPathAsn .asn4) 65536 = true ∧ fits (.asPathAsn .asn2) 65536 = true := by decide
-- F24/F25: 65536 does not fit either half of a community; 2^32 no third of a large community
example : fits .communityHigh 65536 = false ∧ fits .communityLow 65536 = false := by decide
example : fits .largeGlobal 4294967296 = false := by decide
-- F25: `community [ 1:65536 ]` is packed as the 32-bit number (1 << 16) + 65536 = 2:0
example : Layout.encode (Layout.uint 4) ((1 <<< 16) + 65536) = [0, 2, 0, 0] := by decide
-- F25: path-information 4294967296 is shifted and masked into 0.0.0.0
example : fits .pathInfo 4294967296 = false ∧ encodeField .pathInfo 4294967296 = [0, 0, 0, 0] := by decide
-- F27: protocol 256 does not fit the one byte a protocol takes
example : fits .flowProtocol 255 = true ∧ fits .flowProtocol 256 = false := by decide
-- F26: 20 000 communities / a 70 000-byte attribute do not fit an extended attribute length
example : fits .communitiesCount 16383 = true ∧ fits .communitiesCount 20000 = false := by decide
example : fits .attrLen 65535 = true ∧ fits .attrLen 70000 = false := by decide
-- labels: 20 bits, bottom-of-stack bit in the low nibble
example : encodeField .label 1048575 = [255, 255, 241] ∧ fits .label 1048576 = false := by decide
example : decodeField .label [255, 255, 241] = 1048575 := by decide
-- a prefix length of 33 is a byte on the wire, but not a value of the field
example : fits .mask4 33 = false ∧ validWire .mask4 [33] = false ∧ validWire .mask4 [32] = true := by decide
-- VPLS label base: 20 bits, and accepted (F-vpls closed)
example : fits .vplsBase 800000 = true ∧ accepts .vplsBase 800000 = true := by decide
-- the acceptance side bites on both sides of every kind of bound
example : accepts (.asPathAsn .asn2) 4294967295 = true ∧ accepts (.asPathAsn .asn2) 4294967296 = false := by decide
example : accepts .communityLow 65535 = true ∧ accepts .communityLow 65536 = false ∧ accepts .communityLow (-1) = false := by decide
example : accepts .mask4 32 = true ∧ accepts .mask4 33 = false := by decide
example : accepts .flowOffset6 127 = true ∧ accepts .flowOffset6 128 = false := by decide
-- a list: 16345 communities (65380 bytes) are accepted, 16346 are refused although 16383 fit the length field
example : accepts .communitiesCount 16345 = true ∧ accepts .communitiesCount 16346 = false ∧ fits .communitiesCount 16383 = true := by decide
example : msgFits 65535 (16345 * 4 + 4) 128 = true ∧ msgFits 65535 (16346 * 4 + 4) 128 = false := by decide
-- 600 AS numbers in one written segment: 255 + 255 + 90
example : segSplit 600 = [255, 255, 90] := by decide
example : asPathLen .asn4 600 = 2406 := by decide

/-! ### what every announce needs (`validate_announce_nlri`, regenerated from /repo on every run)

The function is "the single source of truth for announce validation": the encoder raises on what it refuses, the API
applies it before answering and — since the repairs of F104 / F105 / F107 — so do the configuration file and the
`announce ipv4|ipv6` handlers.  Inputs: the family is not FlowSpec, the next hop is the undefined one, the SAFI carries
labels / a route distinguisher, the NLRI object has none. -/

open Exa.Generated.PyAnnounce in
/-- **Accepted iff complete.**  An announce is accepted exactly when it has a next hop (FlowSpec excepted), labels when
    its SAFI carries labels and a route distinguisher when its SAFI carries one. -/
theorem announce_py_accepts_iff (notFlow nhUndefined safiHasLabel noLabel safiHasRd noRd : Bool) :
    Announce.validate_announce_nlri notFlow nhUndefined safiHasLabel noLabel safiHasRd noRd = none ↔
      ¬ (notFlow = true ∧ nhUndefined = true) ∧ ¬ (safiHasLabel = true ∧ noLabel = true) ∧
      ¬ (safiHasRd = true ∧ noRd = true) := by
  cases notFlow <;> cases nhUndefined <;> cases safiHasLabel <;> cases noLabel <;> cases safiHasRd <;> cases noRd <;> decide

open Exa.Generated.PyAnnounce in
/-- **Which message.**  The missing next hop is reported first, then the missing labels, then the missing route
    distinguisher (the k-th message of the source). -/
theorem announce_py_reason (notFlow nhUndefined safiHasLabel noLabel safiHasRd noRd : Bool) :
    Announce.validate_announce_nlri notFlow nhUndefined safiHasLabel noLabel safiHasRd noRd =
      if notFlow && nhUndefined then some 1
      else if safiHasLabel && noLabel then some 2
      else if safiHasRd && noRd then some 3
      else none := by
  cases notFlow <;> cases nhUndefined <;> cases safiHasLabel <;> cases noLabel <;> cases safiHasRd <;> cases noRd <;> rfl

-- `route 10.0.0.0/24` (no next-hop): refused with the first message; a labelled VPN route with everything: accepted
example : Exa.Generated.PyAnnounce.Announce.validate_announce_nlri true true false false false false = some 1 := by decide
example : Exa.Generated.PyAnnounce.Announce.validate_announce_nlri true false true false true false = none := by decide

end Exa.Props.C18
