import ExaModel.Lemmas.FieldsTrans
import ExaModel.Generated.FieldLimits
set_option linter.unusedSimpArgs false
/-!
# C18 — Route text is accepted if and only if it can be sent

Statement (properties.jsonl): any text offered as a route, flow, VPLS or attribute definition —
in a configuration file or an API command — is either refused with an error message (file and
line for a configuration, an error reply on the API) or accepted; it is never answered with an
unhandled exception.  Every accepted definition can be encoded for every kind of session without
raising and carries the values as written, so a value the wire format cannot hold is refused at
parse time rather than wrapped or truncated, while every value the RFCs allow (for example
4-byte AS numbers in an AS path) is accepted.

What is proved here is the **spec side** of that statement, for the model `Exa.Fields`
(M-Fields), for ALL values of every field of the grammar and both kinds of session that matter
to a field (`Sess.asn4`, `Sess.asn2`; ADD-PATH, iBGP/eBGP and the message size do not change how
a field is laid out):

* a value that fits survives the wire (`fits_roundtrip`), in exactly `width f` well-formed bytes
  (`encode_length`, `encode_wellformed`) that a receiver takes as a value (`encode_valid`);
* a value that does not fit has NO encoding: no byte string of the field's width that a receiver
  takes as a value of the field reads back as it (`nofit_no_encoding`) — so a parser that accepts
  it can only wrap, truncate, or fail later; `unfit_wraps` says what wrapping yields;
* the values the RFCs allow are exactly the values that fit (`rfc_values_fit`,
  `rfc_limit_is_layout_limit`), in particular every AS number below 2^32 on every kind of session
  (`asn_fits_every_session`, via AS_TRANS + AS4_PATH on a 2-byte session: `astrans_shape`);
* AS_PATH segments never exceed the one-byte segment length (`segSplit_sound`);
* the limits the parsers of /repo compare against (re-extracted on every run) are the RFC limits,
  with the listed exceptions, each of which is a finding (`parser_constants_*`).

This is `partial` in the sense of DESIGN section 1: "the parser accepts exactly what fits and never
raises" is a statement about the text parsers of /repo, which are not modelled function by
function; that half is the acceptance sweep of `harness/props/C18.py` (every field × every boundary
value × every entry point × every session shape, enumerated, not sampled), which uses `fits`,
`encodeField` and `decodeField` of this file through `drv_fields` as the oracle.
-/
namespace Exa.Props.C18
open Exa Exa.Fields

/-- **Values that fit survive the wire.**  For every field, every session kind and every value:
    if the wire format can hold the value, decoding the encoding gives the value back. -/
theorem fits_roundtrip (f : Field) (v : Nat) (h : fits f v = true) :
    decodeField f (encodeField f v) = v := by
  by_cases ht : f.isTrans = true
  · exact trans_roundtrip f ht v h
  · have ht' : f.isTrans = false := by simpa using ht
    simp only [decodeField, encodeField, ht', Bool.false_eq_true, if_false]
    exact Layout.roundtrip _ (layout_wf f) v h

/-- **A value that does not fit has no encoding.**  If the wire format cannot hold `v`, then no
    well-formed byte string of the field's width that a receiver takes as a value of the field
    decodes to `v`: accepting the text can only mean wrapping, truncation or a later failure. -/
theorem nofit_no_encoding (f : Field) (v : Nat) (h : fits f v = false) (bs : Bytes)
    (hlen : bs.length = width f) (hbs : WFBytes bs) (hvalid : validWire f bs = true) :
    decodeField f bs ≠ v := by
  by_cases ht : f.isTrans = true
  · exact trans_nofit f ht v h bs hlen hbs
  · have ht' : f.isTrans = false := by simpa using ht
    simp only [decodeField, validWire, ht', Bool.false_eq_true, if_false] at *
    exact Layout.nofit _ v h bs hvalid

/-- For the fields with no semantic bound below the capacity of their bits (`full`), the
    `validWire` hypothesis of `nofit_no_encoding` is no restriction: every well-formed byte string
    of the right width is a value of the field. -/
theorem every_wire_value_valid (f : Field) (hf : full f = true) (bs : Bytes)
    (hlen : bs.length = width f) (hbs : WFBytes bs) : validWire f bs = true := by
  by_cases ht : f.isTrans = true
  · simp [validWire, ht]
  · have ht' : f.isTrans = false := by simpa using ht
    simp only [validWire, full, width, ht', Bool.false_eq_true, if_false, Bool.false_or] at *
    exact Layout.validWire_of_full _ (layout_wf f) hf bs hlen hbs

/-- Which fields have a semantic bound below their capacity: the prefix lengths, the DSCP values,
    the IPv6 flow label and the IPv6 FlowSpec prefix offset — and no other. -/
theorem full_fields (f : Field) : full f = false ↔
    f ∈ [Field.mask4, .mask6, .flowDscp, .flowLabel, .flowMask4, .flowMask6, .flowOffset6, .markDscp] := by
  cases f <;> first | decide | (rename_i s; cases s <;> decide)

/-- The encoding takes exactly `width f` bytes, whatever the value. -/
theorem encode_length (f : Field) (v : Nat) : (encodeField f v).length = width f := by
  by_cases ht : f.isTrans = true
  · simp [encodeField, width, ht, beN_length]
  · have ht' : f.isTrans = false := by simpa using ht
    simp [encodeField, width, ht', Layout.encode_length]

/-- The encoding is a byte string (every element below 256), whatever the value. -/
theorem encode_wellformed (f : Field) (v : Nat) : WFBytes (encodeField f v) := by
  by_cases ht : f.isTrans = true
  · simp only [encodeField, ht, if_true]
    exact wfBytes_append (wf_beN _ _) (wf_beN _ _)
  · have ht' : f.isTrans = false := by simpa using ht
    simp only [encodeField, ht', Bool.false_eq_true, if_false]
    exact Layout.encode_wfBytes _ _

/-- What is sent for a value that fits is a value of the field for the receiver. -/
theorem encode_valid (f : Field) (v : Nat) (h : fits f v = true) :
    validWire f (encodeField f v) = true := by
  by_cases ht : f.isTrans = true
  · simp [validWire, ht]
  · have ht' : f.isTrans = false := by simpa using ht
    simp only [validWire, encodeField, ht', Bool.false_eq_true, if_false]
    exact Layout.encode_valid _ (layout_wf f) v h

/-- The limits of the wire layouts are the RFC limits written out independently in `rfcLimit`. -/
theorem rfc_limit_is_layout_limit (f : Field) : (layout f).limit = rfcLimit f := by
  cases f <;> first | decide | (rename_i s; cases s <;> decide)

/-- **Every value the RFCs allow fits, and nothing else does.** -/
theorem rfc_values_fit (f : Field) (v : Nat) : fits f v = true ↔ v < rfcLimit f := by
  simp [fits, Layout.fits, rfc_limit_is_layout_limit]

/-- **4-byte AS numbers on every kind of session.**  Every AS number below 2^32 can be sent in an
    AS_PATH and in an AGGREGATOR whether or not the session negotiated 4-byte AS numbers. -/
theorem asn_fits_every_session (s : Sess) (v : Nat) (h : v < 4294967296) :
    fits (.asPathAsn s) v = true ∧ fits (.aggregatorAsn s) v = true := by
  constructor <;> exact (rfc_values_fit _ v).2 (by simpa [rfcLimit] using h)

/-- On a 2-byte session an AS number that needs 4 bytes is sent as AS_TRANS (23456) in the 2-byte
    element and in full in the AS4_PATH element (RFC 6793; ties to `c01_astrans`). -/
theorem astrans_shape (v : Nat) (h1 : 65536 ≤ v) :
    encodeField (.asPathAsn .asn2) v = [91, 160] ++ beN 4 v := by
  have : ¬ v < 65536 := by omega
  simp [encodeField, Field.isTrans, this, asTrans, beN]

/-- **What accepting an unfit value means for a plain unsigned field**: the bytes that come out of
    shifting and masking are those of `v mod 256^w` — a different number whenever `v` does not fit. -/
theorem unfit_wraps (w v : Nat) : rdN (beN w v) = v % 256 ^ w := rdN_beN w v

/-- **AS_PATH segment length.**  The segments `ASPath._segment` produces for `n` AS numbers written
    in one segment hold all `n` of them and each holds between 1 and 255. -/
theorem segSplit_sound (n : Nat) : (segSplit n).sum = n ∧ ∀ x ∈ segSplit n, 0 < x ∧ x ≤ 255 :=
  ⟨segSplitAux_sum n n (Nat.le_refl n), segSplitAux_le n n⟩

/-! ## the parser's constants (generated from /repo on every run) -/

open Exa.Generated.FieldLimits in
/-- A constant the parser compares against, looked up against the RFC limit of the model. -/
def rowLimit (name : String) : Option Nat := (Field.ofName? name).map rfcLimit

/-- Parser constants that let through more than the wire can hold (each is a finding:
    `flowTrafficClass` is the F27 class — traffic-class 256 is accepted and `pack_nlri` raises). -/
def looseConstants : List String := ["flowTrafficClass"]
/-- Parser constants that refuse values the RFC allows (finding: a VPLS label base is a 20-bit
    label, RFC 4761 section 3.2.2; the parser stops at 65535). -/
def tightConstants : List String := ["vplsBase"]

/-- No constant of the parser lets through a value the wire cannot hold — except the listed ones. -/
theorem parser_constants_not_above_wire :
    ∀ row ∈ Exa.Generated.FieldLimits.parserMax,
      (∃ lim, rowLimit row.1 = some lim ∧ row.2 < lim) ∨ row.1 ∈ looseConstants := by
  decide

/-- Every constant of the parser reaches the RFC limit — except the listed ones. -/
theorem parser_constants_reach_rfc :
    ∀ row ∈ Exa.Generated.FieldLimits.parserMax,
      (∃ lim, rowLimit row.1 = some lim ∧ lim ≤ row.2 + 1) ∨ row.1 ∈ tightConstants := by
  decide

/-- Component classes that encode a wider value than the RFC allows (finding: `FlowFragment`
    encodes two bytes, RFC 8955 section 4.2.2.12 says the bitmask MUST be a single octet). -/
def wideComponents : List String := ["flowFragment"]

/-- The widest value each FlowSpec component class encodes (`VALUE_SIZES`) is the model's width —
    except the listed ones, which are wider. -/
theorem flow_widths_match :
    ∀ row ∈ Exa.Generated.FieldLimits.flowWidth,
      ∃ f, Field.ofName? row.1 = some f ∧
        ((layout f).width = row.2 ∨ (row.1 ∈ wideComponents ∧ (layout f).width < row.2)) := by
  decide

/-- `ASPath.SEGMENT_MAX_LENGTH`, `AS_TRANS` and `ASN.MAX_2BYTE` are the constants of the model. -/
theorem generated_constants :
    Exa.Generated.FieldLimits.segmentMax = 255 ∧ Exa.Generated.FieldLimits.asTrans = asTrans
      ∧ Exa.Generated.FieldLimits.asn2Max + 1 = 65536 := by decide

/-! ## non-vacuity: the hypotheses are satisfiable and the conclusions bite -/

-- the property's own example: AS 4200000000 in an AS path on a 2-byte session
example : fits (.asPathAsn .asn2) 4200000000 = true := by decide
example : encodeField (.asPathAsn .asn2) 4200000000 = [91, 160, 250, 86, 234, 0] := by decide
example : decodeField (.asPathAsn .asn2) [91, 160, 250, 86, 234, 0] = 4200000000 := by decide
example : decodeField (.asPathAsn .asn2) (encodeField (.asPathAsn .asn2) 23456) = 23456 := by decide
example : encodeField (.asPathAsn .asn4) 65536 = [0, 1, 0, 0] := by decide
-- F23: 65536 fits an AS path element on both kinds of session (and the parser raises struct.error)
example : fits (.asPathAsn .asn4) 65536 = true ∧ fits (.asPathAsn .asn2) 65536 = true := by decide
-- F24/F25: 65536 does not fit either half of a community; 2^32 no third of a large community
example : fits .communityHigh 65536 = false ∧ fits .communityLow 65536 = false := by decide
example : fits .largeGlobal 4294967296 = false := by decide
-- F25: `community [ 1:65536 ]` is packed as the 32-bit number (1 << 16) + 65536 = 2:0
example : Layout.encode (Layout.uint 4) ((1 <<< 16) + 65536) = [0, 2, 0, 0] := by decide
-- F25: path-information 4294967296 is shifted and masked into 0.0.0.0
example : fits .pathInfo 4294967296 = false ∧ encodeField .pathInfo 4294967296 = [0, 0, 0, 0] := by decide
-- F27: protocol 256 does not fit the one byte a protocol takes
example : fits .flowProtocol 255 = true ∧ fits .flowProtocol 256 = false := by decide
-- F26: 20 000 communities / a 70 000-byte attribute do not fit an extended attribute length
example : fits .communitiesCount 16383 = true ∧ fits .communitiesCount 20000 = false := by decide
example : fits .attrLen 65535 = true ∧ fits .attrLen 70000 = false := by decide
-- labels: 20 bits, bottom-of-stack bit in the low nibble
example : encodeField .label 1048575 = [255, 255, 241] ∧ fits .label 1048576 = false := by decide
example : decodeField .label [255, 255, 241] = 1048575 := by decide
-- a prefix length of 33 is a byte on the wire, but not a value of the field
example : fits .mask4 33 = false ∧ validWire .mask4 [33] = false ∧ validWire .mask4 [32] = true := by decide
-- VPLS label base: 20 bits (the parser stops at 65535: `tightConstants`)
example : fits .vplsBase 800000 = true := by decide
-- 600 AS numbers in one written segment: 255 + 255 + 90
example : segSplit 600 = [255, 255, 90] := by decide
example : asPathLen .asn4 600 = 2406 := by decide

end Exa.Props.C18
