import ExaModel.Lemmas.SessionCheck
import ExaModel.Lemmas.SessionSpec
import ExaModel.Lemmas.SessionFrame
import ExaModel.Lemmas.PeerPy
import ExaModel.Generated.NotifyTable
set_option linter.unusedSimpArgs false
set_option linter.unusedVariables false
/-!
# C10 — every protocol error is answered with the right NOTIFICATION, once

Statement (properties.jsonl): whenever ExaBGP ends a session because of something it received or
a timer, the last message it writes is a single NOTIFICATION whose code and subcode name the
error class per RFC 4271 section 6, RFC 6608 and RFC 7313 (header errors 1/x, OPEN errors 2/x,
UPDATE errors 3/x, hold timer 4/0, message unexpected for the state 5/1-5/3, cease 6/x).  It
never answers a received NOTIFICATION with a NOTIFICATION, and never writes anything on a
connection after a NOTIFICATION.

Model: `Exa.Session` (M-Session), same runs as C05.  `errorClass` (Model/Session.lean) is the
hand-written RFC table: cause × FSM state → acceptable (code, subcode); `raised` / `semCode` /
`modelCode` are what the code raises (tied to /repo by the correspondence runs).
-/
namespace Exa.Props.C10
open Exa Exa.Session

abbrev trace (cfg : Cfg) (rib : Bool) (evs : List Event) : List Out := (run (init cfg rib) evs).2

def plain : Cfg := { passive := false, maxAttempts := 0, hold0 := false, graceful := false }

/-- **C10, once (full).** On every connection at most one NOTIFICATION is written and nothing is
    written after it — for every list of events. -/
theorem one_notification (cfg : Cfg) (rib : Bool) (evs : List Event) (xs ys : List Out) (c code sub : Nat) (st : Fsm)
    (h : trace cfg rib evs = xs ++ Out.send c (.notification code sub) st :: ys) :
    ∀ k st', Out.send c k st' ∉ ys := by
  obtain ⟨g, hg⟩ := run_accepted cfg rib evs
  simp only [trace] at h
  rw [h] at hg
  exact accepted_dead hg (Or.inl ⟨code, sub, st, rfl⟩)

/-- **C10, no reply to a NOTIFICATION (full).** After the peer's NOTIFICATION was read on a
    connection (ghost marker `gotNotification c`: `read_message` raised the received Notification
    on c) nothing is written on it.  Since /repo 76f99ad this covers every NOTIFICATION, also one
    whose header length is 19 or 20 (finding F32, repaired: the reader no longer answers it 1/2;
    the message class `notifBadLen` of the rig is an ordinary `Msg.notification` for the model). -/
theorem none_after_received_notification (cfg : Cfg) (rib : Bool) (evs : List Event) (xs ys : List Out) (c : Nat)
    (h : trace cfg rib evs = xs ++ Out.gotNotification c :: ys) :
    ∀ k st, Out.send c k st ∉ ys := by
  obtain ⟨g, hg⟩ := run_accepted cfg rib evs
  simp only [trace] at h
  rw [h] at hg
  exact accepted_dead hg (Or.inr rfl)

/-- **C10, the right code (full for sessions ended by what was received).** A coroutine reading
    the connection in use in state `st` which is handed a message `m` that ends the session per
    the RFCs (`causeOf st m = some cause`) writes exactly one thing on that connection, a
    NOTIFICATION whose (code, subcode) is in `errorClass cause st`, and closes it — in every state
    satisfying the invariant of the runs.  (Until /repo 8ee2e7e an OPEN in ESTABLISHED was the
    exception, finding F31.)  Hypothesis `hapi`: handing `m` to the API process did not fail.
    When it does (`api receive { parsed; … }` configured and the API process gone) the code raises
    `ProcessError` before it looks at the message and the session is ended by THAT, a local
    failure the property does not speak about (`api_failure_writes_nothing` says what happens). -/
theorem code_is_class (s : State) (hinv : Inv s) (c : Nat) (k : Conn)
    (haw : awaited s = some c) (hc : s.conn = some k) (hk : k.id = c) (hr : k.rst = false)
    (m : Msg) (cause : Cause) (hcause : causeOf s.fsm m = some cause) (hapi : apiFails m s = false) :
    ∃ code sub, sendsOn c (deliver m s).2 = [.notification code sub] ∧ (code, sub) ∈ errorClass cause s.fsm ∧
      Out.close c ∈ (deliver m s).2 ∧ (deliver m s).1.conn = none := by
  have hst : isReading s.fsm = true := by
    cases hp : s.pc with
    | awaitOpen c' =>
      have : c' = c := by simpa [awaited, hp] using haw
      subst this; rw [(hinv.awaitOpen _ k hp hc hk).1]; rfl
    | awaitKa c' =>
      have : c' = c := by simpa [awaited, hp] using haw
      subst this; rw [(hinv.awaitKa _ k hp hc hk).1]; rfl
    | mainLoop c' =>
      have : c' = c := by simpa [awaited, hp] using haw
      subst this; rw [(hinv.main _ k hp hc hk).1]; rfl
    | backoff => simp [awaited, hp] at haw
    | done => simp [awaited, hp] at haw
    | passiveWait => simp [awaited, hp] at haw
    | connecting => simp [awaited, hp] at haw
  rw [deliver_eq_onNotify m s hinv c k haw hc hk cause hcause hapi]
  obtain ⟨h1, h2, h3⟩ := onNotify_sends (modelCode s.fsm m).1 (modelCode s.fsm m).2 s k hc hr
  subst hk
  exact ⟨_, _, h1, modelCode_in_class s.fsm m cause hst hcause, h2, h3⟩

/-- ... in particular after ANY list of events: the state a run reaches satisfies `Inv`. -/
theorem code_is_class_run (cfg : Cfg) (rib : Bool) (evs : List Event) (c : Nat) (k : Conn)
    (haw : awaited (run (init cfg rib) evs).1 = some c) (hc : (run (init cfg rib) evs).1.conn = some k)
    (hk : k.id = c) (hr : k.rst = false) (m : Msg) (cause : Cause)
    (hcause : causeOf (run (init cfg rib) evs).1.fsm m = some cause)
    (hapi : apiFails m (run (init cfg rib) evs).1 = false) :
    ∃ code sub, sendsOn c (deliver m (run (init cfg rib) evs).1).2 = [.notification code sub] ∧
      (code, sub) ∈ errorClass cause (run (init cfg rib) evs).1.fsm ∧
      Out.close c ∈ (deliver m (run (init cfg rib) evs).1).2 ∧ (deliver m (run (init cfg rib) evs).1).1.conn = none :=
  code_is_class _ (run_inv evs _ (inv_init cfg rib)) c k haw hc hk hr m cause hcause hapi

/-- the API process is gone and received messages are forwarded to it: whatever was read, `_run`
    ends in `except ProcessError` — nothing at all is written on the connection (so in particular
    no second NOTIFICATION and no reply to one) and it is closed. -/
theorem api_failure_writes_nothing (s : State) (k : Conn) (hc : s.conn = some k) (m : Msg)
    (hapi : apiFails m s = true) :
    sendsOn k.id (deliver m s).2 = [] ∧ Out.close k.id ∈ (deliver m s).2 ∧ (deliver m s).1.conn = none :=
  deliver_process_error m s k hc hapi

/-- `hapi` holds of every run in which the API process stays alive, and of every configuration
    that does not forward received messages. -/
theorem api_alive_of_no_death (cfg : Cfg) (rib : Bool) (evs : List Event) (m : Msg)
    (h : Event.apiDies ∉ evs ∨ cfg.forward = false) : apiFails m (run (init cfg rib) evs).1 = false := by
  obtain ⟨hcfg, hdead⟩ := run_fr evs (init cfg rib)
  unfold apiFails
  rcases h with h | h
  · rw [hdead h]; simp [init]
  · rw [hcfg]; simp [init, h]

/-- F31 repaired (/repo 8ee2e7e): an OPEN read in ESTABLISHED is answered 5/3 and the session closed. -/
example :
    (step (run (init plain false) [.start, .connectOk, .recv 1 (.openOk false), .recv 1 .keepalive, .tick]).1
      (.recv 1 (.openOk false))).2 =
      [.send 1 (.notification 5 3) .established, .down, .fsm .established .idle, .close 1] := by
  decide

/-- the configured wait for the peer's OPEN ends the attempt with 5/1 (fixed text of C12), which
    is what `errorClass` asks for. -/
example :
    Out.send 1 (.notification 5 1) .opensent ∈ trace plain false [.start, .connectOk, .openwaitExpired] ∧
    (5, 1) ∈ errorClass .openTimer .opensent := by
  decide

/-- **finding F30 (open, known finding).** The outgoing connection is in OPENSENT, an incoming one is adopted: the
    coroutine keeps waiting on the closed one; when its wait expires the NOTIFICATION goes to the
    adopted connection — in state IDLE, on a connection on which no OPEN was ever written. -/
theorem f30_witness :
    trace plain false [.start, .connectOk, .incoming, .openwaitExpired] =
      [.fsm .idle .active, .fsm .active .idle, .fsm .idle .connect, .send 1 .open .connect, .fsm .connect .opensent,
       .down, .fsm .opensent .idle, .close 1,
       .send 2 (.notification 5 1) .idle, .fsm .idle .idle, .close 2] := by
  decide

/-- F18 / F89 repaired (/repo 5dabac1): the hold timer runs in OPENCONFIRM too — silence after the
    peer's OPEN ends the attempt with 4/0, which is what `errorClass` asks for. -/
theorem hold_timer_in_openconfirm :
    (step (run (init plain false) [.start, .connectOk, .recv 1 (.openOk false)]).1 .holdExpired).2 =
      [.send 1 (.notification 4 0) .openconfirm, .down, .fsm .openconfirm .idle, .close 1] ∧
    (4, 0) ∈ errorClass .holdTimer .openconfirm := by
  decide

/-- hold timer and cease: the codes the model raises are the RFC ones. -/
theorem hold_and_cease_codes :
    trace plain false [.start, .connectOk, .recv 1 (.openOk false), .recv 1 .keepalive, .tick, .holdExpired] ≠ [] ∧
    Out.send 1 (.notification 4 0) .established ∈
      trace plain false [.start, .connectOk, .recv 1 (.openOk false), .recv 1 .keepalive, .tick, .holdExpired] ∧
    (4, 0) ∈ errorClass .holdTimer .established ∧
    Out.send 1 (.notification 6 2) .established ∈
      trace plain false [.start, .connectOk, .recv 1 (.openOk false), .recv 1 .keepalive, .tick, .teardown 2, .tick] ∧
    (6, 2) ∈ errorClass (.cease 2) .established := by
  decide

/-! ## the NOTIFICATION table of the source -/

def definedPairs : List (Nat × Nat) := Generated.NotifyTable.subcodes.map fun r => (r.1, r.2.1)

/-- every (code, subcode) the model raises for a fault is defined in `Notification._str_subcode`. -/
theorem raised_defined : ∀ f : Fault, raised f ∈ definedPairs := by
  intro f; cases f <;> decide

theorem semCode_defined : ∀ e : OpenSem, semCode e ∈ definedPairs := by
  intro e; cases e <;> decide

/-- the names in the source are the RFC names of the subcodes `errorClass` uses
    (RFC 4271 §4.5 / §6, RFC 6608 §3, RFC 7313 §5, RFC 4486). -/
theorem subcode_names_rfc :
    ∀ r ∈ [(1, 1, "Connection Not Synchronized"), (1, 2, "Bad Message Length"), (1, 3, "Bad Message Type"),
           (2, 1, "Unsupported Version Number"), (2, 2, "Bad Peer AS"), (2, 3, "Bad BGP Identifier"),
           (2, 4, "Unsupported Optional Parameter"), (2, 6, "Unacceptable Hold Time"),
           (3, 1, "Malformed Attribute List"), (3, 10, "Invalid Network Field"),
           (5, 1, "Receive Unexpected Message in OpenSent State"),
           (5, 2, "Receive Unexpected Message in OpenConfirm State"),
           (5, 3, "Receive Unexpected Message in Established State"),
           (6, 2, "Administrative Shutdown"), (6, 3, "Peer De-configured"), (6, 4, "Administrative Reset"),
           (6, 7, "Connection Collision Resolution"), (7, 1, "Invalid Message Length")],
      r ∈ Generated.NotifyTable.subcodes := by
  decide

/-- the error codes of RFC 4271 §4.5 carry their RFC names. -/
theorem code_names_rfc :
    Generated.NotifyTable.codes =
      [(1, "Message header error"), (2, "OPEN message error"), (3, "UPDATE message error"),
       (4, "Hold timer expired"), (5, "State machine error"), (6, "Cease")] := by
  decide

/-- **A refused incoming connection is answered with a Cease** (`Peer.handle_connection` as translated from
    /repo on this run, on every state of the model): the model's `reject` is NOTIFICATION 6/3 (the peer is being
    removed) or 6/7 (Connection Collision Resolution, RFC 4486), never another code, and it is written exactly
    when the model refuses. -/
theorem refused_incoming_is_cease (s : State) (h : refuses s = true) :
    pyHandle s = .raise 6 3 ∨ pyHandle s = .raise 6 7 := by
  have := (py_handle_refuses s).1 h
  cases hc : (!s.restart && s.teardown.isSome) <;> simp [hc] at this <;> simp [this]

/-! ## non-vacuity -/

/-- `code_is_class` applies: a KEEPALIVE before the OPEN is answered 5/1, once, and the connection closed. -/
example :
    let s := (run (init plain false) [.start, .connectOk]).1
    awaited s = some 1 ∧ causeOf s.fsm .keepalive = some (.unexpected .keepalive) ∧
    (step s (.recv 1 .keepalive)).2 =
      [.send 1 (.notification 5 1) .opensent, .down, .fsm .opensent .idle, .close 1] := by
  decide

/-- a well-formed NOTIFICATION is not answered. -/
example :
    trace plain false [.start, .connectOk, .recv 1 .notification] =
      [.fsm .idle .active, .fsm .active .idle, .fsm .idle .connect, .send 1 .open .connect, .fsm .connect .opensent,
       .gotNotification 1, .down, .fsm .opensent .idle, .close 1] := by
  decide

/-- **An accepted trace never writes on a connection after a NOTIFICATION** was written on it (the clause of C10 the
    trace checker carries; it is run on the traces of `local-as auto` / `peer-as auto` sessions, which M-Session
    does not model). -/
theorem accepted_trace_silent_after_notification (os : List Out) (g' : G) (h : chkAll true g0 os = some g')
    (xs ys : List Out) (c code sub : Nat) (st : Fsm) (e : os = xs ++ Out.send c (.notification code sub) st :: ys) :
    ∀ k st', Out.send c k st' ∉ ys := by
  subst e
  exact accepted_dead h (Or.inl ⟨code, sub, st, rfl⟩)

end Exa.Props.C10
