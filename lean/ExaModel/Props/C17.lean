import ExaModel.Lemmas.ReloadWorld
set_option linter.unusedSimpArgs false
/-!
# C17 — Configuration reload applies the difference, or nothing at all

Statement (properties.jsonl): after a successful configuration reload every peer ends up holding
exactly the routes of the new configuration plus the still-valid API-announced routes: routes
removed from the configuration are withdrawn, new ones announced, and routes whose attributes or
next hop changed are re-announced with the new values, whether the session was up or down during
the reload.  A reload that fails for any reason leaves neighbors, routes and sessions exactly as
they were and the API keeps working.

Model: `Exa.Reload` (M-Reload) composed with `Exa.Rib` (M-Rib).  `reactorReload w c f` is
`Reactor.reload()` on configuration `c` with fault `f` (none = the file is valid), performed in the
stages the code performs it; `World.loopTop` is the `if self._neighbor:` block at the top of the
`_main` loop, `World.lost` is `_reset`, `World.establish` the prologue of `_main`, `World.drain`
what an established peer still sends.

What the peer must hold afterwards is `deltaView cv old new`, prefix by prefix: the last route
the new section lists for the prefix (with its attributes and next hop); nothing if the old
section listed the prefix and the new one does not; otherwise what the Adj-RIB-Out `cv` held —
i.e. exactly the API-announced routes whose prefix is not a configured one.  (`cv` is the
Adj-RIB-Out before the reload, which by C04 is what the peer holds once drained.)

How the delta is achieved (finding F3, kept visible by the proofs): the announcements come from
the insertion of the new section's routes into the live RIB by `attach_ribs()` — at the COMMIT
of the reload since /repo 1a8ae65, at parse time before — (`parsed_cache`); `replace_reload` only
contributes the withdrawals (`replaceReload_cache` needs, as its hypothesis, that the cache
already holds the new configuration).

History: on the tree as first checked the second half of the property was false (F17: no
rollback on the missing-file and parser-exception paths, parser left dirty; F28: parse-time
insertion leaked the routes of a file that then failed).  Both were repaired in /repo (f9a9367,
1a8ae65); the model follows the repaired code and `reload_fail_atomic` is now a theorem for
every fault kind.  The inputs of the former negation witnesses are kept below as `example`s of
the repaired behaviour, and in corpus/C17 as regression cases.

Premises kept in the statements (`RoutesOK`): adj-rib-out is kept, no configured route is parked by
a `withdraw` watchdog, every configured route belongs to a family of its neighbor; and `FamOK`:
every route in the Adj-RIB-Out belongs to a family the RIB serves (as in C11).
-/
namespace Exa.Props.C17
open Exa Exa.Rib Exa.Reload

/-- The starting point for peer `a`: the peer runs the configured section `old`, no neighbor
    definition or teardown is pending. -/
structure Live (w : World) (a : Nat) (old : Nbr) (p : PeerSt) (s : Sess) : Prop where
  noPending : w.pending = []      -- `ParseNeighbor._attach` is empty: holds after every reload (`reload_pending`)
  nbr : AList.lookup a w.nbrs = some old
  peer : AList.lookup a w.peers = some p
  cur : p.cur.nbr = old
  noNext : p.next = none
  noPrev : p.cur.prev = none      -- the definition the peer runs has reached the RIB (no reload is waiting behind it)
  noTeardown : p.teardown = false
  rib : AList.lookup a w.ribs = some s

/-- **reload_delta, session up.**  Peer `a` is established and in any state the convergence
    invariant allows (`Good s t`: updates queued, a generator partially consumed, `t` = what the
    remote peer holds so far).  The new file keeps the session parameters of `a`.  After
    `Reactor.reload()` and the next main-loop iteration: the reload succeeded, nothing was put on
    the wire by the reload itself and the invariant still holds against `t` (so every C04 theorem
    applies from here), and once drained the remote peer holds `deltaView`. -/
theorem reload_delta_up (w : World) (c : Config) (a : Nat) (old n : Nbr) (p : PeerSt) (s : Sess) (t : Table)
    (hl : Live w a old p s) (hup : p.up = true) (g : Good s t)
    (hfam : s.rib.families = n.fams) (hok : FamOK s.rib)
    (hnodup : (c.nbrs.map Nbr.name).Nodup) (hn : n ∈ c.nbrs) (hname : n.name = a)
    (hsame : old.sameSession n = true) (hr : RoutesOK n) :
    let w1 := (reactorReload w c none).1.loopTop a
    (reactorReload w c none).2 = true ∧
    ∃ s1, AList.lookup a w1.ribs = some s1 ∧ Good s1 t ∧ (w1.drain a).2 = s1.drain.2 ∧
      ∀ m, AList.lookup m (applyEvs t (w1.drain a).2) = deltaView s.rib.cacheView old.plain n.plain m := by
  subst hname
  intro w1
  obtain ⟨hok1, hpair, _⟩ := reactorReload_ok w c hl.noPending hnodup n hn
  have hsame' : p.cur.nbr.sameSession n = true := by rw [hl.cur]; exact hsame
  rw [hl.peer, hl.rib] at hpair
  simp only [decided, decidePeer, hl.nbr, hl.noNext, hl.noPrev, Option.getD_none, hsame', Bool.not_true, Bool.false_eq_true, if_false, hup, if_true,
    Option.map_some] at hpair
  obtain ⟨hp', hs'⟩ := Prod.mk.inj hpair
  obtain ⟨g2, htab⟩ := reload_up_core s t g n old.plain hr hfam hok
  refine ⟨hok1, ((parseSess (some s) n).step (.reload old.plain n.plain)).1, ?_, g2, ?_, ?_⟩
  · simp only [w1, World.loopTop, hp', hs', hup, hl.noTeardown, Bool.not_false, Bool.and_self, if_true,
      World.setRib, World.setPeer, AList.lookup_insert_self, Option.getD_some]
  · simp only [w1, World.loopTop, hp', hs', hup, hl.noTeardown, Bool.not_false, Bool.and_self, if_true,
      World.setRib, World.setPeer, World.drain, AList.lookup_insert_self, Option.getD_some]
  · intro m
    simp only [w1, World.loopTop, hp', hs', hup, hl.noTeardown, Bool.not_false, Bool.and_self, if_true,
      World.setRib, World.setPeer, World.drain, AList.lookup_insert_self, Option.getD_some]
    exact htab m

/-- **reload_delta, session up, the reload landing in the middle of a `_main` iteration.**  The
    reload is synchronous and interrupts the peer's coroutine at whatever await it is suspended at —
    normally inside `read_message`, i.e. PAST the loop top: the rest of that iteration (`ops`: any
    `start`/`next` steps) already transmits the routes the parser inserted, the `replace_reload`
    comes with the next iteration.  Same conclusion; what was sent in between counts. -/
theorem reload_delta_up_midloop (w : World) (c : Config) (a : Nat) (old n : Nbr) (p : PeerSt) (s : Sess) (t : Table)
    (hl : Live w a old p s) (hup : p.up = true) (g : Good s t)
    (hfam : s.rib.families = n.fams) (hok : FamOK s.rib)
    (hnodup : (c.nbrs.map Nbr.name).Nodup) (hn : n ∈ c.nbrs) (hname : n.name = a)
    (hsame : old.sameSession n = true) (hr : RoutesOK n)
    (ops : List Op) (hx : ∀ op ∈ ops, isXmit op = true) :
    let wx := (reactorReload w c none).1.xmit a ops
    let w1 := wx.1.loopTop a
    ∀ m, AList.lookup m (applyEvs t (wx.2 ++ (w1.drain a).2)) = deltaView s.rib.cacheView old.plain n.plain m := by
  subst hname
  intro wx w1
  obtain ⟨_, hpair, _⟩ := reactorReload_ok w c hl.noPending hnodup n hn
  have hsame' : p.cur.nbr.sameSession n = true := by rw [hl.cur]; exact hsame
  rw [hl.peer, hl.rib] at hpair
  simp only [decided, decidePeer, hl.nbr, hl.noNext, hl.noPrev, Option.getD_none, hsame', Bool.not_true, Bool.false_eq_true, if_false, hup, if_true,
    Option.map_some] at hpair
  obtain ⟨hp', hs'⟩ := Prod.mk.inj hpair
  obtain ⟨_, htab⟩ := reload_up_core_xmit s t g n old.plain hr hfam hok ops hx
  intro m
  simp only [wx, w1, World.xmit, World.loopTop, hp', hs', hup, hl.noTeardown, Bool.not_false, Bool.and_self, if_true,
    World.setRib, World.setPeer, World.drain, AList.lookup_insert_self, Option.getD_some,
    AList.lookup_insert_ne, ne_eq]
  exact htab m

/-- **reload_delta, session down.**  Peer `a` is not established (`Down`: any state reachable by a
    session loss followed by API activity).  `reconfigure` runs `replace_reload` at once; at the
    next establishment (`replace_restart([], current)`) the new session, drained, leaves an EMPTY
    peer table at `deltaView`, and the invariant holds for the new session. -/
theorem reload_delta_down (w : World) (c : Config) (a : Nat) (old n : Nbr) (p : PeerSt) (s : Sess)
    (hl : Live w a old p s) (hup : p.up = false) (d : Down s.rib) (hi : s.inflight = none) (hw : s.inclWd = false)
    (hfam : s.rib.families = n.fams) (hok : FamOK s.rib)
    (hnodup : (c.nbrs.map Nbr.name).Nodup) (hn : n ∈ c.nbrs) (hname : n.name = a)
    (hsame : old.sameSession n = true) (hr : RoutesOK n) :
    let w1 := (reactorReload w c none).1.establish a
    (reactorReload w c none).2 = true ∧
    ∃ s1, AList.lookup a w1.ribs = some s1 ∧ Good s1 [] ∧ (w1.drain a).2 = s1.drain.2 ∧
      ∀ m, AList.lookup m (applyEvs [] (w1.drain a).2) = deltaView s.rib.cacheView old.plain n.plain m := by
  subst hname
  intro w1
  obtain ⟨hok1, hpair, _⟩ := reactorReload_ok w c hl.noPending hnodup n hn
  have hsame' : p.cur.nbr.sameSession n = true := by rw [hl.cur]; exact hsame
  rw [hl.peer, hl.rib] at hpair
  simp only [decided, decidePeer, hl.nbr, hl.noNext, hl.noPrev, Option.getD_none, hsame', Bool.not_true, Bool.false_eq_true, if_false, hup,
    Option.map_some, Option.getD_some] at hpair
  obtain ⟨hp', hs'⟩ := Prod.mk.inj hpair
  obtain ⟨g3, htab⟩ := reload_down_core s d hi hw n old.plain hr hfam hok
  refine ⟨hok1, _, ?_, g3, ?_, ?_⟩
  · simp only [w1, World.establish, hp', hs', hup, hl.noTeardown, Bool.false_eq_true, if_false,
      World.setRib, World.setPeer, AList.lookup_insert_self, Option.getD_none]
  · simp only [w1, World.establish, hp', hs', hup, hl.noTeardown, Bool.false_eq_true, if_false,
      World.setRib, World.setPeer, World.drain, AList.lookup_insert_self, Option.getD_none, if_true]
  · intro m
    simp only [w1, World.establish, hp', hs', hup, hl.noTeardown, Bool.false_eq_true, if_false,
      World.setRib, World.setPeer, World.drain, AList.lookup_insert_self, Option.getD_none, if_true]
    exact htab m

/-- **reload_delta, session parameters changed** (`Neighbor.__eq__` fails: `reestablish`), session
    up or down alike: the session is reset (NOTIFICATION 6/3 and `_reset`, or the connection was
    not up anyway), the new definition takes over, and the next session, drained, leaves an EMPTY
    peer table at `deltaView` — where the API routes that survive are those of the families the new
    section still has (`famView`). -/
theorem reload_delta_restart (w : World) (c : Config) (a : Nat) (old n : Nbr) (p : PeerSt) (s : Sess)
    (hl : Live w a old p s) (hcw : CacheWF s.rib)
    (hnodup : (c.nbrs.map Nbr.name).Nodup) (hn : n ∈ c.nbrs) (hname : n.name = a)
    (hsame : old.sameSession n = false) (hr : RoutesOK n) :
    let w1 := ((reactorReload w c none).1.lost a).establish a
    (reactorReload w c none).2 = true ∧
    ∃ s1, AList.lookup a w1.ribs = some s1 ∧ Good s1 [] ∧ (w1.drain a).2 = s1.drain.2 ∧
      ∀ m, AList.lookup m (applyEvs [] (w1.drain a).2) = deltaView (famView n.fams s.rib) old.plain n.plain m := by
  subst hname
  intro w1
  obtain ⟨hok1, hpair, _⟩ := reactorReload_ok w c hl.noPending hnodup n hn
  have hsame' : p.cur.nbr.sameSession n = false := by rw [hl.cur]; exact hsame
  rw [hl.peer, hl.rib] at hpair
  simp only [decided, decidePeer, hl.nbr, hl.noNext, hl.noPrev, Option.getD_none, hsame', Bool.not_false, if_true, Option.map_some] at hpair
  obtain ⟨hp', hs'⟩ := Prod.mk.inj hpair
  obtain ⟨a1, a2, a3, a4, _, _, a7⟩ := attach_props s n hr.adj hcw.1
  have hcw0 : CacheWF (attach (some s) n).rib := ⟨a3, by rw [a1]; exact hcw.2⟩
  obtain ⟨g3, htab⟩ := restart_core (attach (some s) n) hcw0 a4 n old.plain hr a2
  refine ⟨hok1, _, ?_, g3, ?_, ?_⟩
  · simp only [w1, World.lost, World.establish, hp', hs', World.setRib, World.setPeer,
      AList.lookup_insert_self, Bool.false_eq_true, if_false, Option.getD_some, parseSess]
  · simp only [w1, World.lost, World.establish, hp', hs', World.setRib, World.setPeer, World.drain,
      AList.lookup_insert_self, Bool.false_eq_true, if_false, Option.getD_some, parseSess, if_true]
  · intro m
    simp only [w1, World.lost, World.establish, hp', hs', World.setRib, World.setPeer, World.drain,
      AList.lookup_insert_self, Bool.false_eq_true, if_false, Option.getD_some, parseSess, if_true]
    rw [htab m]
    apply deltaView_congr
    intro _
    exact a7 m

/-- **reload_delta, new neighbor**: a section whose name had neither peer nor RIB nor previous
    definition gets a peer; its first session, drained, carries exactly the configured routes. -/
theorem reload_delta_new (w : World) (c : Config) (a : Nat) (n : Nbr) (hpend : w.pending = [])
    (h1 : AList.lookup a w.nbrs = none) (h2 : AList.lookup a w.peers = none) (h3 : AList.lookup a w.ribs = none)
    (hnodup : (c.nbrs.map Nbr.name).Nodup) (hn : n ∈ c.nbrs) (hname : n.name = a) (hr : RoutesOK n) :
    let w1 := (reactorReload w c none).1.establish a
    (reactorReload w c none).2 = true ∧
    ∃ s1, AList.lookup a w1.ribs = some s1 ∧ Good s1 [] ∧ (w1.drain a).2 = s1.drain.2 ∧
      ∀ m, AList.lookup m (applyEvs [] (w1.drain a).2) = deltaView (fun _ => none) [] n.plain m := by
  subst hname
  intro w1
  obtain ⟨hok1, hpair, _⟩ := reactorReload_ok w c hpend hnodup n hn
  rw [h2, h3] at hpair
  simp only [decided, decidePeer, h1, Option.map_none] at hpair
  obtain ⟨hp', hs'⟩ := Prod.mk.inj hpair
  obtain ⟨g3, htab⟩ := new_peer_core n hr
  refine ⟨hok1, _, ?_, g3, ?_, ?_⟩
  · simp only [w1, World.establish, hp', hs', World.setRib, World.setPeer,
      AList.lookup_insert_self, Bool.false_eq_true, if_false, Option.getD_none]
  · simp only [w1, World.establish, hp', hs', World.setRib, World.setPeer, World.drain,
      AList.lookup_insert_self, Bool.false_eq_true, if_false, Option.getD_none, if_true]
  · intro m
    simp only [w1, World.establish, hp', hs', World.setRib, World.setPeer, World.drain,
      AList.lookup_insert_self, Bool.false_eq_true, if_false, Option.getD_none, if_true]
    exact htab m

/-- **What `deltaView` says, spelled out** (the three clauses of the property): a prefix the new
    section lists is held with the attributes and next hop of the LAST route listed for it
    (changed routes at their new values, new routes announced); a prefix only the old section
    listed is not held (withdrawn); any other prefix is held exactly as the Adj-RIB-Out had it
    (API routes survive, untouched). -/
theorem deltaView_spec (cv : Nat → Option (Nat × Nat)) (prev new : List Route) (m : Nat) :
    (∀ r, lastOf new m = some r → deltaView cv prev new m = some (r.attr, r.nh)) ∧
    (hasNlri new m = false → hasNlri prev m = true → deltaView cv prev new m = none) ∧
    (hasNlri new m = false → hasNlri prev m = false → deltaView cv prev new m = cv m) := by
  refine ⟨fun r h => by simp [deltaView, h], fun h1 h2 => ?_, fun h1 h2 => ?_⟩
  · simp [deltaView, (lastOf_none_iff new m).2 h1, h2]
  · simp [deltaView, (lastOf_none_iff new m).2 h1, h2]

/-! ## A reload that fails -/

/-- **reload_fail_atomic (full statement).**  Whatever the fault — the first statement refused, a
    syntax error after any number `k` of completed neighbor sections, a parser raising anything
    after any `k`, the file missing or empty — `Reactor.reload()` reports failure and
    `configuration.neighbors`, `configuration.processes`, every RIB (cache, queues, watchdog books,
    transmission state) and every peer are exactly as they were.  No hypothesis on the world or
    on the file.  And the parser's list of sections waiting for their RIB (`_attach`) is not left
    with anything of the refused file: it is empty (as it was: `reload_pending`), so the whole
    world is unchanged. -/
theorem reload_fail_atomic (w : World) (c : Config) (f : Fault) :
    (reactorReload w c (some f)).2 = false ∧
    (reactorReload w c (some f)).1.nbrs = w.nbrs ∧
    (reactorReload w c (some f)).1.procs = w.procs ∧
    (reactorReload w c (some f)).1.ribs = w.ribs ∧
    (reactorReload w c (some f)).1.peers = w.peers ∧
    (w.pending = [] → (reactorReload w c (some f)).1 = w) := by
  cases f <;> simp [reactorReload, cfgReload, clearStage, parseStage, abortStage] <;>
    (intro h; cases w; simp_all)

/-- **The abort empties `_attach`** — whatever was parsed of the refused file (`k` complete
    sections), nothing of it waits to be bound to a RIB by a later commit.  (This is where a
    failed reload could still reach a LATER successful one: `attach_ribs()` binds everything the
    list holds, see the `example` with a stale list below.) -/
theorem reload_fail_empties_pending (w : World) (c : Config) (k : Nat) :
    (reactorReload w c (some .firstLine)).1.pending = [] ∧
    (reactorReload w c (some (.syntax k))).1.pending = [] ∧
    (reactorReload w c (some (.exception k))).1.pending = [] :=
  ⟨reload_pending w c _ (by intro h; cases h), reload_pending w c _ (by intro h; cases h),
   reload_pending w c _ (by intro h; cases h)⟩

/-- `_attach` is empty after every reload (successful or not) of a world where it was empty: it
    is an invariant of every history of reloads from the start (`World.init.pending = []`; no
    peer or API operation touches it). -/
theorem reload_keeps_pending_empty (w : World) (c : Config) (f : Option Fault) (h : w.pending = []) :
    (reactorReload w c f).1.pending = [] := reload_pending w c f (fun _ => h)

/-- **Nothing is sent because of a failed reload**: what any established peer transmits
    afterwards (`xmit`: any transmission steps; `drain`) is what it would have transmitted. -/
theorem reload_fail_sends_nothing (w : World) (c : Config) (f : Fault) (hp : w.pending = []) (a : Nat) (ops : List Op) :
    ((reactorReload w c (some f)).1.xmit a ops).2 = (w.xmit a ops).2 ∧
    (((reactorReload w c (some f)).1.loopTop a).drain a).2 = ((w.loopTop a).drain a).2 ∧
    (((reactorReload w c (some f)).1.establish a).drain a).2 = ((w.establish a).drain a).2 := by
  rw [(reload_fail_atomic w c f).2.2.2.2.2 hp]
  exact ⟨rfl, rfl, rfl⟩

/-- **The API keeps working**: an API command after the failed reload does what it would have
    done. -/
theorem reload_fail_api_works (w : World) (c : Config) (f : Fault) (hp : w.pending = []) (a : Nat) (op : Op) :
    (reactorReload w c (some f)).1.api a op = w.api a op := by
  rw [(reload_fail_atomic w c f).2.2.2.2.2 hp]

/-- **The next reload is not affected** — and so, by induction, neither is any later one: after a
    failed reload, reloading any file (the original, a corrected one) gives exactly what it would
    have given without the failed attempt, so every `reload_delta_*` theorem applies to it; and a
    valid file is accepted. -/
theorem reload_after_failure_ok (w : World) (c c' : Config) (f : Fault) (hp : w.pending = []) :
    reactorReload (reactorReload w c (some f)).1 c' none = reactorReload w c' none ∧
    (reactorReload (reactorReload w c (some f)).1 c' none).2 = true := by
  rw [(reload_fail_atomic w c f).2.2.2.2.2 hp]
  refine ⟨rfl, ?_⟩
  simp [reactorReload, cfgReload]

/-- Any number of failed reloads in a row leave the world as it was. -/
theorem reload_failures_atomic (w : World) (hp : w.pending = []) (attempts : List (Config × Fault)) :
    attempts.foldl (fun w a => (reactorReload w a.1 (some a.2)).1) w = w := by
  induction attempts with
  | nil => rfl
  | cons a t ih =>
    simp only [List.foldl_cons]
    rw [(reload_fail_atomic w a.1 a.2).2.2.2.2.2 hp]
    exact ih

/-! ## A neighbor removed, then added again -/

/-- **A removed neighbor leaves nothing behind**: after a successful reload of a file that does
    not list name `a` any more, there is no peer, no configured section and NO RIB under that
    name (`Peer.remove()` → `stop()` → `rib.uncache()`): neither the configured routes nor the
    API routes of the removed neighbor are kept anywhere. -/
theorem reload_removed_leaves_nothing (w : World) (c : Config) (hp : w.pending = []) (a : Nat)
    (hnodup : (c.nbrs.map Nbr.name).Nodup) (ha : a ∉ c.nbrs.map Nbr.name)
    (hpeer : (AList.lookup a w.peers).isSome = true) :
    (reactorReload w c none).2 = true ∧
    AList.lookup a (reactorReload w c none).1.peers = none ∧
    AList.lookup a (reactorReload w c none).1.ribs = none ∧
    AList.lookup a (reactorReload w c none).1.nbrs = none :=
  ⟨by simp [reactorReload, cfgReload], removed_leaves_nothing w c hp a hnodup ha hpeer⟩

/-- **…so a later neighbor of that name starts from an empty Adj-RIB-Out**: a neighbor removed by
    one successful reload (`c1`) and added again by a later one (`c2`, section `n`, any routes)
    ends up, after its first session has drained, with exactly the routes of `n` — nothing of
    what the earlier incarnation had configured or had been sent through the API. -/
theorem reload_readd_starts_empty (w : World) (c1 c2 : Config) (hp : w.pending = []) (a : Nat) (n : Nbr)
    (hnodup1 : (c1.nbrs.map Nbr.name).Nodup) (ha : a ∉ c1.nbrs.map Nbr.name)
    (hpeer : (AList.lookup a w.peers).isSome = true)
    (hnodup2 : (c2.nbrs.map Nbr.name).Nodup) (hn : n ∈ c2.nbrs) (hname : n.name = a) (hr : RoutesOK n) :
    let w1 := (reactorReload w c1 none).1
    let w2 := (reactorReload w1 c2 none).1.establish a
    ∀ m, AList.lookup m (applyEvs [] (w2.drain a).2) = deltaView (fun _ => none) [] n.plain m := by
  intro w1 w2
  obtain ⟨_, h2, h3, h1⟩ := reload_removed_leaves_nothing w c1 hp a hnodup1 ha hpeer
  have hp1 : w1.pending = [] := reload_keeps_pending_empty w c1 none hp
  obtain ⟨_, s1, _, _, _, htab⟩ := reload_delta_new w1 c2 a n hp1 h1 h2 h3 hnodup2 hn hname hr
  exact htab

/-! ### the witnesses -/

def rt (n f a h : Nat) : Route := { nlri := n, fam := f, attr := a, nh := h }
def cr (n f a h : Nat) : CRoute := { r := rt n f a h }

def nbOld1 : Nbr := { name := 1, key := 1, fams := [1, 2], adjOut := true, routes := [cr 1 1 1 1, cr 2 1 1 1] }
def nbNew1 : Nbr := { name := 1, key := 1, fams := [1, 2], adjOut := true, routes := [cr 1 1 3 1, cr 4 1 1 1] }
def nb2 : Nbr := { name := 2, key := 1, fams := [1, 2], adjOut := true, routes := [cr 3 1 1 1] }

/-- two neighbors; the first announces 1/attr 1 and 2/attr 1 -/
def cfgOld : Config := { procs := [1], nbrs := [nbOld1, nb2] }

/-- the first neighbor changes prefix 1 to attr 3, drops prefix 2, adds prefix 4 -/
def cfgNew : Config := { procs := [1], nbrs := [nbNew1, nb2] }

/-- loaded, session of neighbor 1 established and drained, an API route 5 announced and sent -/
def wLive : World :=
  let w0 := (reactorReload World.init cfgOld none).1
  let w1 := ((w0.establish 1).drain 1).1
  ((w1.api 1 (.add (rt 5 1 2 2) false)).drain 1).1

/-- the same with the session of neighbor 1 never established -/
def wDown : World :=
  let w0 := (reactorReload World.init cfgOld none).1
  w0.api 1 (.add (rt 5 1 2 2) false)

/-- The former F28 witness (new file with a syntax error in its SECOND section, session up): the
    RIBs are untouched and the established session sends nothing. -/
example :
    (reactorReload wLive cfgNew (some (.syntax 1))).2 = false ∧
    (reactorReload wLive cfgNew (some (.syntax 1))).1 = wLive ∧
    (((reactorReload wLive cfgNew (some (.syntax 1))).1.loopTop 1).drain 1).2 = [] := by decide

/-- …session down: the next session announces the OLD configuration (prefix 1 at attributes 1). -/
example :
    (reactorReload wDown cfgNew (some (.syntax 1))).1 = wDown ∧
    AList.lookup 1 (applyEvs [] (((reactorReload wDown cfgNew (some (.syntax 1))).1.establish 1).drain 1).2)
      = some (1, 1) := by decide

/-- The former F17 witnesses (file vanished; a parser raising in the second section):
    `configuration.neighbors` and `configuration.processes` are kept. -/
example :
    (reactorReload wLive cfgNew (some .missingFile)).1.nbrs = wLive.nbrs ∧
    (reactorReload wLive cfgNew (some .missingFile)).1.procs = [1] ∧
    (reactorReload wLive cfgNew (some (.exception 1))).1.nbrs = wLive.nbrs ∧
    wLive.nbrs ≠ [] := by decide

/-- …and an API announcement after it reaches the RIB. -/
example :
    ((reactorReload wLive cfgNew (some .missingFile)).1.api 1 (.add (rt 6 2 1 1) false)).ribs ≠ wLive.ribs := by
  decide

/-- The model can express a stale `_attach` (what a parser that forgot to empty it would leave):
    with the first section of the refused file still in the list, reloading the UNCHANGED
    original file binds it and the peer is sent the refused file's routes (prefix 1 at attributes 3
    before it goes back to 1, and prefix 4, which no accepted file ever listed, for good) — the situation
    `reload_fail_empties_pending` excludes. -/
example :
    (((reactorReload { wLive with pending := [nbNew1] } cfgOld none).1.loopTop 1).drain 1).2
      = [Ev.ann (rt 1 1 3 1), Ev.ann (rt 1 1 1 1), Ev.ann (rt 4 1 1 1)] ∧
    (((reactorReload wLive cfgOld none).1.loopTop 1).drain 1).2 = [] := by decide

/-- Neighbor 1 (configured 1, 2; API route 5) removed, then added again with other routes: its
    RIB is gone after the removal, and the new incarnation's first session carries the new
    section only. -/
example :
    AList.lookup 1 (reactorReload wLive { procs := [1], nbrs := [nb2] } none).1.ribs = none ∧
    (((reactorReload (reactorReload wLive { procs := [1], nbrs := [nb2] } none).1 cfgNew none).1.establish 1).drain 1).2
      = [Ev.ann (rt 1 1 3 1), Ev.ann (rt 4 1 1 1)] := by decide

/-- The former "poisoned parser" witness: after the syntax error the corrected file loads, and
    the peer gets the delta. -/
example :
    (reactorReload (reactorReload wLive cfgNew (some (.syntax 1))).1 cfgNew none).2 = true ∧
    (((reactorReload (reactorReload wLive cfgNew (some (.syntax 1))).1 cfgNew none).1.loopTop 1).drain 1).2
      = [Ev.wd 2 1, Ev.ann (rt 1 1 3 1), Ev.ann (rt 4 1 1 1)] := by decide

/-! ### non-vacuity: the hypotheses of the theorems are satisfiable on these worlds -/

example : (cfgNew.nbrs.map Nbr.name).Nodup := by decide
example : RoutesOK nbNew1 := ⟨by decide, by decide, by decide⟩
example : nbNew1 ∈ cfgNew.nbrs ∧ nbOld1.sameSession nbNew1 = true := by decide
/-- `wLive`: peer 1 is up, settled, and the reload of `cfgNew` reconfigures it … -/
example : (AList.lookup 1 wLive.peers).map (fun p => (p.cur.nbr, p.up, p.next, p.teardown))
      = some (nbOld1, true, none, false) ∧
    (AList.lookup 1 wLive.ribs).map (fun s => (s.rib.families, s.rib.cacheOn, s.inflight)) = some ([1, 2], true, none) ∧
    AList.lookup 1 wLive.nbrs = some nbOld1 := by
  decide
/-- … and the result is the delta: prefix 1 at its new attributes, prefix 2 withdrawn, prefix 4
    announced, the API route 5 kept. -/
example : (((reactorReload wLive cfgNew none).1.loopTop 1).drain 1).2
    = [Ev.wd 2 1, Ev.ann (rt 1 1 3 1), Ev.ann (rt 4 1 1 1)] := by decide
example : deltaView (fun m => if m = 5 then some (2, 2) else if m = 1 ∨ m = 2 then some (1, 1) else none)
    nbOld1.plain nbNew1.plain 1 = some (3, 1) := by decide
example : deltaView (fun m => if m = 5 then some (2, 2) else if m = 1 ∨ m = 2 then some (1, 1) else none)
    nbOld1.plain nbNew1.plain 2 = none := by decide
example : deltaView (fun m => if m = 5 then some (2, 2) else if m = 1 ∨ m = 2 then some (1, 1) else none)
    nbOld1.plain nbNew1.plain 5 = some (2, 2) := by decide
/-- session down: what the next session carries -/
example : AList.lookup 5 (applyEvs [] (((reactorReload wDown cfgNew none).1.establish 1).drain 1).2) = some (2, 2) ∧
    AList.lookup 2 (applyEvs [] (((reactorReload wDown cfgNew none).1.establish 1).drain 1).2) = none ∧
    AList.lookup 1 (applyEvs [] (((reactorReload wDown cfgNew none).1.establish 1).drain 1).2) = some (3, 1) := by
  decide
/-- reloading the SAME file successfully puts nothing on the wire -/
example : (((reactorReload wLive cfgOld none).1.loopTop 1).drain 1).2 = [] := by decide
/-- F3 on its own: `replace_reload([A/x],[A/y])` without the insertion by `attach_ribs()` announces nothing. -/
example : (((Sess.init true [1]).step (.add (rt 1 1 1 1) false)).1.drain.1.step
    (.reload [rt 1 1 1 1] [rt 1 1 2 1])).1.drain.2 = [] := by decide

/-- **Two reloads, the second finding the session down** (F106 / F109), on sessions: whatever state the RIB was in
    (`s0`: queues, a generator in flight, API routes in the cache), after reload 1 (`n1`, parsed and queued; the
    session is then reset for the re-establishment), reload 2 (`n2`, same families; `reconfigure` with the link
    `old ++ n1.routes` that `decidePeer` hands it, see `reload_keeps_unapplied_link`) and the next establishment, the
    new session, drained, gives an empty peer table exactly: the routes of `n2`; nothing of what `old` or `n1`
    configured and `n2` does not; and every other prefix as the cache had it before the two reloads (API routes). -/
theorem reload_twice_second_while_down (s0 : Sess) (hcw : CacheWF s0.rib) (hok0 : FamOK s0.rib) (n1 n2 : Nbr) (old : List Route)
    (h1 : RoutesOK n1) (h2 : RoutesOK n2) (hf1 : s0.rib.families = n1.fams) (hf2 : n1.fams = n2.fams) :
    let s1 := ((s0.run (insertOps n1)).1.step .lost).1
    let s2 : Sess := { (parseSess (some s1) n2) with rib := (parseSess (some s1) n2).rib.replaceReload (old ++ n1.plain) n2.plain }
    let s3 := (s2.step (.established [] n2.plain)).1
    Good s3 [] ∧ ∀ m, AList.lookup m (applyEvs [] s3.drain.2) = deltaView s0.rib.cacheView (old ++ n1.plain) n2.plain m :=
  reload_chain_down_core s0 hcw hok0 n1 n2 old h1 h2 hf1 hf2

/-- ... and with the link the unrepaired code used (`n1.routes` alone) the statement is false: a route of `old` that
    `n1` removed is still in the cache and `deltaView` against `n1.routes` keeps it. -/
example :
    let r1 : Route := { nlri := 1, attr := 1, nh := 1, fam := 1 }
    let r2 : Route := { nlri := 2, attr := 1, nh := 1, fam := 1 }
    deltaView (fun m => if m = 1 ∨ m = 2 then some (1, 1) else none) [r1] [r1] 2 = some (1, 1) ∧
    deltaView (fun m => if m = 1 ∨ m = 2 then some (1, 1) else none) ([r1, r2] ++ [r1]) [r1] 2 = none := by decide

/-! ### a reload which finds a definition that never reached the RIB (finding F106) -/

/-- What the definition a peer holds last (`_neighbor` when one is pending, `neighbor` otherwise) has not
    yet applied to the RIB. -/
def unapplied (p : PeerSt) : Option (List Route) := (p.next.getD p.cur).prev

/-- **The decision, stated outright.**  When the definition the peer holds never reached the RIB
    (`unapplied p = some x`: a re-establishment is pending for it, or it waits for the loop top), a reload keeps
    `x` as what the RIB may hold, followed by the routes of the definition being replaced (`cfgPrev`: the parser has
    queued them). With `y = x ++ cfgPrev`:
    * same session parameters, session down: `replace_reload(y, new routes)` runs now and the link is consumed;
    * same session parameters, session up: the new definition waits for the loop top with the link `y`;
    * other session parameters: the new definition waits for the re-establishment with the link `y`. -/
theorem reload_keeps_unapplied_link (cfgPrev : Option (List Route)) (n : Nbr) (p : PeerSt) (s : Sess) (x : List Route)
    (hx : unapplied p = some x) :
    (p.cur.nbr.sameSession n = true → p.up = false →
      decidePeer cfgPrev n (some p) (some s) =
        ({ p with cur := { nbr := n, prev := none }, next := none },
         some { s with rib := s.rib.replaceReload (x ++ cfgPrev.getD []) n.plain })) ∧
    (p.cur.nbr.sameSession n = true → p.up = true →
      (decidePeer cfgPrev n (some p) (some s)).1.next = some { nbr := n, prev := some (x ++ cfgPrev.getD []) }) ∧
    (p.cur.nbr.sameSession n = false →
      (decidePeer cfgPrev n (some p) (some s)).1.next = some { nbr := n, prev := some (x ++ cfgPrev.getD []) } ∧
      (decidePeer cfgPrev n (some p) (some s)).1.teardown = true) := by
  unfold unapplied at hx
  refine ⟨?_, ?_, ?_⟩
  · intro h1 h2; simp [decidePeer, hx, h1, h2]
  · intro h1 h2; simp [decidePeer, hx, h1, h2]
  · intro h1; simp [decidePeer, hx, h1]

/-- ... and when nothing is unapplied the configuration's previous definition is the link, as before. -/
theorem reload_link_is_previous (cfgPrev : Option (List Route)) (n : Nbr) (p : PeerSt) (s : Sess)
    (hx : unapplied p = none) (h1 : p.cur.nbr.sameSession n = true) (h2 : p.up = false) :
    decidePeer cfgPrev n (some p) (some s) =
      ({ p with cur := { nbr := n, prev := none }, next := none },
       some { s with rib := s.rib.replaceReload (cfgPrev.getD []) n.plain }) := by
  unfold unapplied at hx
  simp [decidePeer, hx, h1, h2]

-- the history of F106: N0 = routes 1, 2; reload 1 (other hold-time, route 2 removed) is pending when the session
-- ends; reload 2 (route 1 only, same hold-time as reload 1) finds the peer down: the RIB is brought from N0 to N2
example :
    let r1 : Route := { nlri := 1, attr := 1, nh := 1, fam := 1 }
    let r2 : Route := { nlri := 2, attr := 1, nh := 1, fam := 1 }
    let n1 : Nbr := { name := 1, key := 2, fams := [1], adjOut := true, routes := [{ r := r1 }] }
    let p : PeerSt := { cur := { nbr := n1, prev := some [r1, r2] }, next := none, up := false, teardown := false }
    unapplied p = some [r1, r2] := by decide

end Exa.Props.C17
