/-
  C02, the missing link — ExaBGP's own decoder against the RFC reference decoder.

  `Props/C02.lean` proves the reference codec exact (`wire_left_inverse`: `decodeUpdate p (encodeUpdate p u) = .ok u`
  for every `WFUpdate p u`) and defines the canonical `report`. This file proves that the MODEL OF EXABGP'S DECODER
  (`Model/Attr7606.lean`: TLV walk, parse loop, value decoders, `unpack` merge rules, `split`, `_parse_payload`;
  tied to the code by the C08 correspondence on every run) reports the same thing on `encodeUpdate p u`.

  Both sides are mapped into `Exa.Wire.Report`: `report p u` for the reference, `reportParts p pt` for the model
  (`Lemmas/Attr7606AgreeTop.lean`: announces with the next hop ExaBGP attaches — NEXT_HOP for the NLRI field, the
  first address of the MP next hop otherwise —, withdraws with labels erased, the relayed attribute values = the
  kept wire bytes read by the reference value syntax, sorted by code; the merged AS_PATH = `mergeExa` of its parts).

  FULL STATEMENT (kept visible):

      exa_decoder_agrees_reference : ∀ xp u, WFUpdate xp.p u →
        ∃ pt, decodeParts noFix attrTable xp (encodeUpdate xp.p u) = .ok pt ∧ reportParts xp.p pt = report xp.p u

  It is FALSE as it stands; the proof forces the side conditions below, each either outside the model or a
  genuine difference between what ExaBGP decodes by value and what the reference carries opaquely:

    `ExaAccepts` per attribute
      · an unrecognised type code is one ExaBGP has no class for either (22, 23, 25, 26, 29, 40 are decoded by
        ExaBGP; the reference carries them opaquely)                                         — outside the model
      · MP families are negotiated, no RFC 8950 next hop negotiated, AFI 1/2 × SAFI 1, 2, 4, 128 only
                                                                                             — outside the model
      · a VPN next hop has a zero route distinguisher (ExaBGP: NOTIFICATION 3/0; the reference does not look)
      · COMMUNITY / CLUSTER_LIST / EXTENDED / LARGE COMMUNITY lists are not empty (ExaBGP: treat-as-withdraw, as
        RFC 7606 asks; the reference codec accepts the empty list)
    `MergeFree`
      · no AS4_AGGREGATOR, and on a 2-octet session no AS4_PATH: the RFC 6793 reconstruction is proved separately
        (`exa_merge_is_rfc6793`: the model of `merge_attributes` IS `merge6793`, including the discard of the
        confederation segments of an AS4_PATH, RFC 6793 §6) and checked end to end on the canonical AS_TRANS case
        (`example`), but the message-level theorem does not cover the re-ordering of the collection it causes.
    AIGP
      · an attribute of type 26 is never `.unknown` under `ExaAccepts` (ExaBGP has a class for it); what a session
        with and without AIGP reports for it is `Props/C02.lean` (`aigp_*`) and the C02 correspondence.
    End-of-RIB is outside these theorems (C02's `eor_iff` is about the reference; the code's recognition of it
    is compared on every run by the C02 correspondence).

  PROVED: `exa_decoder_agrees_reference_partial` (announce, withdraw, attrs; every attribute order, both length
  widths, Partial bit, unknown attributes, both AS sizes, IPv4/IPv6 × unicast, multicast, labelled, VPN with
  ADD-PATH), `exa_decodes_wellformed`, `exa_nothing_dropped`, `exa_nothing_invented`, `exa_merge_is_rfc6793`.
-/
import ExaModel.Lemmas.Attr7606AgreeTop
import ExaModel.Props.C02
import ExaModel.Props.C08

namespace Exa.Props.C02Exa
open Exa Exa.Wire Exa.Attr7606
open Exa.Generated.AttrTable (attrTable)

/-- The side conditions the proof forces (see the header). -/
def ExaSide (xp : XP) (u : UpdateSem) : Prop :=
  (∀ a ∈ u.attrs, ExaAccepts attrTable xp a) ∧ MergeFree xp.p u.attrs

/-- Zero-length AS_PATH, ATOMIC_AGGREGATE and AS4_PATH are registered with VALID_ZERO in the generated table. -/
theorem table_zero : TableZero attrTable := by decide

/-- **ExaBGP's decoder agrees with the reference decoder** (partial: under `ExaSide`). For every well-formed
    UPDATE — any attribute order, either length width, Partial bit, unrecognised attributes, 2- or 4-octet AS,
    IPv4 NLRI field and MP_REACH / MP_UNREACH of AFI 1/2 × SAFI 1, 2, 4, 128 with ADD-PATH, labels, RD — the model
    of ExaBGP's decoder accepts the reference encoding and what it has in hand (`partsOf`) reports, on the
    canonical form, the same announces (family, next hop, NLRI, in wire order), the same withdraws and the same
    attribute values as the reference decoder. -/
theorem exa_decoder_agrees_reference_partial (xp : XP) (u : UpdateSem) (hwf : WFUpdate xp.p u) (hs : ExaSide xp u) :
    decodeParts noFix attrTable xp (encodeUpdate xp.p u) = .ok (partsOf xp u) ∧
    (reportParts xp.p (partsOf xp u)).announce = (report xp.p u).announce ∧
    (reportParts xp.p (partsOf xp u)).withdraw = (report xp.p u).withdraw ∧
    (reportParts xp.p (partsOf xp u)).attrs = (report xp.p u).attrs := by
  obtain ⟨hacc, hmf⟩ := hs
  have hdec := decodeParts_enc (fx := noFix) C08.table_ok table_zero u hwf hacc hmf
  obtain ⟨hw, ha, hn, hW, hA, _, hsem⟩ := hwf
  have hnd := dupCode_of_semErr hsem
  refine ⟨hdec, ?_, ?_, ?_⟩
  · -- announces
    have hnh := nh4Of_enc xp.p u.attrs ha (fun k => !xp.p.asn4 || k.code != 17) (by intro k hk; simp [hk])
    have hmp := (mpAnnounced_enc (tb := attrTable) xp u.attrs ha hacc (fun k => !xp.p.asn4 || k.code != 17)
      (by intro k hk; simp [hk])).2
    simp only [reportParts, report, partsOf, hnh, hmp, mpAnnounces_eq xp.p u.attrs ha hnd, List.map_map]
    congr 1
    cases hf : findAttr u.attrs 14 with
    | none => rfl
    | some a => cases hv : a.val <;> simp [hv, List.map_map, Function.comp]
  · -- withdraws
    simp only [reportParts, report, partsOf, mpWithdraws_eq xp.p u.attrs ha hnd, List.map_append, List.map_map]
    congr 1
    cases hf : findAttr u.attrs 15 with
    | none => rfl
    | some a => cases hv : a.val <;> simp [hv, List.map_map, Function.comp]
  · -- attributes
    have h26 : rowOf attrTable aigpCode ≠ none := by decide
    have hna : ∀ a ∈ u.attrs, ∀ c raw, a.val = .unknown c raw → c ≠ aigpCode := by
      intro a ham c raw hv hc
      have := (hacc a ham).2
      rw [hv] at this
      subst hc
      exact h26 this
    simp only [reportParts, report, relayed_enc xp u ha hmf hna]

/-- What `Message.unpack` returns in the model for such an UPDATE: the End-of-RIB fast path, or the collection
    assembled from `partsOf` — not marked treat-as-withdraw, so the announces are announced. -/
theorem exa_decodes_wellformed (xp : XP) (u : UpdateSem) (hwf : WFUpdate xp.p u) (hs : ExaSide xp u) :
    decodeExa xp (encodeUpdate xp.p u) =
      .ok (if eorFast (encodeUpdate xp.p u) then emptyRep else assemble (partsOf xp u)) := by
  unfold decodeExa decodeWith
  rw [(exa_decoder_agrees_reference_partial xp u hwf hs).1]
  split <;> rfl

/-- Nothing the peer sent is dropped: every announce, withdraw and relayed attribute value of the reference
    report is in the report of the model of ExaBGP. -/
theorem exa_nothing_dropped (xp : XP) (u : UpdateSem) (hwf : WFUpdate xp.p u) (hs : ExaSide xp u) :
    (∀ x ∈ (report xp.p u).announce, x ∈ (reportParts xp.p (partsOf xp u)).announce) ∧
    (∀ x ∈ (report xp.p u).withdraw, x ∈ (reportParts xp.p (partsOf xp u)).withdraw) ∧
    (∀ v ∈ (report xp.p u).attrs, v ∈ (reportParts xp.p (partsOf xp u)).attrs) := by
  obtain ⟨_, h1, h2, h3⟩ := exa_decoder_agrees_reference_partial xp u hwf hs
  rw [h1, h2, h3]
  exact ⟨fun _ h => h, fun _ h => h, fun _ h => h⟩

/-- Nothing is invented: every announce, withdraw and attribute value the model of ExaBGP reports is in the
    reference report. -/
theorem exa_nothing_invented (xp : XP) (u : UpdateSem) (hwf : WFUpdate xp.p u) (hs : ExaSide xp u) :
    (∀ x ∈ (reportParts xp.p (partsOf xp u)).announce, x ∈ (report xp.p u).announce) ∧
    (∀ x ∈ (reportParts xp.p (partsOf xp u)).withdraw, x ∈ (report xp.p u).withdraw) ∧
    (∀ v ∈ (reportParts xp.p (partsOf xp u)).attrs, v ∈ (report xp.p u).attrs) := by
  obtain ⟨_, h1, h2, h3⟩ := exa_decoder_agrees_reference_partial xp u hwf hs
  rw [h1, h2, h3]
  exact ⟨fun _ h => h, fun _ h => h, fun _ h => h⟩

/-- The model of ExaBGP's `merge_attributes` (commit 72add9c, on path segments) is the RFC 6793 §4.2.3 merge of the
    reference, for all pairs of paths. -/
theorem exa_merge_is_rfc6793 (as2 as4 : List Seg) : mergeExa as2 as4 = merge6793 as2 as4 :=
  mergeExa_eq_merge6793 as2 as4

/-! ## examples: the hypotheses are met, and the agreement holds end to end, beyond the theorem's side conditions -/

/-- the session of `Props/C02.lean`'s example: 2-octet AS, ADD-PATH for VPN-IPv4 -/
def xpEx : XP := { p := C02.pEx, families := [(1, 1), (1, 128), (2, 4)] }

-- a labelled VPN route with ADD-PATH (path id 7, labels 100/200, RD), AS_TRANS in AS_PATH with the true path in
-- AS4_PATH, extended-length ORIGIN, an unknown transitive attribute with Partial, a labelled IPv6 withdrawal, IPv4
-- withdrawn route and NLRI: the model of ExaBGP's decoder reports exactly what the reference reports — including
-- the RFC 6793 reconstruction, which `MergeFree` keeps out of the theorem
example : (decodeParts noFix attrTable xpEx (encodeUpdate C02.pEx C02.uEx)).toOption.map
      (fun pt => (reportParts C02.pEx pt).announce) = some (report C02.pEx C02.uEx).announce := by decide
example : (decodeParts noFix attrTable xpEx (encodeUpdate C02.pEx C02.uEx)).toOption.map
      (fun pt => (reportParts C02.pEx pt).withdraw) = some (report C02.pEx C02.uEx).withdraw := by decide
example : (decodeParts noFix attrTable xpEx (encodeUpdate C02.pEx C02.uEx)).toOption.map
      (fun pt => (reportParts C02.pEx pt).attrs) = some (report C02.pEx C02.uEx).attrs := by decide

-- the same UPDATE without the AS4_PATH satisfies the side conditions of the theorem (`ExaSide`)
def uMergeFree : UpdateSem :=
  { C02.uEx with attrs :=
      [ ⟨⟨false, true, false, true⟩, .origin 0⟩,
        ⟨⟨false, true, false, false⟩, .asPath [(2, [65002, 23456, 3])]⟩,
        ⟨⟨false, true, false, false⟩, .nextHop 0x0A000001⟩,
        ⟨⟨true, false, false, false⟩,
          .mpReach 1 128 [0, 0, 0, 0, 0, 0, 0, 0, 10, 0, 0, 1]
            [{ pathId := some 7, labels := [100, 200], rd := [0, 0, 253, 232, 0, 0, 0, 1], plen := 24, pfx := [10, 0, 0] }]⟩,
        ⟨⟨true, true, true, false⟩, .unknown 99 [1, 2, 3]⟩,
        ⟨⟨true, false, false, true⟩,
          .mpUnreach 2 4 [{ pathId := none, labels := [], rd := [], plen := 64, pfx := [32, 1, 13, 184, 0, 0, 0, 0] }]⟩ ] }
example : uMergeFree.attrs = C02.uEx.attrs.filter (fun a => a.val.code != 17) := by decide
example : ExaSide xpEx uMergeFree := by
  refine ⟨?_, ?_, ?_⟩
  · intro a ha
    simp only [uMergeFree, List.mem_cons, List.mem_nil_iff, or_false] at ha
    rcases ha with h | h | h | h | h | h <;> subst h <;> refine ⟨by simp [NonEmptyLists], ?_⟩ <;>
      first | trivial | decide | (simp [ValAccepts, xpEx, C02.pEx, nhLenOk, sumBytes])
  · intro a ha
    simp only [uMergeFree, List.mem_cons, List.mem_nil_iff, or_false] at ha
    rcases ha with h | h | h | h | h | h <;> subst h <;> simp [AttrVal.code]
  · intro _ a ha
    simp only [uMergeFree, List.mem_cons, List.mem_nil_iff, or_false] at ha
    rcases ha with h | h | h | h | h | h <;> subst h <;> simp [AttrVal.code]
example : semErr C02.pEx uMergeFree = none := by decide

end Exa.Props.C02Exa
