import ExaModel.Lemmas.IndexInj
import ExaModel.Lemmas.NlriFramingPack
set_option linter.unusedSimpArgs false
set_option linter.unusedVariables false
/-!
# C15 — Every family and attribute survives a round trip; index / hash / equality contract

Statement (properties.jsonl): for every address family and attribute type ExaBGP registers,
decoding what ExaBGP encoded gives an equal object, and re-encoding what ExaBGP decoded from
canonical bytes gives the same bytes. Equal routes have equal indexes and hashes, routes that
differ in family, path identifier, prefix or route distinguisher never share an index, and the
JSON and text renderings of a decoded object are deterministic functions of its bytes.

Models: `Exa.Index` (M-Index: `index()`, `__eq__`, `__hash__` of INET / Label / IPVPN and
`Route.index()`), `Exa.Framing` (M-Framing: the bytes one NLRI of each registered family takes,
what the object keeps of them, what `pack_nlri` returns). The registries and the framing constants
are generated from /repo (`Generated/Registry.lean`).

Strength. Index / equality / hash: full (`index_injective`, `route_index_injective`,
`hash_respects_eq`, `eq_iff_index`) for the model of the code after commit 202850b; the collisions
of the earlier encoding (finding F15 and its two siblings, and the Label / IPVPN hash that
disagreed with `==`) are kept as examples and corpus cases. Framing: full at framing level for
every registered family; the value-level codecs of the ~20 non-IP route types and of the
attributes are covered by the registry-driven correspondence only (DESIGN section 8, C15: partial).
-/
namespace Exa.Props.C15
open Exa Exa.Index Exa.Framing Exa.Generated.Registry

/-! ## Index, equality, hash -/

/-- **`==` is equality of indexes** (`NLRI.__eq__`, inherited by the three classes). -/
theorem eq_iff_index (a b : IpNlri) : nlriEq a b = true ↔ index a = index b := by
  simp [nlriEq]

/-- **`index_injective` (full statement): routes that differ in family, path identifier, prefix or
    route distinguisher never share an index.** Any family, path-id or none, any mask, any prefix
    bytes, any label stack, RD or none; no side condition. (Labels are not in the property's list
    and `Label.index` / `IPVPN.index` leave them out: two routes that differ only in labels are
    the same route with another label binding, and are `==`.) -/
theorem index_injective (a b : IpNlri) (ha : wf a = true) (hb : wf b = true) (hk : a.kind = b.kind)
    (h : index a = index b) : key a = key b :=
  index_key a b (wf_iff a ha) (wf_iff b hb) hk h

/-- The same for `Route.index()` (the RIB key), which only prepends the family once more. -/
theorem route_index_injective (a b : IpNlri) (ha : wf a = true) (hb : wf b = true) (hk : a.kind = b.kind)
    (h : routeIndex a = routeIndex b) : key a = key b := by
  have wa := wf_iff a ha
  have wb := wf_iff b hb
  unfold routeIndex at h
  exact index_key a b wa wb hk (fam_split wa.afi wa.safi wb.afi wb.safi h).2.2

/-- **`hash_respects_eq` (full statement): equal routes have equal hashes**, for the three classes:
    Label and IPVPN hash their index; INET hashes its `_packed` behind the sentinel, which the
    index determines. -/
theorem hash_respects_eq (a b : IpNlri) (ha : wf a = true) (hb : wf b = true) (hk : a.kind = b.kind)
    (h : nlriEq a b = true) : hashKey a = hashKey b := by
  have h' := (eq_iff_index a b).1 h
  cases hka : a.kind with
  | inet =>
    exact inet_hashKey_of_index a b (wf_iff a ha) (wf_iff b hb) hka (by rw [← hk, hka]) h'
  | label =>
    have hkb : b.kind = .label := by rw [← hk, hka]
    simp [hashKey, hka, hkb, h']
  | vpn =>
    have hkb : b.kind = .vpn := by rw [← hk, hka]
    simp [hashKey, hka, hkb, h']

/-- Equal keys give equal indexes (so `==` is exactly "same family, path-id, prefix, RD"). -/
theorem index_of_key (a b : IpNlri) (ha : wf a = true) (hb : wf b = true) (hk : a.kind = b.kind)
    (h : key a = key b) : index a = index b := by
  rw [index_eq_uniform a (wf_iff a ha), index_eq_uniform b (wf_iff b hb)]
  simp only [key, Key.mk.injEq] at h
  obtain ⟨e1, e2, e3, e4, e5, e6⟩ := h
  simp [indexU, rdBits, rdFlag, hk, e1, e2, e3, e4, e5, e6]

/-! ### The collisions of the encoding before commit 202850b (finding F15), kept as regression
    cases: each pair collided under `indexOld` and is told apart by `index`. The same pairs are
    `corpus/C15/index-*.json` and are replayed on the real classes on every run. -/

/-- IPv6 `1:2:3:4::/72` without path-id, and `6c65:6448:1:2:3:4::/98` with path-id `b'disa'`. -/
def f15a : IpNlri := ⟨.inet, 2, 1, none, [], none, 72, [0, 1, 0, 2, 0, 3, 0, 4, 0]⟩
def f15b : IpNlri :=
  ⟨.inet, 2, 1, some disa, [], none, 98, [108, 101, 100, 72, 0, 1, 0, 2, 0, 3, 0, 4, 0]⟩
/-- Label: path-id 0.0.0.0 (`b'no-pi'`) `/100` against path-id `b'no-p'` `/105`. -/
def nopiA : IpNlri := ⟨.label, 2, 4, some [0, 0, 0, 0], [], none, 100, [0, 1, 0, 2, 0, 3, 0, 4, 0, 5, 0, 6, 0]⟩
def nopiB : IpNlri := ⟨.label, 2, 4, some nop, [], none, 105, [100, 0, 1, 0, 2, 0, 3, 0, 4, 0, 5, 0, 6, 0]⟩
/-- IPVPN built without an RD `/72` against RD `0.2.0.3:4` with `::/8`. -/
def rdA : IpNlri := ⟨.vpn, 2, 128, none, [], none, 72, [0, 1, 0, 2, 0, 3, 0, 4, 0]⟩
def rdB : IpNlri := ⟨.vpn, 2, 128, none, [], some [0, 1, 0, 2, 0, 3, 0, 4], 8, [0]⟩
/-- 10.0.0.0/24 with label 100 and with label 200 (`Label`, no ADD-PATH). -/
def labA : IpNlri := ⟨.label, 1, 4, none, [0, 6, 65], none, 24, [10, 0, 0]⟩
def labB : IpNlri := ⟨.label, 1, 4, none, [0, 12, 129], none, 24, [10, 0, 0]⟩

example : wf f15a = true ∧ wf f15b = true ∧ key f15a ≠ key f15b
    ∧ indexOld f15a = indexOld f15b ∧ index f15a ≠ index f15b ∧ routeIndex f15a ≠ routeIndex f15b := by decide
example : wf nopiA = true ∧ wf nopiB = true ∧ key nopiA ≠ key nopiB
    ∧ indexOld nopiA = indexOld nopiB ∧ index nopiA ≠ index nopiB := by decide
example : wf rdA = true ∧ wf rdB = true ∧ key rdA ≠ key rdB
    ∧ indexOld rdA = indexOld rdB ∧ index rdA ≠ index rdB := by decide
-- same route, another label: one index, and now one hash (the old hash covered the labels)
example : wf labA = true ∧ wf labB = true ∧ key labA = key labB ∧ index labA = index labB
    ∧ hashKeyOld labA ≠ hashKeyOld labB ∧ hashKey labA = hashKey labB := by decide

/-! ## Framing of one NLRI, every registered family -/

/-- **`frame_roundtrip`: the decoder takes exactly the canonical encoding of one NLRI off the front
    of the data and leaves the rest**, for every framing kind, any payload, any following bytes.
    (VPLS: only when nothing follows — `vpls_second_nlri_refused`.) -/
theorem frame_roundtrip (n : Nlri) (c : Cfg) (h : n.ok c) (rest : Bytes)
    (hv : n.kind = .vpls → rest = []) :
    split n.kind c (n.frame ++ rest) = some ⟨n.frame, n.stored c, rest⟩ := by
  cases n with
  | pfx path mask v =>
    obtain ⟨h1, h2, h3⟩ := h
    cases path with
    | none =>
      simp only at h3
      simp only [Nlri.kind, split, Nlri.frame, Nlri.stored, h3]
      exact split_pfx_none mask v rest h1
    | some p =>
      simp only at h3
      simp only [Nlri.kind, split, Nlri.frame, Nlri.stored, h3.1]
      exact split_pfx_some p mask v rest h3.2 h1
  | typeLen8 ty v =>
    simp only [Nlri.kind, split, Nlri.frame, Nlri.stored]
    exact split_typeLen8 ty v rest
  | mup arch code v =>
    simp only [Nlri.kind, split, Nlri.frame, Nlri.stored]
    exact split_mup arch code v rest
  | bgpls code v =>
    obtain ⟨h1, h2, h3⟩ := h
    simp only [Nlri.kind, split, Nlri.frame, Nlri.stored]
    by_cases hk : bgplsCodes.contains code = true
    · by_cases hs : c.safi = 72
      · have : (c.safi == 72) = true := by simp [hs]
        rw [this]
        exact split_bgpls_vpn_known code v rest h2 h1 hk (h3 hs)
      · have : (c.safi == 72) = false := by simp [hs]
        rw [this]
        exact split_bgpls_known code v rest h2 h1 hk
    · have hk' : bgplsCodes.contains code = false := by simpa using hk
      exact split_bgpls_plain code v rest h2 h1 hk' _ (by intro e; exact h3 (by simpa using e))
  | flow v =>
    simp only [Nlri.kind, split, Nlri.frame, Nlri.stored]
    obtain ⟨f, hf, hs⟩ := split_flow v rest h
    simp only [hf, Option.getD_some]
    exact hs
  | vpls v =>
    have hr := hv rfl
    subst hr
    simp only [Nlri.kind, split, Nlri.frame, Nlri.stored, List.append_nil]
    exact split_vpls v h
  | rtcWild =>
    simp [Nlri.kind, split, Nlri.frame, Nlri.stored, splitRtc]
  | rtc bits v =>
    obtain ⟨h1, h2, h3⟩ := h
    simp only [Nlri.kind, split, Nlri.frame, Nlri.stored]
    exact split_rtc bits v rest h1 h2 h3
  | srPolicy v =>
    simp only [Nlri.kind, split, Nlri.frame, Nlri.stored]
    exact split_srPolicy c.afi v rest h

/-- **What a decoder consumes is a prefix of its input, followed by what it leaves**: no byte is
    skipped, reordered or invented at framing level, for any input at all. -/
theorem split_consumes_prefix (k : Framing.Kind) (c : Cfg) (d : Bytes) (cut : Cut) (h : split k c d = some cut) :
    cut.consumed ++ cut.rest = d :=
  split_prefix k c d cut h

/-- **`packed_first_roundtrip`: `pack (unpack b) = b`** for every framing kind, for every `b` the
    decoder accepts as exactly one NLRI and that is in canonical form (`Canonical`: shortest
    FlowSpec length form, VPLS length 17, RTC type bits clear). -/
theorem packed_first_roundtrip (k : Framing.Kind) (c : Cfg) (b : Bytes) (cut : Cut) (h : split k c b = some cut)
    (hr : cut.rest = []) (hc : Canonical k c b) : pack k cut.stored = some b :=
  pack_split k c b cut h hr hc

/-- **Decoding what was re-encoded gives the same object again** (same consumed slice, same kept
    bytes), under the same canonicity condition. -/
theorem reencode_redecode (k : Framing.Kind) (c : Cfg) (b : Bytes) (cut : Cut) (h : split k c b = some cut)
    (hr : cut.rest = []) (hc : Canonical k c b) :
    ∃ p, pack k cut.stored = some p ∧ split k c p = some cut :=
  ⟨b, pack_split k c b cut h hr hc, h⟩

/-- FlowSpec with the RFC 8955 shift of 8 bits: the length framing round-trips for every size the
    encoder produces (this is the theorem for the repaired decoder). -/
theorem flow_frame_roundtrip_rfc_shift (v rest : Bytes) (h : v.length < 4095) :
    ∃ f, flowFrame v = some f ∧ splitFlowWith 8 (f ++ rest) = some ⟨f, v, rest⟩ :=
  split_flow_shift8 v rest h

/-- **FINDING (Flow), repaired in /repo by "fix: FlowSpec NLRI length field above 255": with a shift
    of 16 (`FLOW_LENGTH_EXTENDED_SHIFT` before that commit) every FlowSpec NLRI of 256 to 4094 bytes
    that ExaBGP encodes is refused by ExaBGP's decoder.** The model reads the shift from the generated
    table, so it follows the code; `corpus/C15/text-flow-big.json` keeps the case. -/
theorem flow_frame_refused_shift16 (v : Bytes) (h1 : 256 ≤ v.length) (h2 : v.length < 4095) :
    ∃ f, flowFrame v = some f ∧ splitFlowWith 16 f = none :=
  flow_shift16_refuses v h1 h2

/-- **FINDING (VPLS): a VPLS NLRI followed by another NLRI is refused** (`len(data) != length + 2`):
    one MP_REACH can carry only one VPLS NLRI. -/
theorem vpls_second_nlri_refused (v rest : Bytes) (hv : v.length = 17) (hr : rest ≠ []) :
    split .vpls ⟨25, 65, false⟩ (be16 v.length ++ v ++ rest) = none :=
  split_vpls_followed v rest hv hr

/-- **Whatever VPLS NLRI the decoder accepts (also one longer than the 17 bytes it reads), what the
    object keeps is decoded again to the same kept bytes** (repaired by "fix: a VPLS NLRI keeps the
    bytes it can read back": before it the kept length was the received one and
    `00 12` + 17 bytes was refused). -/
theorem vpls_kept_redecodable (c : Cfg) (b : Bytes) (cut : Cut) (h : split .vpls c b = some cut) :
    split .vpls c cut.stored = some ⟨cut.stored, cut.stored, []⟩ := by
  simp only [split] at h ⊢
  unfold splitVpls at h
  by_cases h2 : b.length < 2
  · simp [h2] at h
  · simp only [h2, if_false, vplsPayloadSize] at h
    by_cases h17 : rd16 b < 17
    · simp [h17] at h
    · simp only [h17, if_false] at h
      by_cases hl : b.length = rd16 b + 2
      · simp only [hl, ne_eq, not_true_eq_false, if_false, Option.some.injEq] at h
        subst h
        have hx : ((b.drop 2).take 17).length = 17 := by
          simp only [List.length_take, List.length_drop]; omega
        have := split_vpls ((b.drop 2).take 17) hx
        rw [hx] at this
        exact this
      · simp [hl] at h

/-- **FINDING (RTC): a prefix shorter than 96 bits still takes 13 bytes** — a /64 RTC prefix
    (9 bytes on the wire) followed by another NLRI swallows 4 bytes of its neighbour. -/
theorem rtc_short_prefix_overconsumes :
    (split .rtc ⟨1, 132, false⟩ ([64, 0, 0, 253, 232, 0, 2, 253, 232] ++ [0, 0, 0, 0, 0])).map (·.consumed.length)
      = some 13 := by decide

/-- BGP-LS-VPN (repaired by "fix: a BGP-LS-VPN NLRI keeps its route distinguisher"): a Node NLRI with
    its RD is taken whole and given back whole. Before, the RD was cut out of what `pack_nlri` returned. -/
theorem bgpls_vpn_keeps_rd :
    (split .type16Len16 ⟨16388, 72, false⟩ [0, 1, 0, 9, 1, 2, 3, 4, 5, 6, 7, 8, 9]).bind (fun cut => pack .type16Len16 cut.stored)
      = some [0, 1, 0, 9, 1, 2, 3, 4, 5, 6, 7, 8, 9] := by decide

/-! ## The generated registries -/

/-- **Every registered family has a framing kind** (a newly registered decoder class without one
    breaks this obligation). -/
theorem registry_families_framed :
    ∀ r ∈ families, (kindOfClass r.2.2).isSome = true := by decide

/-- The family registry is the table the models were written against. -/
theorem registry_families_is_spec :
    families =
      [(1, 1, "INET"), (1, 2, "INET"), (1, 4, "Label"), (1, 5, "MVPN"), (1, 73, "SRPolicyNLRI"), (1, 85, "MUP"),
       (1, 128, "IPVPN"), (1, 132, "RTC"), (1, 133, "Flow"), (1, 134, "Flow"),
       (2, 1, "INET"), (2, 2, "INET"), (2, 4, "Label"), (2, 5, "MVPN"), (2, 73, "SRPolicyNLRI"), (2, 85, "MUP"),
       (2, 128, "IPVPN"), (2, 133, "Flow"), (2, 134, "Flow"),
       (25, 65, "VPLS"), (25, 70, "EVPN"), (16388, 71, "BGPLS"), (16388, 72, "BGPLS")] := by decide

/-- The attribute registry: (code, flags | EXTENDED_LENGTH, class). -/
theorem registry_attributes_is_spec :
    attributes =
      [(1, 80, "Origin"), (2, 80, "ASPath"), (3, 80, "NextHop"), (4, 144, "MED"), (5, 80, "LocalPreference"),
       (6, 80, "AtomicAggregate"), (7, 208, "Aggregator"), (8, 208, "Communities"), (9, 144, "OriginatorID"),
       (10, 144, "ClusterList"), (14, 144, "MPRNLRI"), (15, 144, "MPURNLRI"), (16, 208, "ExtendedCommunities"),
       (17, 208, "AS4Path"), (18, 208, "Aggregator4"), (22, 208, "PMSI"), (23, 208, "TunnelEncap"),
       (25, 208, "ExtendedCommunitiesIPv6"), (26, 144, "AIGP"), (29, 144, "LinkState"),
       (32, 208, "LargeCommunities"), (40, 208, "PrefixSid")] := by decide

/-- The route-type registries below the families (each shares its family's framing kind). -/
theorem registry_subtypes_is_spec :
    evpn.map (·.1) = [1, 2, 3, 4, 5] ∧ mvpn.map (·.1) = [5, 6, 7]
    ∧ mup.map (fun r => (r.1, r.2.1)) = [(1, 1), (1, 2), (1, 3), (1, 4)]
    ∧ bgplsCodes = [1, 2, 3, 4, 6] ∧ bgpls.map (·.1) = bgplsCodes
    ∧ pmsi.map (·.1) = [0, 6] ∧ prefixsid.map (·.1) = [1, 3, 5, 6]
    ∧ extended.length = 23 ∧ extended6.map (fun r => (r.1, r.2.1)) = [(0, 11), (0, 12)] := by decide

/-- The framing constants the decoders compare against (the FlowSpec shift is deliberately not
    pinned here: the model reads it from the generated table, and `frame_roundtrip` does not
    depend on it). -/
theorem framing_constants :
    pathInfoSize = 4 ∧ pathInfoLength = 4 ∧ rdSize = 8 ∧ labelSizeBits = 24 ∧ evpnHeaderSize = 2
    ∧ vplsPayloadSize = 17 ∧ rtcMinBits = 32 ∧ rtcMaxBits = 96 ∧ rtcFullLength = 13
    ∧ srPolicyV4Size = 12 ∧ srPolicyV6Size = 24
    ∧ flowCompactMax = 240 ∧ flowExtendedMax = 4095 ∧ flowExtendedValue = 240 ∧ flowExtendedMask = 240
    ∧ flowCompactLimit = 240 ∧ 4095 ≤ flowEncodeLimit ∧ flowEncodeLimit ≤ 4096
    ∧ flowLowerMask = 15
    ∧ rdSizes.filter (fun r => r.2.2 ≠ 0) = [(1, 128, 8), (2, 128, 8), (16388, 72, 8)] := by decide

/-! ## Non-vacuity -/

-- a real EVPN MAC route (type 2, 33 bytes) followed by a type 3 route, and one of each kind
example : split .typeLen8 ⟨25, 70, false⟩ ([2, 3, 1, 2, 3] ++ [3, 0]) = some ⟨[2, 3, 1, 2, 3], [2, 3, 1, 2, 3], [3, 0]⟩ := by decide
example : (Nlri.pfx (some [0, 0, 0, 7]) 24 [10, 0, 0]).ok ⟨1, 1, true⟩ := by simp [Nlri.ok]
example : split .prefixBits ⟨1, 1, true⟩ ([0, 0, 0, 7, 24, 10, 0, 0] ++ [8, 11])
    = some ⟨[0, 0, 0, 7, 24, 10, 0, 0], [0, 0, 0, 7, 24, 10, 0, 0], [8, 11]⟩ := by decide
example : (Nlri.bgpls 1 [9, 9, 9, 9, 9, 9, 9, 9, 5]).ok ⟨16388, 72, false⟩ := by simp [Nlri.ok]
example : (Nlri.srPolicy (List.replicate 12 1)).ok ⟨1, 73, false⟩ := by simp [Nlri.ok, srPolicyBits, srPolicyV4Size]
example : (Nlri.rtc 96 (List.replicate 12 1)).ok ⟨1, 132, false⟩ := by simp [Nlri.ok]
example : Canonical .flow ⟨1, 133, false⟩ [3, 1, 8, 10] := by simp [Canonical]; decide
example : (split .vpls ⟨25, 65, false⟩ ([0, 18] ++ List.replicate 18 7)).map (·.stored) = some ([0, 17] ++ List.replicate 17 7) := by decide
example : (split .flow ⟨1, 133, false⟩ [3, 1, 8, 10]).map (·.stored) = some [1, 8, 10] := by decide
example : kindOfFamily 25 70 = some .typeLen8 ∧ kindOfFamily 16388 72 = some .type16Len16 ∧ kindOfFamily 3 1 = none := by decide
-- ordinary routes: 10.0.0.0/24 with path-id 1 and 2
example : wf ⟨.inet, 1, 1, some [0, 0, 0, 1], [], none, 24, [10, 0, 0]⟩ = true
    ∧ index ⟨.inet, 1, 1, some [0, 0, 0, 1], [], none, 24, [10, 0, 0]⟩ ≠ index ⟨.inet, 1, 1, some [0, 0, 0, 2], [], none, 24, [10, 0, 0]⟩ := by decide
example : index f15a = [48, 50, 48, 49] ++ disabled ++ [72, 0, 1, 0, 2, 0, 3, 0, 4, 0] := by decide
example : index f15b = [48, 50, 48, 49] ++ pathWord ++ disa ++ [98, 108, 101, 100, 72, 0, 1, 0, 2, 0, 3, 0, 4, 0] := by decide

end Exa.Props.C15
