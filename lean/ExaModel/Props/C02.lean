import ExaModel.Lemmas.Wire
import ExaModel.Lemmas.WireMerge
import ExaModel.Lemmas.WireCountTlv
import ExaModel.Lemmas.WireExaFind
import ExaModel.Generated.AttrTable
import ExaModel.Generated.FamilyTable
set_option linter.unusedSimpArgs false
/-!
# C02 — Reported routes are exactly what the peer sent

Statement (properties.jsonl): for every well-formed UPDATE a peer can send under the negotiated
session parameters, the announce and withdraw sets, next hops and attribute values ExaBGP reports
on its JSON API and stores in its Adj-RIB-In are exactly those an RFC reference decoder extracts
from the same bytes: nothing dropped, invented, moved between announce and withdraw, or attributed
to another family or next hop (only unrecognised optional non-transitive attributes, which ExaBGP
does not relay, are left out). AS_PATH and AS4_PATH received from a 2-byte peer are merged per
RFC 6793 and End-of-RIB markers are recognised for the right family.

What is proved here is that the *oracle* of that comparison — the RFC reference decoder `M-Wire`
(`Exa.Wire`, written from the RFC layouts, not from ExaBGP) — is exact: it inverts the reference
encoder on every well-formed UPDATE (so the messages the harness feeds to ExaBGP mean what the
generator meant), it accounts for every byte of what it accepts, the canonical `Report` contains
exactly the routes of the three places an UPDATE can carry them, the RFC 6793 reconstruction keeps
what the RFC says, and End-of-RIB is recognised exactly for the RFC 4724 shapes. ExaBGP's own
decoder is tied to this oracle by the correspondence run (`harness/props/C02.py`), not by a model.
-/
namespace Exa.Props.C02
open Exa Exa.Wire

/-- **The reference decoder is exact (full statement, all inputs).** Every well-formed UPDATE —
    any withdrawn routes, any list of attributes in any order, with the Extended Length flag on
    short attributes or not, with the Partial bit where it is allowed, IPv4 NLRI, MP_REACH /
    MP_UNREACH of the IP families with or without ADD-PATH path ids, label stacks, the 0x800000
    withdraw label and route distinguishers, unknown attributes, 2- or 4-byte AS numbers — is decoded
    from its reference encoding to itself. -/
theorem wire_left_inverse (p : Params) (u : UpdateSem) (h : WFUpdate p u) :
    decodeUpdate p (encodeUpdate p u) = .ok u := by
  obtain ⟨hw, ha, hn, hW, hA, hsz, hsem⟩ := h
  unfold decodeUpdate
  have c : ¬ (encodeUpdate p u).length + 19 > p.msgSize := by omega
  rw [if_neg c, decodeRaw_encodeUpdate p u hw ha hn hW hA]
  simp only [hsem]

/-- The value codecs on their own (what `wire_left_inverse` uses for every attribute). -/
theorem wire_attr_left_inverse (p : Params) (a : Attr) (h : WFAttr p a) (rest : Bytes) :
    decAttr p (encAttr p a ++ rest) = .ok (a, rest) := decAttr_encAttr p a h rest

/-- The NLRI codec on its own, for every family M-Wire knows, announce and withdraw form. -/
theorem wire_nlri_left_inverse (afi safi : Nat) (ap wd : Bool) (n : Nlri) (h : WFNlri afi safi ap wd n)
    (rest : Bytes) : decNlri afi safi ap wd (encNlri safi wd n ++ rest) = .ok (n, rest) :=
  decNlri_encNlri afi safi ap wd n h rest

/-- **Every byte of an accepted message is accounted for.** An accepted body is exactly
    `len ++ W ++ len ++ A ++ N`; the withdrawn-routes walk ran over exactly `W`, the attribute walk
    over exactly `A`, the NLRI walk over exactly `N`, each to its last byte; and the reference
    encoding of what was extracted has the length of the input: no byte was skipped and none
    was read twice. -/
theorem decode_consumes_all (p : Params) (bs : Bytes) (hwf : WFBytes bs) (u : UpdateSem)
    (h : decodeUpdate p bs = .ok u) :
    (∃ W A N, bs = be16 W.length ++ (W ++ (be16 A.length ++ (A ++ N))) ∧
      decNlris 1 1 (p.ap 1 1) true W.length W = .ok u.withdrawn ∧
      decAttrs p A.length A = .ok u.attrs ∧
      decNlris 1 1 (p.ap 1 1) false N.length N = .ok u.nlri) ∧
    (encodeUpdate p u).length = bs.length := by
  unfold decodeUpdate at h
  by_cases c : bs.length + 19 > p.msgSize
  · simp [c] at h
  rw [if_neg c] at h
  cases hr : decodeRaw p bs with
  | error e => rw [hr] at h; simp at h
  | ok u' =>
    rw [hr] at h
    cases hs : semErr p u' with
    | some e => simp [hs] at h
    | none =>
      simp only [hs, Except.ok.injEq] at h
      subst h
      exact ⟨decodeRaw_split p bs hwf u' hr, decodeRaw_length p bs u' hr⟩

/-- **RFC 6793 §4.2.3 and §6, on segments.** If AS_PATH counts fewer AS numbers than AS4_PATH, AS4_PATH is
    ignored. Otherwise the result is the leading part of AS_PATH that counts for the difference
    (`takeUnits`: whole segments, the last AS_SEQUENCE possibly cut, its AS numbers a prefix of
    AS_PATH's) followed by the AS_SET and AS_SEQUENCE segments of AS4_PATH (its confederation segments are
    discarded, §6), and it counts exactly as many AS numbers as AS_PATH did. -/
theorem merge_rfc6793 (as2 as4 : List Seg) :
    (pathCount as2 < pathCount as4 → merge6793 as2 as4 = as2) ∧
    (pathCount as4 ≤ pathCount as2 →
      merge6793 as2 as4 = takeUnits (pathCount as2 - pathCount as4) as2 ++ plainSegs as4 ∧
      pathCount (takeUnits (pathCount as2 - pathCount as4) as2) = pathCount as2 - pathCount as4 ∧
      flatAsns (takeUnits (pathCount as2 - pathCount as4) as2) <+: flatAsns as2 ∧
      pathCount (merge6793 as2 as4) = pathCount as2) := by
  constructor
  · intro h; simp [merge6793, h]
  · intro h
    have hn : ¬ pathCount as2 < pathCount as4 := by omega
    have hk := pathCount_takeUnits as2 (pathCount as2 - pathCount as4) (by omega)
    refine ⟨by simp [merge6793, hn], hk, flatAsns_takeUnits_prefix _ _, ?_⟩
    simp only [merge6793, hn, if_false, pathCount_append, hk, pathCount_plainSegs]
    omega

/-- No confederation segment of an AS4_PATH reaches the reported path (RFC 6793 §6): every segment of
    the merged path that is not one of AS_PATH's is an AS_SET or an AS_SEQUENCE. -/
theorem merge_discards_as4_confed (as2 as4 : List Seg) (h : pathCount as4 ≤ pathCount as2) :
    ∃ front, merge6793 as2 as4 = front ++ plainSegs as4 ∧ ∀ s ∈ plainSegs as4, s.1 = 1 ∨ s.1 = 2 := by
  refine ⟨takeUnits (pathCount as2 - pathCount as4) as2, ((merge_rfc6793 as2 as4).2 h).1, ?_⟩
  intro s hs
  have := (List.mem_filter.mp hs).2
  simpa using this

/-- An empty AS4_PATH changes nothing (the case of finding F16). -/
theorem merge_empty_as4 (as2 : List Seg) : merge6793 as2 [] = as2 := by
  simp [merge6793, plainSegs, pathCount, takeUnits_all as2 (pathCount as2) (Nat.le_refl _)]

/-- **End-of-RIB (RFC 4724 §2) is recognised exactly** for: the UPDATE with no withdrawn routes,
    no attribute and no NLRI (IPv4 unicast), and the UPDATE whose only content is one
    MP_UNREACH_NLRI attribute without routes (that attribute's family). -/
theorem eor_iff (u : UpdateSem) (f : Nat × Nat) :
    eorFamily u = some f ↔
      u.withdrawn = [] ∧ u.nlri = [] ∧
        ((u.attrs = [] ∧ f = (1, 1)) ∨
         (∃ fl, u.attrs = [⟨fl, .mpUnreach f.1 f.2 []⟩]) ∨
         (∃ fl, u.attrs = [⟨fl, .mpUnreachRaw f.1 f.2 []⟩])) := by
  obtain ⟨w, as, n⟩ := u
  unfold eorFamily
  cases w with
  | cons x t => simp
  | nil =>
    cases n with
    | cons x t => simp
    | nil =>
      simp only [List.isEmpty_nil, Bool.and_self, if_true, true_and]
      cases as with
      | nil =>
        simp only [Option.some.injEq, true_and]
        constructor
        · intro h; left; exact h.symm
        · rintro (h | ⟨_, h⟩ | ⟨_, h⟩)
          · exact h.symm
          · cases h
          · cases h
      | cons a t =>
        cases t with
        | cons b t' =>
          constructor
          · intro h; cases h
          · rintro (⟨h, _⟩ | ⟨_, h⟩ | ⟨_, h⟩) <;> cases h
        | nil =>
          obtain ⟨fl, v⟩ := a
          obtain ⟨f1, f2⟩ := f
          cases v <;> try (simp; done)
          case mpUnreach afi safi ns =>
            cases ns with
            | nil => simp
            | cons x t => simp
          case mpUnreachRaw afi safi raw =>
            cases raw with
            | nil => simp
            | cons x t => simp

/-- **Nothing invented, dropped or moved (announce side of the Report).** A route is reported as
    announced iff it is in the NLRI field (family IPv4 unicast, next hop = the NEXT_HOP attribute)
    or in an MP_REACH_NLRI attribute (that attribute's family and next hop). -/
theorem report_announce_iff (p : Params) (u : UpdateSem) (x : Nat × Nat × Bytes × Nlri) :
    x ∈ (report p u).announce ↔
      (∃ n ∈ u.nlri, x = (1, 1, (match findNextHop u.attrs with | some ip => be32 ip | none => []), n)) ∨
      (∃ a ∈ u.attrs, ∃ afi safi nh ns, a.val = .mpReach afi safi nh ns ∧
        ∃ n ∈ ns, x = (afi, safi, nhAddr safi nh, n)) := by
  simp only [report, List.mem_append, List.mem_map]
  apply or_congr
  · constructor
    · rintro ⟨n, hn, rfl⟩; exact ⟨n, hn, rfl⟩
    · rintro ⟨n, hn, rfl⟩; exact ⟨n, hn, rfl⟩
  · exact mem_mpAnnounces u.attrs x

/-- **The withdraw side.** A route is reported as withdrawn iff it is in the WITHDRAWN ROUTES field
    (IPv4 unicast) or in an MP_UNREACH_NLRI attribute (that attribute's family); the label field of
    a withdrawal carries no information (RFC 8277 §2.4) and is erased. -/
theorem report_withdraw_iff (p : Params) (u : UpdateSem) (x : Nat × Nat × Nlri) :
    x ∈ (report p u).withdraw ↔
      (∃ n ∈ u.withdrawn, x = (1, 1, eraseLabels n)) ∨
      (∃ a ∈ u.attrs, ∃ afi safi ns, a.val = .mpUnreach afi safi ns ∧
        ∃ n ∈ ns, x = (afi, safi, eraseLabels n)) := by
  simp only [report, List.mem_append, List.mem_map]
  apply or_congr
  · constructor
    · rintro ⟨n, hn, rfl⟩; exact ⟨n, hn, rfl⟩
    · rintro ⟨n, hn, rfl⟩; exact ⟨n, hn, rfl⟩
  · exact mem_mpWithdraws u.attrs x

/-- **Translator obligation (attribute registry).** For every type code M-Wire recognises, ExaBGP
    registers a decoder under exactly the RFC flag class (optional / transitive bits) of
    `specTable`; editing a `FLAG` or dropping a registration in /repo breaks this. -/
theorem attr_table_matches_rfc :
    ∀ r ∈ specTable, ∃ row ∈ Exa.Generated.AttrTable.attrTable,
      row.id = r.1 ∧ row.flag = b2n r.2.1 128 + b2n r.2.2 64 := by decide

/-- **Translator obligation (NLRI registry).** The eight families M-Wire decodes structurally have a
    registered decoder in ExaBGP, the RD size of `Family.size` is the RFC one, and `SAFI.has_label`
    / `has_rd` agree with the RFC layouts used here. -/
theorem family_table_matches_rfc :
    ∀ afi ∈ [1, 2], ∀ safi ∈ [1, 2, 4, 128],
      (afi, safi) ∈ Exa.Generated.FamilyTable.registeredNlri ∧
      (∃ e ∈ Exa.Generated.FamilyTable.familySize, e.1 = afi ∧ e.2.1 = safi ∧ e.2.2.2 = rdBits safi / 8) ∧
      (Exa.Generated.FamilyTable.safiHasLabel.contains safi = hasLabel safi) ∧
      (Exa.Generated.FamilyTable.safiHasRd.contains safi = hasRd safi) := by decide

/-! ### AIGP follows the session (RFC 7311 §3.3)

M-Wire carries AIGP (type 26, optional non-transitive) as the bytes it is. Whether it belongs to the
report is a parameter of the session: `Params.aigp`. The harness builds sessions of both kinds from
real OPENs (`capability aigp`) and compares what ExaBGP reports for type 26 with this. -/

open Exa.WireExa in
/-- AIGP_SESSION disabled: whatever the message carries under type 26 with the flags of RFC 7311
    (optional, non-transitive), nothing is reported for type 26. -/
theorem aigp_absent_when_session_disabled (p : Params) (u : UpdateSem) (hp : p.aigp = false)
    (h : ∀ a ∈ u.attrs, a.code = 26 → a.flags.trans = false ∧ ∃ raw, a.val = .unknown 26 raw) :
    reportAttr p u 26 = none := by
  rw [reportAttr_eq]
  apply findSome_none_of_all
  intro a ha
  by_cases hc : a.code = 26
  · obtain ⟨ht, raw, hv⟩ := h a ha hc
    simp [repAt, reportVal, hv, ht, hp]
  · exact repAt_none p u.attrs 26 a hc

open Exa.WireExa in
/-- AIGP_SESSION enabled: the first attribute of type 26 is reported, with exactly its bytes. -/
theorem aigp_reported_when_session_enabled (p : Params) (u : UpdateSem) (hp : p.aigp = true)
    (pre post : List Attr) (a : Attr) (raw : Bytes) (hu : u.attrs = pre ++ a :: post)
    (hpre : ∀ x ∈ pre, x.code ≠ 26) (hv : a.val = .unknown 26 raw) :
    reportAttr p u 26 = some (.unknown 26 raw) := by
  rw [reportAttr_eq, hu, findSome_append,
    findSome_none_of_all pre _ (fun x hx => repAt_none p _ 26 x (hpre x hx))]
  simp [List.findSome?_cons, repAt, reportVal, hv, hp, aigpCode, AttrVal.code]

/-- Nothing else of the report depends on the AIGP parameter: two sessions that differ in it only
    report the same routes, the same End-of-RIB and, type 26 apart, the same attributes. -/
theorem aigp_changes_type_26_only (p : Params) (u : UpdateSem) (b : Bool) :
    (report { p with aigp := b } u).announce = (report p u).announce ∧
    (report { p with aigp := b } u).withdraw = (report p u).withdraw ∧
    (report { p with aigp := b } u).eor = (report p u).eor ∧
    ∀ a ∈ u.attrs, a.code ≠ 26 → reportVal { p with aigp := b } u.attrs a = reportVal p u.attrs a := by
  refine ⟨rfl, rfl, rfl, ?_⟩
  intro a _ hc
  unfold Attr.code at hc
  unfold reportVal
  cases hv : a.val <;> simp_all [AttrVal.code, aigpCode]

/-! ## Non-vacuity: the hypotheses are satisfiable on non-trivial inputs -/

/-- 2-byte session with ADD-PATH for VPN-IPv4: a labelled VPN route with path id 7, labels
    100/200, an RD, AS_TRANS in AS_PATH with the true path in AS4_PATH, extended-length flag on the
    2-byte ORIGIN, an unknown transitive attribute with the Partial bit, plus a labelled IPv6
    withdrawal (0x800000 form), an IPv4 withdrawn route and an IPv4 NLRI. -/
def pEx : Params := { asn4 := false, addpath := [(1, 128)], extnh := [], msgSize := 4096 }
def uEx : UpdateSem :=
  { withdrawn := [{ pathId := none, labels := [], rd := [], plen := 8, pfx := [10] }],
    attrs :=
      [ ⟨⟨false, true, false, true⟩, .origin 0⟩,
        ⟨⟨false, true, false, false⟩, .asPath [(2, [65002, 23456, 3])]⟩,
        ⟨⟨false, true, false, false⟩, .nextHop 0x0A000001⟩,
        ⟨⟨true, false, false, false⟩,
          .mpReach 1 128 [0, 0, 0, 0, 0, 0, 0, 0, 10, 0, 0, 1]
            [{ pathId := some 7, labels := [100, 200], rd := [0, 0, 253, 232, 0, 0, 0, 1], plen := 24, pfx := [10, 0, 0] }]⟩,
        ⟨⟨true, true, false, false⟩, .as4Path [(2, [70000, 3])]⟩,
        ⟨⟨true, true, true, false⟩, .unknown 99 [1, 2, 3]⟩,
        ⟨⟨true, false, false, true⟩,
          .mpUnreach 2 4 [{ pathId := none, labels := [], rd := [], plen := 64, pfx := [32, 1, 13, 184, 0, 0, 0, 0] }]⟩ ],
    nlri := [{ pathId := none, labels := [], rd := [], plen := 24, pfx := [192, 168, 1] }] }

example : decodeUpdate pEx (encodeUpdate pEx uEx) = .ok uEx := by decide
example : (encodeUpdate pEx uEx).length = 113 := by decide
example : semErr pEx uEx = none := by decide
example : ∀ a ∈ uEx.attrs, flagErr a.flags a.val.code = none := by decide
/-- the canonical RFC 6793 case (finding F20): AS_PATH [65002, AS_TRANS, 3] + AS4_PATH [70000, 3] -/
example : merge6793 [(2, [65002, 23456, 3])] [(2, [70000, 3])] = [(2, [65002]), (2, [70000, 3])] := by decide
example : merge6793 [(3, [64512, 23456]), (2, [23456, 3])] [(3, [64512, 70001]), (2, [70000, 3])] =
    [(3, [64512, 23456]), (2, [70000, 3])] := by decide
example : (report pEx uEx).attrs.head? = some (.origin 0) := by decide
example : ((report pEx uEx).attrs.filterMap (fun v => match v with | .asPath s => some s | _ => none)) =
    [[(2, [65002]), (2, [70000, 3])]] := by decide
example : Exa.WireExa.reportAttr { pEx with aigp := true } { uEx with attrs := uEx.attrs ++ [⟨⟨true, false, false, false⟩, .unknown 26 [1, 0, 11, 0, 0, 0, 0, 0, 0, 0, 100]⟩] } 26
    = some (.unknown 26 [1, 0, 11, 0, 0, 0, 0, 0, 0, 0, 100]) := by decide
example : Exa.WireExa.reportAttr pEx { uEx with attrs := uEx.attrs ++ [⟨⟨true, false, false, false⟩, .unknown 26 [1, 0, 11, 0, 0, 0, 0, 0, 0, 0, 100]⟩] } 26 = none := by decide
example : (report pEx uEx).announce.length = 2 ∧ (report pEx uEx).withdraw.length = 2 := by decide
/-- a set counts for one, a confederation segment for none, the cut falls inside a sequence -/
example : merge6793 [(3, [64512]), (2, [1, 2, 3]), (1, [5, 6]), (2, [9])] [(2, [70000, 9])] =
    [(3, [64512]), (2, [1, 2, 3]), (2, [70000, 9])] := by decide
/-- AS_PATH shorter than AS4_PATH: AS4_PATH ignored -/
example : merge6793 [(2, [1])] [(2, [70000, 9])] = [(2, [1])] := by decide
/-- End-of-RIB: the 4-byte IPv4 form and the 11-byte MP_UNREACH form, from the wire -/
example : (decodeUpdate pEx [0, 0, 0, 0]).toOption.map eorFamily = some (some (1, 1)) := by decide
example : (decodeUpdate pEx [0, 0, 0, 7, 0x90, 15, 0, 3, 0, 2, 1]).toOption.map eorFamily = some (some (2, 1)) := by decide
/-- an UPDATE that withdraws one route is not an End-of-RIB -/
example : (decodeUpdate pEx [0, 0, 0, 8, 0x90, 15, 0, 4, 0, 2, 1, 0]).toOption.map eorFamily = some none := by decide
/-- errors: attribute length overrunning the block, flags in conflict, ORIGIN 9, duplicate attribute -/
example : decodeUpdate pEx [0, 0, 0, 4, 0x40, 1, 2, 0] = .error (3, 1) := by decide
example : decodeUpdate pEx [0, 0, 0, 4, 0x80, 1, 1, 0] = .error (3, 4) := by decide
example : decodeUpdate pEx [0, 0, 0, 4, 0x40, 1, 1, 9] = .error (3, 6) := by decide
example : decodeUpdate pEx [0, 0, 0, 8, 0x40, 1, 1, 0, 0x40, 1, 1, 0] = .error (3, 1) := by decide

end Exa.Props.C02
