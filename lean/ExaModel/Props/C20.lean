import ExaModel.Lemmas.HealthSpec
import ExaModel.Generated.HealthTable
import ExaModel.Lemmas.HealthPy
set_option linter.unusedSimpArgs false
/-!
# C20 — Healthcheck rise/fall hysteresis

Statement (properties.jsonl): for any sequence of check results and disable-file states, the
healthcheck helper switches to the "up" announcement only after `rise` consecutive successes and to
the "down" announcement or withdrawal only after `fall` consecutive failures, never changes what it
announces on a single contrary result when rise and fall exceed one, and withdraws its routes on
exit.  Every line it writes is a syntactically valid ExaBGP API command carrying the configured
metric, communities, AS path and next hop for that state.

Model: `Exa.Health` (M-Health), our reading of `healthcheck.loop` (`one`, `trigger`, `exabgp`, the
`while True` loop).  `run c hist` is the program after the iterations `hist` (one `Inp` per
iteration: what `os.path.exists(disable)` and `check()` returned); `(run c hist).ann` is the last
target among UP/DOWN/DISABLED handed to `exabgp()`, i.e. what the daemon was last told
(`c20_written_is_announced` ties it to the lines actually written).  A *success* is an iteration
that is not disabled and whose check passed (`Inp.good`), a *failure* one that is not disabled and
whose check failed (`Inp.bad`).  Everything is for ALL configurations (any `rise`/`fall` in ℤ,
debounce on or off, withdraw-on-down on or off, any ips/neighbors/attributes) and ALL histories.

What is a theorem and what is not: the automaton half of the statement and the *content* of every
line (closed form `specCmd`) are theorems below.  "Syntactically valid ExaBGP API command" is a
statement about the daemon's grammar, which is not modelled here: it is decided on every run by
giving each line the real helper writes to the real daemon-side `API.process` (harness, C20.py).

Tie to the source at proof level: `Generated/PyHealth.lean` is `trigger` and `one` of `healthcheck.loop`
translated statement by statement on every run (`harness/pylite.py`, DESIGN 10.6c); `c20_py_trigger` and
`c20_py_one` prove that the translated functions compute exactly the model's `trigger` and `fsm`/`one`/
`handed` for every configuration, loop state and input — so the automaton theorems below are about the
code as it is on this run, and an edit of the state machine breaks these obligations directly.
-/
namespace Exa.Props.C20
open Exa Exa.Health

/-! ## The tables of the source are the ones the model was written against -/

/-- The `States` enum, the targets for which `exabgp()` writes, the states with the fast sleep and
    the argparse defaults regenerated from /repo are those of the model. -/
theorem c20_tables :
    Generated.HealthTable.states = St.all.map St.name ∧
    St.all.map (fun t => (t.writes, t.fastSleep)) =
      St.all.map (fun t =>
        (Generated.HealthTable.exabgpHandled.contains t.name && !Generated.HealthTable.exabgpSilent.contains t.name,
         Generated.HealthTable.fastSleepStates.contains t.name)) ∧
    (({} : Cfg).rise, ({} : Cfg).fall, ({} : Cfg).upMetric, ({} : Cfg).downMetric,
      ({} : Cfg).disabledMetric, ({} : Cfg).increase, ({} : Cfg).localPref) =
    (Generated.HealthTable.defaultRise, Generated.HealthTable.defaultFall,
      Generated.HealthTable.defaultUpMetric, Generated.HealthTable.defaultDownMetric,
      Generated.HealthTable.defaultDisabledMetric, Generated.HealthTable.defaultIncrease,
      Generated.HealthTable.defaultLocalPreference) := by decide

/-- **The model is the code** (1/2): `trigger`, translated from /repo on this run, is the model's
    `trigger` (states numbered in the order of `class States`, `c20_py_states`). -/
theorem c20_py_trigger (c : Cfg) (t : St) :
    Generated.PyHealth.Health.trigger t.code c.rise c.fall = (trigger c t).code :=
  py_trigger_eq_model c t

theorem c20_py_states : Generated.PyHealth.stateNames = St.all.map St.name := stateNames_eq

/-- **The model is the code** (2/2): `one(checks, state)`, translated from /repo on this run, returns
    the model's `(checks, state)` and hands to `exabgp` exactly the model's `handed` — or raises
    `ValueError` exactly where the model flags the unhandled state (unreachable:
    `c20_unhandled_unreachable`). -/
theorem c20_py_one (c : Cfg) (l : Loop) (i : Inp) (e0 : Int) :
    Generated.PyHealth.Health.one ⟨e0⟩ l.checks l.st.code c.rise c.fall c.debounce c.hasDisable i.file i.ok =
      if (fsm c l i).2.2 then .raise (-1) (-1)
      else .ret ((one c l i).checks, (one c l i).st.code)
        ⟨match handed c l i with | some t => t.code | none => e0⟩ := by
  rw [py_one_eq_model]
  cases h : (fsm c l i).2.2
  · rw [pyOfFsm_emitted c l i e0 h]; simp; cases handed c l i <;> rfl
  · simp [pyOfFsm, h]

/-- `St.all` is every state (so the table theorem covers the whole enum). -/
theorem c20_states_complete (t : St) : t ∈ St.all := by cases t <;> decide

/-! ## The totalised branch is unreachable -/

/-- `one` raises `ValueError('Unhandled state')` for EXIT and END; the model returns the loop
    variables unchanged there.  That branch is never taken: after any history the loop state is
    one of the six handled states and `fsm` does not flag the next iteration. -/
theorem c20_unhandled_unreachable (c : Cfg) (hist : List Inp) (i : Inp) :
    (run c hist).loop.st ≠ .exit ∧ (run c hist).loop.st ≠ .end_ ∧
    (fsm c (run c hist).loop i).2.2 = false := by
  have h := (inv_run c hist).loop.handled
  exact ⟨h.1, h.2, fsm_handled c _ i h⟩

/-! ## Hysteresis -/

/-- **Up only after `rise` consecutive successes.**  If before an iteration the daemon was not told
    UP and after it it is, then the history ends with `max rise 1` consecutive successes (that
    iteration included). -/
theorem c20_up_needs_rise (c : Cfg) (pre : List Inp) (i : Inp)
    (hbefore : (run c pre).ann ≠ some .up) (hafter : (run c (pre ++ [i])).ann = some .up) :
    ∃ before window, pre ++ [i] = before ++ window ∧ (window.length : Int) = max c.rise 1 ∧
      ∀ x ∈ window, x.good c = true := by
  have hinv := inv_run c pre
  rw [run_snoc] at hafter
  have hne : ((run c pre).step c i).ann ≠ (run c pre).ann := by
    rw [hafter]; exact fun h => hbefore h.symm
  obtain ⟨h1, _, h3⟩ := ann_change c pre (run c pre) i hinv hne
  have hst : (one c (run c pre).loop i).st = .up := by
    rw [hafter] at h1; exact (Option.some.inj h1).symm
  have hstreak := enter_up c pre (run c pre).loop i hinv.loop (by rw [hst] at h3; exact h3) hst
  obtain ⟨b, w, hw1, hw2, hw3⟩ := trailing_window (Inp.good c) (pre ++ [i]) (max c.rise 1).toNat (by omega)
  exact ⟨b, w, hw1, by omega, hw3⟩

/-- **Down (announcement with the down metric, or withdrawal under `--withdraw-on-down`) only after
    `fall` consecutive failures.** -/
theorem c20_down_needs_fall (c : Cfg) (pre : List Inp) (i : Inp)
    (hbefore : (run c pre).ann ≠ some .down) (hafter : (run c (pre ++ [i])).ann = some .down) :
    ∃ before window, pre ++ [i] = before ++ window ∧ (window.length : Int) = max c.fall 1 ∧
      ∀ x ∈ window, x.bad c = true := by
  have hinv := inv_run c pre
  rw [run_snoc] at hafter
  have hne : ((run c pre).step c i).ann ≠ (run c pre).ann := by
    rw [hafter]; exact fun h => hbefore h.symm
  obtain ⟨h1, _, h3⟩ := ann_change c pre (run c pre) i hinv hne
  have hst : (one c (run c pre).loop i).st = .down := by
    rw [hafter] at h1; exact (Option.some.inj h1).symm
  have hstreak := enter_down c pre (run c pre).loop i hinv.loop (by rw [hst] at h3; exact h3) hst
  obtain ⟨b, w, hw1, hw2, hw3⟩ := trailing_window (Inp.bad c) (pre ++ [i]) (max c.fall 1).toNat (by omega)
  exact ⟨b, w, hw1, by omega, hw3⟩

/-- The only other change of announcement, to DISABLED, happens exactly when the disable file is
    seen — never because of a check result. -/
theorem c20_disabled_needs_file (c : Cfg) (pre : List Inp) (i : Inp)
    (hbefore : (run c pre).ann ≠ some .disabled) (hafter : (run c (pre ++ [i])).ann = some .disabled) :
    i.disabled c = true := by
  have hinv := inv_run c pre
  rw [run_snoc] at hafter
  have hne : ((run c pre).step c i).ann ≠ (run c pre).ann := by
    rw [hafter]; exact fun h => hbefore h.symm
  obtain ⟨h1, _, h3⟩ := ann_change c pre (run c pre) i hinv hne
  have hst : (one c (run c pre).loop i).st = .disabled := by
    rw [hafter] at h1; exact (Option.some.inj h1).symm
  exact enter_disabled c (run c pre).loop i (by rw [hst] at h3; exact h3) hst

/-- What the daemon was told is always one of UP, DOWN, DISABLED (or nothing yet), so the three
    theorems above cover every change of announcement. -/
theorem c20_ann_targets (c : Cfg) (hist : List Inp) (a : St) (h : (run c hist).ann = some a) :
    a = .up ∨ a = .down ∨ a = .disabled := by
  have := ann_from_isAnnounce c hist {} (by simp) a h
  revert this; cases a <;> simp [St.isAnnounce]

/-- **A single contrary result changes nothing when rise and fall exceed one.**  An iteration `i`
    (not disabled) whose result differs from the previous iteration's — a failure right after a
    success, a success right after a failure, or the first result after the disable file went
    away — writes no line at all and leaves what the daemon was told unchanged. -/
theorem c20_single_contrary_no_change (c : Cfg) (hr : 1 < c.rise) (hf : 1 < c.fall)
    (pre : List Inp) (p i : Inp) (hi : i.disabled c = false)
    (hsingle : p.disabled c = true ∨ (p.good c = true ∧ i.bad c = true) ∨ (p.bad c = true ∧ i.good c = true)) :
    (run c (pre ++ [p, i])).ann = (run c (pre ++ [p])).ann ∧
    stepLines c (run c (pre ++ [p])).loop i = [] := by
  have hsplit : pre ++ [p, i] = (pre ++ [p]) ++ [i] := by simp
  rw [hsplit, run_snoc c (pre ++ [p]) i]
  have h0 := (inv_run c pre).loop.handled
  have hq : (one c (run c (pre ++ [p])).loop i).st.writes = false := by
    rw [run_snoc c pre p]
    simp only [Run.step]
    rcases hsingle with hd | ⟨hg, hb⟩ | ⟨hb, hg⟩
    · rw [leave_disabled c _ i (one_disabled_target c _ p hd) hi]; rfl
    · rw [bad_after_high c _ i hf (one_good_target c _ p hr h0 hg) hb]; rfl
    · rw [good_after_low c _ i hr (one_bad_target c _ p hf h0 hb) hg]; rfl
  have := quiet_step c (run c (pre ++ [p])) i hq
  exact ⟨this.2, this.1⟩

/-- The same for the very first result of the program: nothing is announced on one result. -/
theorem c20_first_result_quiet (c : Cfg) (hr : 1 < c.rise) (hf : 1 < c.fall) (i : Inp)
    (hi : i.disabled c = false) :
    (run c [i]).ann = none ∧ stepLines c {} i = [] := by
  have hq : (one c ({} : Run).loop i).st.writes = false := by
    cases hok : i.ok
    · rw [bad_after_high c _ i hf (Or.inr (Or.inr rfl)) (by simp [Inp.bad, hi, hok])]; rfl
    · rw [good_after_low c _ i hr (Or.inr (Or.inr rfl)) (by simp [Inp.good, hi, hok])]; rfl
  have := quiet_step c {} i hq
  exact ⟨this.2, this.1⟩

/-- **`ann` is what is written.**  An iteration writes nothing, or exactly the lines of one target
    among UP/DOWN/DISABLED, and then that target is what `ann` says. -/
theorem c20_written_is_announced (c : Cfg) (pre : List Inp) (i : Inp) :
    stepLines c (run c pre).loop i = [] ∨
    ∃ t, (t = .up ∨ t = .down ∨ t = .disabled) ∧ (run c (pre ++ [i])).ann = some t ∧
      stepLines c (run c pre).loop i = exabgpLines c t := by
  rcases written_is_announced c pre (run c pre) i (inv_run c pre) with h | ⟨t, h1, h2, h3⟩
  · exact Or.inl h
  · refine Or.inr ⟨t, ?_, by rw [run_snoc]; exact h2, h3⟩
    revert h1; cases t <;> simp [St.isAnnounce]

/-! ## Exit -/

/-- **Routes are withdrawn on exit.**  When the program is ended (KeyboardInterrupt in the sleep,
    or SIGTERM) after any iterations, the last thing it writes is one `withdraw` per configured
    ip, in order, for the configured neighbors, whatever was announced before.  (`--interval 0`
    is the documented one-shot mode that ends with END and leaves the routes: excluded.) -/
theorem c20_exit_withdraws (c : Cfg) (hz : c.intervalZero = false) (inputs : List Inp) :
    mainLoop c {} inputs = linesFrom c {} inputs ++ exabgpLines c .exit ∧
    exabgpLines c .exit = c.ips.map (fun ip => " ".intercalate
      ([selector c, "withdraw", "route", ip, "next-hop", c.nextHop.getD "self"]
        ++ optInt "path-information" (pathIdOf c))) := by
  refine ⟨mainLoop_eq c hz {} inputs, ?_⟩
  simp [exabgpLines, St.writes, exabgpLoop_exit]

/-! ## Content of the lines -/

/-- **Every line carries the configured fields for its state.**  The `k`-th line written for a
    target is the rendering of `specCmd`: selector of the configured neighbors, announce/withdraw,
    the `k`-th ip, the configured next hop, metric of that state + `k`·increase, the state's
    community and AS path, local preference, extended/large communities, path id. -/
theorem c20_command_fields (c : Cfg) (t : St) (ht : t.writes = true) (k : Nat) :
    (exabgpLines c t)[k]? = (c.ips[k]?).map (fun ip => (specCmd c t k ip).render) := by
  rw [exabgpLines_spec c t ht, List.getElem?_mapIdx]

/-- …and there is exactly one line per configured ip. -/
theorem c20_one_line_per_ip (c : Cfg) (t : St) (ht : t.writes = true) :
    (exabgpLines c t).length = c.ips.length := by
  rw [exabgpLines_spec c t ht, List.length_mapIdx]

/-- **Every line the program ever writes** — during any iterations, with or without
    `--interval 0`, and on exit — is the rendering of the configured command of one of the writing
    targets (UP, DOWN, DISABLED, EXIT) for one of the configured ips. -/
theorem c20_every_line_is_configured (c : Cfg) (inputs : List Inp) (ln : String)
    (h : ln ∈ mainLoop c {} inputs) :
    ∃ t k ip, t.writes = true ∧ c.ips[k]? = some ip ∧ ln = (specCmd c t k ip).render := by
  obtain ⟨t, ht⟩ := mem_mainLoop c {} inputs ln h
  obtain ⟨hw, k, ip, h1, h2⟩ := mem_exabgpLines c t ln ht
  exact ⟨t, k, ip, hw, h1, h2⟩

/-! ## Non-vacuity: the hypotheses are met, and the switches do happen, on concrete histories -/

def s : Inp := { file := false, ok := true }    -- success
def f : Inp := { file := false, ok := false }   -- failure
def d : Inp := { file := true, ok := false }    -- disable file present

def demo : Cfg :=
  { rise := 3, fall := 2, hasDisable := true, ips := ["192.0.2.1/32", "2001:db8::1/128"],
    nextHop := some "10.9.9.9", community := some "65000:1 65000:2", disabledCommunity := some "65000:666",
    upAsPath := some "65000 65001", asPath := some "65009", neighbors := ["10.0.0.1"], pathId := some 7,
    localPref := 200 }

-- c20_up_needs_rise: not up after two successes, up after the third
example : (run demo [s, s]).ann ≠ some .up ∧ (run demo ([s, s] ++ [s])).ann = some .up := by decide
-- a failure in between restarts the count
example : (run demo [s, s, f, s, s]).ann = none := by decide
-- c20_down_needs_fall: up, one failure keeps up, the second switches to down
example : (run demo [s, s, s, f]).ann = some .up ∧ (run demo ([s, s, s, f] ++ [f])).ann = some .down := by decide
-- c20_disabled_needs_file, and coming back needs the full rise again
example : (run demo [s, s, s]).ann ≠ some .disabled ∧ (run demo ([s, s, s] ++ [d])).ann = some .disabled := by decide
example : (run demo [s, s, s, d, s, s, s]).ann = some .disabled ∧ (run demo [s, s, s, d, s, s, s, s]).ann = some .up := by decide
-- c20_single_contrary_no_change: hypotheses satisfiable (rise, fall > 1; a failure after a success)
example : 1 < demo.rise ∧ 1 < demo.fall ∧ f.disabled demo = false ∧ s.good demo = true ∧ f.bad demo = true := by decide
example : (run demo ([s, s] ++ [s, f])).ann = (run demo ([s, s] ++ [s])).ann ∧
    stepLines demo (run demo ([s, s] ++ [s])).loop f = [] := by decide
-- with rise = fall = 1 a single result does switch (the hypothesis matters)
example : (run { demo with rise := 1, fall := 1 } [s, f]).ann = some .down := by decide
-- the lines
set_option maxRecDepth 8000
example : exabgpLines demo .up =
    ["peer 10.0.0.1 announce route 192.0.2.1/32 next-hop 10.9.9.9 med 100 local-preference 200 community [ 65000:1 65000:2 ] as-path [ 65000 65001 ] path-information 7",
     "peer 10.0.0.1 announce route 2001:db8::1/128 next-hop 10.9.9.9 med 101 local-preference 200 community [ 65000:1 65000:2 ] as-path [ 65000 65001 ] path-information 7"] := by decide
example : exabgpLines demo .down =
    ["peer 10.0.0.1 announce route 192.0.2.1/32 next-hop 10.9.9.9 med 1000 local-preference 200 community [ 65000:666 ] as-path [ 65009 ] path-information 7",
     "peer 10.0.0.1 announce route 2001:db8::1/128 next-hop 10.9.9.9 med 1001 local-preference 200 community [ 65000:666 ] as-path [ 65009 ] path-information 7"] := by decide
example : exabgpLines { demo with withdrawOnDown := true } .down =
    ["peer 10.0.0.1 withdraw route 192.0.2.1/32 next-hop 10.9.9.9 path-information 7",
     "peer 10.0.0.1 withdraw route 2001:db8::1/128 next-hop 10.9.9.9 path-information 7"] := by decide
example : mainLoop demo {} [s, s, s] = exabgpLines demo .up ++
    ["peer 10.0.0.1 withdraw route 192.0.2.1/32 next-hop 10.9.9.9 path-information 7",
     "peer 10.0.0.1 withdraw route 2001:db8::1/128 next-hop 10.9.9.9 path-information 7"] := by decide
example : (specCmd demo .up 1 "2001:db8::1/128").med = some 101 ∧
    (specCmd demo .down 0 "x").community = some "65000:666" ∧
    (specCmd demo .disabled 0 "x").asPath = some "65009" := by decide
/-- F14 repaired: two neighbors give the bracket selector the daemon parses. -/
example : selector { demo with neighbors := ["10.0.0.1", "10.0.0.2"] } = "peer [ 10.0.0.1 , 10.0.0.2 ]" := by decide

end Exa.Props.C20
