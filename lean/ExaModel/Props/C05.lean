import ExaModel.Lemmas.SessionCheck
import ExaModel.Lemmas.PeerPy
import ExaModel.Generated.FsmTable
set_option linter.unusedSimpArgs false
set_option linter.unusedVariables false
/-!
# C05 — the session state machine only takes RFC 4271 transitions

Statement (properties.jsonl): under every interleaving of connection events, received messages,
timer expiries and API teardown or reload requests, a peer session moves only along the RFC 4271
state transitions; it reaches ESTABLISHED only after sending its OPEN, receiving and validating
the peer OPEN and receiving a KEEPALIVE, and it sends no UPDATE, End-of-RIB or ROUTE-REFRESH in
any other state.  Whenever it leaves a connected state the transport is closed, and on the API
every "up" of a neighbor is followed by a "down" before its next "up".

Model: `Exa.Session` (M-Session): `run (init cfg rib) evs` executes ANY list of events (no bound);
the trace is everything `Peer` did: FSM changes `fsm a b`, writes `send c kind state`, `close c`,
API `up` / `down`.  The model follows the coroutine of `peer.py`, including the fact that
`handle_connection` and `_stop` replace `peer.proto` under a suspended coroutine (finding F30).
`FSM.transition` is not enforced by `FSM.change()` (`table_not_enforced`), so the table theorem
alone would say nothing: the trace theorems carry the property.
-/
namespace Exa.Props.C05
open Exa Exa.Session

/-- `FSM.STATE` values (checked against the generated table below). -/
def ofValue : Nat → Option Fsm
  | 1 => some .idle | 2 => some .active | 4 => some .connect
  | 8 => some .opensent | 16 => some .openconfirm | 32 => some .established
  | _ => none

/-- one row `(to, [from, ...])` of `FSM.transition` only lists RFC 4271 §8.2.2 transitions. -/
def rowOk (row : Nat × List Nat) : Bool :=
  row.2.all fun f =>
    match ofValue f, ofValue row.1 with
    | some a, some b => decide ((a, b) ∈ rfcTable)
    | _, _ => false

/-- the state names and values in the source are the six RFC 4271 states the model uses. -/
theorem states_are_rfc :
    Generated.FsmTable.states =
      [("IDLE", 1), ("ACTIVE", 2), ("CONNECT", 4), ("OPENSENT", 8), ("OPENCONFIRM", 16), ("ESTABLISHED", 32)] := by
  decide

/-- **the table in the source is a subset of the RFC 4271 §8.2.2 table** (generated from
    `FSM.transition` on every run; editing the table in /repo breaks this). -/
theorem table_subset_rfc : ∀ row ∈ Generated.FsmTable.transition, rowOk row = true := by decide

/-- ... and `FSM.change()` does not enforce it: the check is commented out. (If it becomes
    enforced this obligation breaks and the model must be revisited.) -/
theorem table_not_enforced : Generated.FsmTable.enforced = false := by decide

/-- the trace of a run from the initial state. -/
abbrev trace (cfg : Cfg) (rib : Bool) (evs : List Event) : List Out := (run (init cfg rib) evs).2

/-- **C05, transitions (full).** Whatever the events and their order, every change of the FSM
    variable the peer makes is a transition of RFC 4271 §8.2.2. -/
theorem only_rfc_transitions (cfg : Cfg) (rib : Bool) (evs : List Event) :
    ∀ a b, Out.fsm a b ∈ trace cfg rib evs → (a, b) ∈ rfcTable := by
  obtain ⟨g, h⟩ := run_accepted cfg rib evs
  exact accepted_fsm_rfc h

/-- ... and the `from` of each change really is the state the previous changes led to, as is
    the state every write is labelled with (so the two theorems around this one speak about the
    true state). -/
theorem labels_are_the_state (cfg : Cfg) (rib : Bool) (evs : List Event) (xs ys : List Out) (o : Out)
    (h : trace cfg rib evs = xs ++ o :: ys) :
    (∀ a b, o = .fsm a b → a = fsmAfter .idle xs) ∧ (∀ c k st, o = .send c k st → st = fsmAfter .idle xs) := by
  obtain ⟨g, hg⟩ := run_accepted cfg rib evs
  simp only [trace] at h
  rw [h] at hg
  exact accepted_labels hg

/-- **C05, ESTABLISHED (full).** In every reachable state, ESTABLISHED means: there is a
    connection, the coroutine is in the main loop on that connection, our OPEN was written on it,
    the peer's OPEN was read from it and validated, and a KEEPALIVE was read from it after that. -/
theorem established_requires (cfg : Cfg) (rib : Bool) (evs : List Event) :
    let s := (run (init cfg rib) evs).1
    s.fsm = .established →
      ∃ k, s.conn = some k ∧ s.pc = .mainLoop k.id ∧ k.openSent = true ∧ k.openRecv = true ∧ k.kaRecv = true := by
  intro s hf
  have hinv : Inv s := run_inv evs _ (inv_init cfg rib)
  obtain ⟨k, hk, hp⟩ := hinv.established hf
  obtain ⟨_, h1, h2, h3⟩ := hinv.main k.id k hp hk rfl
  exact ⟨k, hk, hp, h1, h2, h3⟩

/-- **C05, no UPDATE / End-of-RIB / ROUTE-REFRESH outside ESTABLISHED (full).** For every list of
    events, every write of one of these kinds is labelled ESTABLISHED (and by `labels_are_the_state`
    the label is the FSM state at that moment).  Until /repo 3a62d00 this was false (F30 family,
    F88): the main loop of a session whose transport had been dropped by `shutdown()` went on
    writing on a connection adopted meanwhile; it now ends with `Interrupted`. -/
theorem send_only_established (cfg : Cfg) (rib : Bool) (evs : List Event) :
    ∀ c k st, Out.send c k st ∈ trace cfg rib evs → isData k = true → st = .established := by
  obtain ⟨g, h⟩ := run_accepted_strict cfg rib evs
  exact accepted_data_established h

def plain : Cfg := { passive := false, maxAttempts := 0, hold0 := false, graceful := false }

/-- F88 repaired: `shutdown()`, `reestablish()` re-arms the peer, an incoming connection is adopted
    before the old loop's next iteration — which now writes nothing on it and closes it
    (`corpus/C05/f30-refresh-in-idle-rearmed.json`). -/
example :
    (step (run (init plain false) [.start, .connectOk, .recv 1 (.openOk false), .recv 1 .keepalive, .queueRefresh, .stop,
        .reestablish, .incoming]).1 .tick).2 = [.fsm .idle .idle, .close 2] := by
  decide

/-- ... and without the re-arming the stopped peer refuses the connection (/repo 4250e99). -/
example :
    (step (run (init plain false) [.start, .connectOk, .recv 1 (.openOk false), .recv 1 .keepalive, .queueRefresh, .stop]).1
      .incoming).2 = [.reject 2, .close 2] := by
  decide

/-- **C05, leaving a connected state (full, as a state invariant).** In every reachable state in
    which the FSM is not in CONNECT / OPENSENT / OPENCONFIRM / ESTABLISHED, the peer holds no
    transport on which it has spoken: `peer.proto` is absent or a connection just adopted on which
    nothing was written.  (The model drops `peer.proto` in three places only — `closeConn`, a failed
    write in `sendOn`, the replacement in `connectOk` — and each emits `close c`.) -/
theorem leave_closes (cfg : Cfg) (rib : Bool) (evs : List Event) :
    let s := (run (init cfg rib) evs).1
    isConnected s.fsm = false → ∀ k, s.conn = some k → k.openSent = false := by
  intro s hf k hk
  have hinv : Inv s := run_inv evs _ (inv_init cfg rib)
  refine hinv.quietFresh ?_ k hk
  cases hs : s.fsm <;> simp [hs, isConnected] at hf ⊢

/-- ... and every connection the peer ever had (ids 1, 2, … in order of creation) is either
    `peer.proto` now or was closed: its `close` is in the trace.  With `leave_closes`: outside the
    connected states every transport on which the peer ever wrote has been closed. -/
theorem transports_closed_or_current (cfg : Cfg) (rib : Bool) (evs : List Event) :
    let s := (run (init cfg rib) evs).1
    ∀ i, 0 < i → i < s.nextId → (∃ k, s.conn = some k ∧ k.id = i) ∨ Out.close i ∈ trace cfg rib evs := by
  intro s i h0 hi
  exact run_transports_accounted cfg rib evs i h0 hi

/-- **C05, API (full).** Between two `up` of the neighbor there is a `down`. -/
theorem up_down_alternate (cfg : Cfg) (rib : Bool) (evs : List Event) (xs ys zs : List Out)
    (h : trace cfg rib evs = xs ++ Out.up :: ys ++ Out.up :: zs) : Out.down ∈ ys := by
  obtain ⟨g, hg⟩ := run_accepted cfg rib evs
  simp only [trace] at h
  rw [h] at hg
  exact accepted_up_down hg

/-- **The model is the code** (an incoming connection): `Peer.handle_connection`, translated statement by
    statement from /repo on this run (`harness/pylite.py` → `Generated/PyPeer.lean`) and run on the state of
    M-Session, refuses the connection exactly when the model's `refuses` holds — with NOTIFICATION 6/3 when
    `stop()` ran, 6/7 otherwise (ESTABLISHED, or OPENCONFIRM and the peer's identifier is the lower one) — and
    otherwise adopts it after closing the connection in hand exactly when there was one.  The trace theorems
    above go through `handleConnection`, which branches on `refuses`: a dropped test, a swapped comparison of
    the identifiers or a changed order in the code breaks this obligation directly. -/
theorem handle_connection_py_is_model (s : State) :
    (refuses s = true → pyHandle s = .raise 6 (if (!s.restart && s.teardown.isSome) then 3 else 7)) ∧
    (refuses s = false → pyHandle s = .ret () ⟨s.restart, true, s.conn.isSome⟩) :=
  py_handle_refuses s

/-- **The model is the code** (`exabgp.tcp.attempts`, the end of a session): `Peer.can_reconnect` and
    `Peer._reset`, translated from /repo on this run, compute `canReconnect` and the state part of `resetP` of
    the model (the connection is closed in every case; the pending teardown is forgotten and the RIB reset
    exactly when the peer restarts). -/
theorem can_reconnect_py_is_model (s : State) :
    Generated.PyPeer.Attempts.can_reconnect ⟨s.cfg.maxAttempts, s.attempts⟩ =
      .ret (canReconnect s) ⟨s.cfg.maxAttempts, s.attempts⟩ :=
  py_can_reconnect_eq_model s

theorem reset_py_is_model (restart teardownSet : Bool) :
    Generated.PyPeer.Reset._reset ⟨restart, teardownSet, false, false⟩ false =
      .ret () ⟨restart, (if restart then false else teardownSet), true, restart⟩ :=
  py_reset_eq_model restart teardownSet

/-- **The model is the code** (`teardown`, `reestablish`, `stop` — what the API and the reactor ask of a peer):
    the three methods, translated from /repo on this run, leave `_teardown` / `_restart` (and, for `stop`, the FSM)
    exactly as the model's `.teardown code`, `.reestablish` and `stopP` do. -/
theorem control_py_is_model (s : State) (code : Nat) :
    Generated.PyPeer.Control.teardown (ctl s false) code true = .ret () (ctl (react s (.teardown code)).1 false) ∧
    Generated.PyPeer.Control.reestablish (ctl s false) = .ret () (ctl (react s .reestablish).1 false) ∧
    Generated.PyPeer.Control.stop (ctl s false) = .ret () (ctl (stopP s).1 true) :=
  ⟨py_teardown_eq_model s code, py_reestablish_eq_model s, (py_stop_eq_model s).1⟩

/-- **The model is the code** (leaving a session): `Peer._close`, translated from /repo on this run and run on the
    state of M-Session, calls `processes.down` exactly when the FSM is beyond ACTIVE and the neighbor reports its
    changes, sends the FSM to IDLE, closes the connection in hand exactly when there is one and leaves none — and
    `closeP` of the model writes `down` exactly then (API process alive), ends in IDLE without a connection and
    emits `close` exactly then.  `leave_closes` and `up_down_alternate` above go through `closeP`. -/
theorem close_py_is_model (s : State) :
    pyClose s = .ret () ⟨false, (!(s.fsm == .idle || s.fsm == .active)) && s.cfg.changes, true, s.conn.isSome⟩ ∧
    (Out.down ∈ (closeP s).2 ↔ ((!(s.fsm == .idle || s.fsm == .active)) && s.cfg.changes) = true ∧ s.dead = false) ∧
    (closeP s).1.fsm = .idle ∧ (closeP s).1.conn = none ∧
    ((∃ i, Out.close i ∈ (closeP s).2) ↔ s.conn.isSome = true) :=
  ⟨py_close_result s, (py_close_is_closeP s).1, (py_close_is_closeP s).2.1, (py_close_is_closeP s).2.2.1,
    (py_close_is_closeP s).2.2.2.1⟩

/-! ## the hypotheses are satisfiable, the conclusions are not vacuous -/

/-- a whole session: establishment, routes and End-of-RIB in ESTABLISHED, teardown with cease, restart. -/
example :
    trace plain true [.start, .connectOk, .recv 1 (.openOk false), .recv 1 .keepalive, .tick, .teardown 4, .tick, .start] =
      [.fsm .idle .active, .fsm .active .idle, .fsm .idle .connect, .send 1 .open .connect, .fsm .connect .opensent,
       .fsm .opensent .openconfirm, .send 1 .keepalive .openconfirm, .fsm .openconfirm .established, .up,
       .send 1 .update .established, .send 1 .eor .established,
       .send 1 (.notification 6 4) .established, .down, .fsm .established .idle, .close 1,
       .fsm .idle .active, .fsm .active .idle] := by decide

/-- two sessions: `up`, `down`, `up` again. -/
example :
    (trace plain false [.start, .connectOk, .recv 1 (.openOk false), .recv 1 .keepalive, .eof 1, .start, .connectOk,
      .recv 2 (.openOk true), .recv 2 .keepalive]).filter (fun o => o = .up ∨ o = .down) = [.up, .down, .up] := by decide

/-- the translated method on two reachable states: ESTABLISHED refuses with 6/7; OPENCONFIRM with the peer's
    identifier higher than ours adopts the incoming connection and closes the one in hand -/
example : pyHandle { cfg := plain, fsm := .established, conn := some { id := 1 } } = .raise 6 7 := by decide
example : pyHandle { cfg := plain, fsm := .openconfirm, conn := some { id := 1, idLow := false } } = .ret () ⟨true, true, true⟩ := by decide
example : pyHandle { cfg := plain, fsm := .openconfirm, conn := some { id := 1, idLow := true } } = .raise 6 7 := by decide
example : pyHandle { cfg := plain, fsm := .idle, restart := false, teardown := some 3 } = .raise 6 3 := by decide

/-! ### what the trace checker guarantees of ANY trace it accepts

`chkAll true g0` is run (driver op `session chk`) on the traces observed from the real `Peer` under configurations
M-Session does not model (`local-as auto`, `peer-as auto`): the step-by-step comparison does not apply there, these
theorems do — they speak of every accepted list of outputs, wherever it comes from. -/

/-- **An accepted trace satisfies C05**: every FSM change is an RFC 4271 transition and starts from the state the
    trace before it leads to; UPDATE, End-of-RIB and ROUTE-REFRESH are only written in ESTABLISHED, and every write
    carries the state of that moment; between two `up` of the API there is a `down`. -/
theorem accepted_trace_satisfies (os : List Out) (g' : G) (h : chkAll true g0 os = some g') :
    (∀ a b, Out.fsm a b ∈ os → (a, b) ∈ rfcTable) ∧
    (∀ c k st, Out.send c k st ∈ os → isData k = true → st = .established) ∧
    (∀ xs ys a b, os = xs ++ Out.fsm a b :: ys → a = fsmAfter .idle xs) ∧
    (∀ xs ys c k st, os = xs ++ Out.send c k st :: ys → st = fsmAfter .idle xs) ∧
    (∀ xs ys zs, os = xs ++ Out.up :: ys ++ Out.up :: zs → Out.down ∈ ys) := by
  refine ⟨accepted_fsm_rfc h, accepted_data_established h, ?_, ?_, ?_⟩
  · intro xs ys a b e; subst e
    exact (accepted_labels h).1 a b rfl
  · intro xs ys c k st e; subst e
    exact (accepted_labels h).2 c k st rfl
  · intro xs ys zs e; subst e
    exact accepted_up_down h

-- the checker is not vacuous: it refuses a trace that reaches ESTABLISHED from OPENSENT, and one that writes an
-- UPDATE in OPENCONFIRM
example : chkAll true g0 [.fsm .idle .connect, .fsm .connect .opensent, .fsm .opensent .established] = none := by decide
example : (chkAll true g0 [.fsm .idle .connect, .fsm .connect .opensent, .fsm .opensent .openconfirm,
    .send 1 .update .openconfirm]).isNone = true := by decide

end Exa.Props.C05
