import ExaModel.Lemmas.RibDown
set_option linter.unusedSimpArgs false
/-!
# C11 — After any session loss the peer is fully resynchronised (RIB part)

Statement (properties.jsonl): if a session is lost at any point — before, during or after the
transmission of a batch of UPDATEs — then after the next successful establishment ExaBGP
re-advertises its complete current Adj-RIB-Out (configured routes plus API-announced routes not
since withdrawn, when adj-rib-out is kept) so that the peer table again equals the intended
table.  Routes withdrawn while the session was down are not re-advertised.

Model: M-Rib.  "Any point" is *any state satisfying the invariant `Good`* — `good_run` shows every
state reachable from session start by any interleaving of RIB operations and transmission
steps is one, including those with a partially consumed generator.  `lost` is
`Peer._reset → reset_rib`, the operations while down are the RIB operations (API / reload),
`established` is the `replace_restart` of `_main`'s prologue; the new session starts with
`include_withdraw = False` and an empty peer table.

Premise kept from the property text: every cached route is of a family the RIB serves
(`FamOK`) and adj-rib-out is kept.  The End-of-RIB part of the statement is decided by the
session model (C05/C10 machinery), not here.
-/
namespace Exa.Props.C11
open Exa Exa.Rib

/-- The state after re-establishment satisfies the convergence invariant against an EMPTY
    peer table, so everything proved for a session start (C04) applies again — and to any number
    of successive losses. -/
theorem c11_good_again (s : Sess) (t : Table) (g : Good s t)
    (opsDown : List Op) (hd : ∀ op ∈ opsDown, op.isRibOnly = true)
    (prev new : List Route)
    (hf : FamOK ((s.step .lost).1.run opsDown).1.rib) :
    Good ((((s.step .lost).1.run opsDown).1).step (.established prev new)).1 [] := by
  have d0 : Down (s.step .lost).1.rib := good_down g
  obtain ⟨d1, hi1, hw1, _⟩ := down_run (s.step .lost).1 opsDown hd d0
  have hi : ((s.step .lost).1.run opsDown).1.inflight = none := hi1
  have hw : ((s.step .lost).1.run opsDown).1.inclWd = false := hw1
  generalize ((s.step .lost).1.run opsDown).1 = s1 at *
  obtain ⟨rib1, infl1, incl1⟩ := s1
  simp only at hi hw d1 hf
  subst hi; subst hw
  exact good_established rib1 prev new d1 hf

/-- **C11 (RIB part, full statement).** Cut the session in any reachable state, perform any RIB
    operations while it is down, re-establish, let anything happen in the new session, drain:
    the messages of the new session applied to an EMPTY table give exactly the reported
    Adj-RIB-Out. -/
theorem c11_resync (s : Sess) (t : Table) (g : Good s t)
    (opsDown : List Op) (hd : ∀ op ∈ opsDown, op.isRibOnly = true)
    (prev new : List Route)
    (hf : FamOK ((s.step .lost).1.run opsDown).1.rib)
    (opsUp : List Op) (hu : ∀ op ∈ opsUp, op.isUp = true) (n : Nat) :
    let s2 := ((((s.step .lost).1.run opsDown).1).step (.established prev new)).1
    let r := s2.run opsUp
    AList.lookup n (applyEvs [] (r.2 ++ r.1.drain.2)) = r.1.drain.1.rib.cacheView n := by
  intro s2 r
  have g2 : Good s2 [] := c11_good_again s t g opsDown hd prev new hf
  have g' := good_run s2 [] opsUp hu g2
  have := good_drain r.1 _ g' n
  simpa [applyEvs, List.foldl_append] using this

/-- Nothing is put on the wire while the session is down. -/
theorem c11_silent_while_down (s : Sess) (t : Table) (g : Good s t)
    (opsDown : List Op) (hd : ∀ op ∈ opsDown, op.isRibOnly = true) :
    ((s.step .lost).1.run opsDown).2 = [] :=
  (down_run (s.step .lost).1 opsDown hd (good_down g)).2.2.2

/-- **Withdrawn while down is not re-advertised.** If the last thing that happened to a prefix
    while the session was down is a withdraw, then after re-establishment and drain the peer
    does not hold it. -/
theorem c11_withdrawn_while_down (s : Sess) (t : Table) (g : Good s t)
    (opsDown : List Op) (hd : ∀ op ∈ opsDown, op.isRibOnly = true) (n f : Nat)
    (prev new : List Route)
    (hf : FamOK ((s.step .lost).1.run (opsDown ++ [Op.del n f])).1.rib) :
    let s2 := ((((s.step .lost).1.run (opsDown ++ [Op.del n f])).1).step (.established prev new)).1
    AList.lookup n (applyEvs [] s2.drain.2) = none := by
  intro s2
  have hd' : ∀ op ∈ opsDown ++ [Op.del n f], op.isRibOnly = true := by
    intro op hop
    rcases List.mem_append.1 hop with h | h
    · exact hd op h
    · simp at h; subst h; rfl
  have h := c11_resync s t g (opsDown ++ [Op.del n f]) hd' prev new hf [] (by intro op h; cases h) n
  simp only [Sess.run, List.nil_append] at h
  rw [h, Rib.cacheView, drain_cache]
  have d0 : Down (s.step .lost).1.rib := good_down g
  obtain ⟨d1, _, _, _⟩ := down_run (s.step .lost).1 opsDown hd d0
  obtain ⟨d2, _, _, _⟩ := down_run (s.step .lost).1 (opsDown ++ [Op.del n f]) hd' d0
  have hcache1 : AList.lookup n ((s.step .lost).1.run (opsDown ++ [Op.del n f])).1.rib.cache = none := by
    rw [run_append]
    have hc := d1.cacheOn
    simp only [Sess.run, Sess.step, Rib.del] at hc ⊢
    simp only [hc, if_true, AList.lookup_erase_self]
  show Option.map _ (AList.lookup n ((((s.step .lost).1.run (opsDown ++ [Op.del n f])).1).rib.replaceRestart prev new).cache) = none
  rw [replaceRestart_cache_none _ _ _ _ d2.wfCache hcache1]
  rfl

end Exa.Props.C11
