import ExaModel.Lemmas.RibEor
set_option linter.unusedSimpArgs false
/-!
# C11 — After any session loss the peer is fully resynchronised (RIB part)

Statement (properties.jsonl): if a session is lost at any point — before, during or after the
transmission of a batch of UPDATEs — then after the next successful establishment ExaBGP
re-advertises its complete current Adj-RIB-Out (configured routes plus API-announced routes not
since withdrawn, when adj-rib-out is kept) so that the peer table again equals the intended
table.  Routes withdrawn while the session was down are not re-advertised.

Model: M-Rib.  "Any point" is *any state satisfying the invariant `Good`* — `good_run` shows every
state reachable from session start by any interleaving of RIB operations and transmission
steps is one, including those with a partially consumed generator.  `lost` is
`Peer._reset → reset_rib`, the operations while down are the RIB operations (API / reload),
`established` is the `replace_restart` of `_main`'s prologue; the new session starts with
`include_withdraw = False` and an empty peer table.

Premise kept from the property text: every cached route is of a family the RIB serves
(`FamOK`) and adj-rib-out is kept.  The End-of-RIB part: `ESess` adds `send_eor` and the
`_send_eor_messages` step that `_main` performs right after `_send_route_updates` in every
iteration (`c11_eor_*` below); that the real main loop calls the two in that order is checked by
the correspondence (operation `eor`) and end to end by the session rig.
-/
namespace Exa.Props.C11
open Exa Exa.Rib

/-- The state after re-establishment satisfies the convergence invariant against an EMPTY
    peer table, so everything proved for a session start (C04) applies again — and to any number
    of successive losses. -/
theorem c11_good_again (s : Sess) (t : Table) (g : Good s t)
    (opsDown : List Op) (hd : ∀ op ∈ opsDown, op.isRibOnly = true)
    (prev new : List Route)
    (hf : FamOK ((s.step .lost).1.run opsDown).1.rib) :
    Good ((((s.step .lost).1.run opsDown).1).step (.established prev new)).1 [] := by
  have d0 : Down (s.step .lost).1.rib := good_down g
  obtain ⟨d1, hi1, hw1, _⟩ := down_run (s.step .lost).1 opsDown hd d0
  have hi : ((s.step .lost).1.run opsDown).1.inflight = none := hi1
  have hw : ((s.step .lost).1.run opsDown).1.inclWd = false := hw1
  generalize ((s.step .lost).1.run opsDown).1 = s1 at *
  obtain ⟨rib1, infl1, incl1⟩ := s1
  simp only at hi hw d1 hf
  subst hi; subst hw
  exact good_established rib1 prev new d1 hf

/-- **C11 (RIB part, full statement).** Cut the session in any reachable state, perform any RIB
    operations while it is down, re-establish, let anything happen in the new session, drain:
    the messages of the new session applied to an EMPTY table give exactly the reported
    Adj-RIB-Out. -/
theorem c11_resync (s : Sess) (t : Table) (g : Good s t)
    (opsDown : List Op) (hd : ∀ op ∈ opsDown, op.isRibOnly = true)
    (prev new : List Route)
    (hf : FamOK ((s.step .lost).1.run opsDown).1.rib)
    (opsUp : List Op) (hu : ∀ op ∈ opsUp, op.isUp = true) (n : Nat) :
    let s2 := ((((s.step .lost).1.run opsDown).1).step (.established prev new)).1
    let r := s2.run opsUp
    AList.lookup n (applyEvs [] (r.2 ++ r.1.drain.2)) = r.1.drain.1.rib.cacheView n := by
  intro s2 r
  have g2 : Good s2 [] := c11_good_again s t g opsDown hd prev new hf
  have g' := good_run s2 [] opsUp hu g2
  have := good_drain r.1 _ g' n
  simpa [applyEvs, List.foldl_append] using this

/-- Nothing is put on the wire while the session is down. -/
theorem c11_silent_while_down (s : Sess) (t : Table) (g : Good s t)
    (opsDown : List Op) (hd : ∀ op ∈ opsDown, op.isRibOnly = true) :
    ((s.step .lost).1.run opsDown).2 = [] :=
  (down_run (s.step .lost).1 opsDown hd (good_down g)).2.2.2

/-- **Withdrawn while down is not re-advertised.** If the last thing that happened to a prefix
    while the session was down is a withdraw, then after re-establishment and drain the peer
    does not hold it. -/
theorem c11_withdrawn_while_down (s : Sess) (t : Table) (g : Good s t)
    (opsDown : List Op) (hd : ∀ op ∈ opsDown, op.isRibOnly = true) (n f : Nat)
    (prev new : List Route)
    (hf : FamOK ((s.step .lost).1.run (opsDown ++ [Op.del n f])).1.rib) :
    let s2 := ((((s.step .lost).1.run (opsDown ++ [Op.del n f])).1).step (.established prev new)).1
    AList.lookup n (applyEvs [] s2.drain.2) = none := by
  intro s2
  have hd' : ∀ op ∈ opsDown ++ [Op.del n f], op.isRibOnly = true := by
    intro op hop
    rcases List.mem_append.1 hop with h | h
    · exact hd op h
    · simp at h; subst h; rfl
  have h := c11_resync s t g (opsDown ++ [Op.del n f]) hd' prev new hf [] (by intro op h; cases h) n
  simp only [Sess.run, List.nil_append] at h
  rw [h, Rib.cacheView, drain_cache]
  have d0 : Down (s.step .lost).1.rib := good_down g
  obtain ⟨d1, _, _, _⟩ := down_run (s.step .lost).1 opsDown hd d0
  obtain ⟨d2, _, _, _⟩ := down_run (s.step .lost).1 (opsDown ++ [Op.del n f]) hd' d0
  have hcache1 : AList.lookup n ((s.step .lost).1.run (opsDown ++ [Op.del n f])).1.rib.cache = none := by
    rw [run_append]
    have hc := d1.cacheOn
    simp only [Sess.run, Sess.step, Rib.del] at hc ⊢
    simp only [hc, if_true, AList.lookup_erase_self]
  show Option.map _ (AList.lookup n ((((s.step .lost).1.run (opsDown ++ [Op.del n f])).1).rib.replaceRestart prev new).cache) = none
  rw [replaceRestart_cache_none _ _ _ _ d2.wfCache hcache1]
  rfl

/-- **End-of-RIB never overtakes the table.** `_send_eor_messages` sends the markers only when
    no update generator is in flight (and only if they have not been sent yet). -/
theorem c11_eor_needs_idle (s : ESess) (h : (s.step .eor).2 ≠ []) :
    s.core.inflight = none ∧ s.sendEor = true := by
  unfold ESess.step at h
  by_cases hc : (s.core.inflight.isNone && s.sendEor) = true
  · simp only [Bool.and_eq_true, Option.isNone_iff_eq_none] at hc; exact hc
  · simp [hc] at h

/-- One End-of-RIB marker per family the RIB serves, when they are sent. -/
theorem c11_eor_per_family (s : ESess) (h : (s.step .eor).2 ≠ []) :
    (s.step .eor).2 = s.core.rib.families.map Ev.eor := by
  unfold ESess.step at h ⊢
  by_cases hc : (s.core.inflight.isNone && s.sendEor) = true
  · simp [hc]
  · simp [hc] at h

/-- **Sent once per session**: once the markers have gone out, nothing that can happen in the
    session (any operations, any transmission steps, further `_send_eor_messages` calls) sends
    another one. -/
theorem c11_eor_once (s : ESess) (hn : NoEorInflight s.core) (h : (s.step .eor).2 ≠ [])
    (ops : List EOp) (hops : ∀ o ∈ ops, o.isUp = true) :
    ∀ e ∈ ((s.step .eor).1.run ops).2, isEorEv e = false := by
  have hc : (s.core.inflight.isNone && s.sendEor) = true := by
    by_cases hc : (s.core.inflight.isNone && s.sendEor) = true
    · exact hc
    · simp [ESess.step, hc] at h
  apply eor_not_repeated _ ops _ _ hops
  · simp [ESess.step, hc]
  · simpa [ESess.step, hc] using hn

/-- **End-of-RIB follows the complete table.** After re-establishment (any state `s2` satisfying
    the invariant against an empty peer table and with no generator yet, see `c11_good_again`),
    whatever RIB operations
    arrive before the main loop's first iteration, if the loop then transmits (`start`, `k`
    generator steps) without further API activity and `_send_eor_messages` sends the markers,
    the peer's table at that moment is exactly the reported Adj-RIB-Out. -/
theorem c11_eor_after_table (s2 : Sess) (g : Good s2 []) (h0 : s2.inflight = none) (opsA : List Op)
    (hA : ∀ op ∈ opsA, op.isRibOnly = true) (k : Nat) (n : Nat)
    (hem : (({ core := (s2.run (opsA ++ [Op.start] ++ List.replicate k Op.next)).1, sendEor := true } : ESess).step
      .eor).2 ≠ []) :
    AList.lookup n (applyEvs [] (s2.run (opsA ++ [Op.start] ++ List.replicate k Op.next)).2)
      = (s2.run (opsA ++ [Op.start] ++ List.replicate k Op.next)).1.rib.cacheView n := by
  have hidle := (c11_eor_needs_idle _ hem).1
  have hup : ∀ op ∈ opsA ++ [Op.start] ++ List.replicate k Op.next, op.isUp = true := by
    intro op hop
    simp only [List.mem_append, List.mem_singleton, List.mem_replicate] at hop
    rcases hop with (h | h) | h
    · have := hA op h; cases op <;> simp_all [Op.isRibOnly, Op.isUp]
    · subst h; rfl
    · rw [h.2]; rfl
  have gr := good_run s2 [] _ hup g
  -- rib-only operations never create a generator
  have d : ∀ (s : Sess) (ops : List Op), (∀ op ∈ ops, op.isRibOnly = true) →
      (s.run ops).1.inflight = s.inflight := by
    intro s ops hops
    induction ops generalizing s with
    | nil => rfl
    | cons o os ih =>
      simp only [Sess.run]
      rw [ih _ (fun x hx => hops x (List.mem_cons_of_mem _ hx))]
      have := hops o List.mem_cons_self
      cases o <;> first | rfl | simp [Op.isRibOnly] at this
  -- the queues after `start; next^k` are those `start` left: nothing pending
  have hnp : (s2.run (opsA ++ [Op.start] ++ List.replicate k Op.next)).1.rib.pending = false := by
    rw [run_append, run_append]
    simp only [nexts_rib]
    simp only [Sess.run]
    apply start_not_pending
    rw [d s2 opsA hA]
    exact h0
  generalize s2.run (opsA ++ [Op.start] ++ List.replicate k Op.next) = r at *
  have hinv := gr.inv n
  simp only at hidle
  rw [hidle, snapEff_not_pending _ _ _ _ hnp] at hinv
  simpa using hinv

end Exa.Props.C11
