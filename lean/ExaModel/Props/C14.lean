import ExaModel.Lemmas.ApiReader
import ExaModel.Lemmas.ApiSelector
import ExaModel.Lemmas.ApiEffect
import ExaModel.Lemmas.ApiDispatch
set_option linter.unusedSimpArgs false
set_option linter.unusedVariables false
/-!
# C14 — API commands: same order, one acknowledgement each, no side effects on error

Statement (properties.jsonl): for any sequence of command lines written by an API process,
however the pipe delivers the bytes (split or coalesced reads), ExaBGP executes the same
commands in the same order and, with acknowledgements enabled, answers each command with exactly
one terminal done or error reply, in command order.  A command that is unknown or fails to parse
changes no RIB, and a command carrying a neighbor selector changes only the neighbors that match
every term of the selector.

Model: `Exa.Api` (M-Api).  `feed` is one `_async_reader_callback`, `step` is `API.process` plus
the scheduled callback run to completion, `run` a whole command list; the route grammar is an
arbitrary function `Env.parse` (every theorem holds for all of them).

What is proved of the code as it is, and what only of the repaired code:
* reader clauses: as the code is, under the side condition the code itself imposes (ASCII, every
  line within `MAX_COMMAND_SIZE`); `oversize_depends_on_chunking` shows the condition is needed —
  for lines longer than that the code's behaviour DOES depend on the chunking (finding).
* one acknowledgement, no effect of unknown / unparsable commands: as the code is.
* selector clause: FALSE of the code as it is (`f13_witness`, `f21_witness`, `watchdog_witness`);
  proved for `Quirks.fixed` (the three repairs of proposed_fixes/): `selector_all_terms`,
  `only_matched_change`.
-/
namespace Exa.Props.C14
open Exa Exa.Api Exa.Rib Exa.Generated.ApiTable

/-! ## The reader: same commands whatever the chunking -/

/-- **`feed st (a ++ b) = feed (feed st a) b`**: one read bringing `a ++ b` leaves the reader
    (buffer, liveness, queued commands) exactly where two reads bringing `a` then `b` leave it —
    for ASCII input whose lines (including the unfinished last one) fit in `max`. -/
theorem lines_append (strict : Bool) (max : Nat) (st : Reader) (a b : List Nat) (ha : Ascii (a ++ b))
    (hw : Within max (st.buf ++ (a ++ b))) : feed strict max st (a ++ b) = feed strict max (feed strict max st a) b :=
  feed_append_aux strict max st a b ha hw

/-- **Chunking independence (full statement of the first clause for the reader).** Any two
    chunkings of the same byte string leave the same reader state, in particular the same queue
    of commands in the same order. -/
theorem c14_chunking (strict : Bool) (max : Nat) (st : Reader) (cs1 cs2 : List (List Nat)) (hn : NoNl st.buf)
    (hsame : cs1.flatten = cs2.flatten) (ha : Ascii cs1.flatten) (hw : Within max (st.buf ++ cs1.flatten)) :
    feedAll strict max st cs1 = feedAll strict max st cs2 := by
  rw [feedAll_eq_feed strict max cs1 st hn ha hw, feedAll_eq_feed strict max cs2 st hn (hsame ▸ ha) (hsame ▸ hw), hsame]

/-- What the queue is: from a fresh reader, after any chunking of `bytes`, the queued commands are
    the complete lines of `bytes`, in order, right-stripped, without the `debug ` lines, each
    passed through `formated`; the unfinished last line waits in the buffer. -/
theorem c14_reader_spec (strict : Bool) (max : Nat) (cs : List (List Nat)) (ha : Ascii cs.flatten) (hw : Within max cs.flatten) :
    (feedAll strict max {} cs).queue = lineCmds (split cs.flatten).1 ∧ (feedAll strict max {} cs).buf = (split cs.flatten).2
      ∧ (feedAll strict max {} cs).dead = false := by
  have hn : NoNl ({} : Reader).buf := noNl_nil
  have hw' : Within max (({} : Reader).buf ++ cs.flatten) := by simpa using hw
  rw [feedAll_eq_feed strict max cs {} hn ha hw', feed_alive rfl ha hw']
  simp

/-- The invariant used above is kept by every read (so it holds along any run from a fresh reader). -/
theorem reader_buffer_has_no_newline (strict : Bool) (max : Nat) (st : Reader) (c : List Nat) (h : NoNl st.buf) :
    NoNl (feed strict max st c).buf := feed_buf_noNl strict max st c h

/-- **Finding (negation witness).** Without the length condition the law fails: with `max = 4` the
    line `abcdef` is executed when it arrives in one read and kills the helper when it arrives as
    `abcde` + `f\n`. (Replayed on the real reader with `MAX_COMMAND_SIZE` by the harness.) -/
theorem oversize_depends_on_chunking :
    feed false 4 {} ([97, 98, 99, 100, 101] ++ [102, 10]) ≠ feed false 4 (feed false 4 {} [97, 98, 99, 100, 101]) [102, 10]
    ∧ feed true 4 {} ([97, 98, 99, 100, 101] ++ [102, 10]) = feed true 4 (feed true 4 {} [97, 98, 99, 100, 101]) [102, 10] := by
  decide

/-! ## One terminal reply per command, in command order -/

/-- `silence-ack` (switches acknowledgements off, not acknowledged itself) and `crash` (fault
    injection: `done`, then the injected failure is reported as `error`) are the two commands the
    clause does not apply to. -/
def Regular (r : Routed) : Prop :=
  (∀ sel peers rest action, r ≠ .call .reactor_silence_ack sel peers rest action) ∧
  (∀ sel peers rest action, r ≠ .call .reactor_crash sel peers rest action)

/-- **One acknowledgement.** With acknowledgements on, a command — valid, unknown, unparsable,
    buffered in a group, selecting nobody — is answered by exactly one terminal reply. -/
theorem one_ack (env : Env) (st : St) (cmd : Cmd) (hack : st.ack = true) (hreg : Regular (routeCmd env st cmd))
    (hm : (step env st cmd).2.modelled = true) : ∃ r, (step env st cmd).2.replies = [r] := by
  have h := exec_one env st cmd (routeCmd env st cmd) hack hreg.1 hreg.2 hm
  unfold step
  match hr : (exec env st cmd (routeCmd env st cmd)).2.replies, h with
  | [r], _ => exact ⟨r, rfl⟩

/-- The replies of a run are the replies of its commands, concatenated in command order (the
    handler and its callback complete before the next command is taken: `ASYNC._run_async`). -/
theorem replies_in_order (env : Env) (st : St) (c : Cmd) (cs : List Cmd) :
    replies (run env st (c :: cs)).2 = (step env st c).2.replies ++ replies (run env (step env st c).1 cs).2 := by
  simp [run, replies]

theorem run_length (env : Env) (cs : List Cmd) : ∀ st, (run env st cs).2.length = cs.length := by
  induction cs with
  | nil => intro st; rfl
  | cons c cs ih => intro st; simp [run, ih]

/-- **One acknowledgement each, over any command sequence.** Every command of a run that was
    processed with acknowledgements on has exactly one terminal reply. -/
theorem one_ack_run (env : Env) (cs : List Cmd) : ∀ (st : St), ∀ e ∈ (run env st cs).2,
    e.ackBefore = true → Regular e.routed → e.out.modelled = true → ∃ r, e.out.replies = [r] := by
  induction cs with
  | nil => intro st e he; simp [run] at he
  | cons c cs ih =>
    intro st e he hack hreg hm
    simp only [run, List.mem_cons] at he
    rcases he with rfl | he
    · exact one_ack env st c hack hreg hm
    · exact ih _ e he hack hreg hm

/-- Hence, when acknowledgements stay on, there are exactly as many terminal replies as commands. -/
theorem ack_count (env : Env) (cs : List Cmd) (st : St)
    (hall : ∀ e ∈ (run env st cs).2, e.ackBefore = true ∧ Regular e.routed ∧ e.out.modelled = true) :
    (replies (run env st cs).2).length = cs.length := by
  have h1 : ∀ e ∈ (run env st cs).2, e.out.replies.length = 1 := by
    intro e he
    obtain ⟨ha, hr, hm⟩ := hall e he
    obtain ⟨r, hr'⟩ := one_ack_run env cs st e he ha hr hm
    simp [hr']
  rw [← run_length env cs st]
  generalize (run env st cs).2 = tr at h1
  induction tr with
  | nil => rfl
  | cons e tr ih =>
    simp only [replies, List.flatMap_cons, List.length_append, List.length_cons] at ih ⊢
    rw [h1 e (by simp), ih (fun e he => h1 e (by simp [he]))]
    omega

/-! ## Unknown or unparsable: no RIB changes -/

/-- **Unknown command / no matching peer**: nothing changes at all (RIBs, group buffer, ack state,
    API version); the only output is the `error` reply. -/
theorem unknown_no_effect (env : Env) (st : St) (cmd : Cmd) (h : routeCmd env st cmd = .error) :
    (step env st cmd).1 = st ∧ (step env st cmd).2.replies = st.reply .error := by
  unfold step
  rw [h]
  exact ⟨rfl, rfl⟩

/-- **Unparsable command**: if the route grammar refuses what the command carries (returns no
    route or raises), no RIB changes — whether the command goes to a v4 handler, through
    `v6_announce`/`v6_withdraw`, into a group buffer, or is a `group end` / inline group whose
    lines are all refused.  (`changesWithoutParsing`: watchdog, flush and clear take no route text.) -/
theorem unparsable_no_effect (env : Env) (st : St) (cmd : Cmd) (hp : Refuses env)
    (hh : ∀ h sel peers rest action, routeCmd env st cmd = .call h sel peers rest action →
      changesWithoutParsing h = false ∧ rest.head? ≠ some Kw.k_watchdog) :
    (step env st cmd).1.ribs = st.ribs :=
  exec_refused env st cmd (routeCmd env st cmd) hp hh

/-- Handler-level version with the one text the handler parses. -/
theorem unparsable_no_effect_handler (env : Env) (st : St) (h : Handler) (peers : List Nat) (rest : List Tok)
    (action : Nat) (fn : Nat) (ann validate : Bool) (hr : routeHandler h = some (fn, ann, validate))
    (hp : env.parse { fn := fn, action := action, toks := stripSync rest } = none ∨
          env.parse { fn := fn, action := action, toks := stripSync rest } = some []) :
    (runHandler env st h peers rest action).1 = st ∧
    (runHandler env st h peers rest action).2.replies = st.reply .error := by
  unfold runHandler
  rw [hr]
  rcases hp with e | e <;> simp [e]

/-! ## The selector -/

/-- what it is for a term (`'peer-as 65001'`, `'neighbor 10.0.0.1'`, …) to match a neighbor: the
    term is the wildcard, or its words occur consecutively in `Neighbor.name()` -/
def TermMatches (t : Term) (n : Nbr) : Prop := isWild t = true ∨ ∃ pre post, n.name = pre ++ t ++ post

/-- **`selector_all_terms`** (after the F13 repair): a neighbor is selected by a list of
    descriptions iff it belongs to the service and matches EVERY term of SOME description. -/
theorem selector_all_terms (q : Quirks) (hq : q.wildcardShort = false) (nbrs : List Nbr) (ds : List Desc)
    (hne : ds ≠ []) (i : Nat) :
    i ∈ Sel.resolve q nbrs (.descs ds) ↔
      ∃ n, nbrs[i]? = some n ∧ n.attached = true ∧ ∃ d ∈ ds, ∀ t ∈ d, TermMatches t n := by
  simp only [Sel.resolve, mem_matchNeighbors q nbrs hne, matchNeighbor_fixed hq, TermMatches, infixOf_iff]

/-- `*` (and an empty description list) selects the neighbors of the service, nothing else. -/
theorem selector_all (q : Quirks) (nbrs : List Nbr) (i : Nat) :
    i ∈ Sel.resolve q nbrs .all ↔ ∃ n, nbrs[i]? = some n ∧ n.attached = true := by
  simp only [Sel.resolve, mem_servicePeers]

/-- **`only_matched_change`** (repaired code): a command that carries a selector changes the RIB
    of neighbor `i` only if `i` is selected — i.e. (`selector_all_terms`) only if it matches every
    term of one of the selector's descriptions.  Covers every handler reachable with a selector:
    announce/withdraw of every type, watchdog, teardown, inline groups. -/
theorem only_matched_change (env : Env) (st : St) (cmd : Cmd) (hq : env.q = Quirks.fixed)
    {h : Handler} {sel : Sel} {peers : List Nat} {rest : List Tok} {a : Nat}
    (hr : routeCmd env st cmd = .call h (some sel) peers rest a) (hg : h ≠ .group_group_end)
    (i : Nat) (hch : (step env st cmd).1.ribs[i]? ≠ st.ribs[i]?) : i ∈ sel.resolve env.q env.nbrs := by
  have hf : env.q.v6Fallback = false := by rw [hq]; rfl
  have hw : env.q.watchdogAll = false := by rw [hq]; rfl
  have hp := routeCmd_peers hf hr
  apply Classical.byContradiction
  intro hi
  apply hch
  unfold step
  rw [hr]
  exact exec_get env st cmd h (some sel) rest a hw hg (by rw [hp]; exact hi)

/-- table fact used by `only_matched_change`: no path of the dispatch tree reaches `group end`
    through a selector, so the excluded case does not exist in the tree under test. -/
theorem group_end_has_no_selector : ∀ p ∈ v6Paths, p.2 = Handler.group_group_end → ¬ p.1.contains Elem.sel := by
  decide

/-- table fact: the two copies of `SELECTOR_KEYS` (command/limit.py, dispatch/common.py) agree -/
theorem selector_keys_agree : selectorKeys = selectorKeysDispatch := by decide

/-- table fact: the selector keys are key words of `Neighbor.name()` (a term `key value` can match) -/
theorem selector_keys_in_name : ∀ k ∈ selectorKeys, k ∈ nameKeys := by decide

/-- table fact: the announce/withdraw type tables never lead to `silence_ack` / `crash` -/
theorem type_tables_regular : ∀ p ∈ v6AnnounceTypes ++ v6WithdrawTypes,
    p.2 ≠ Handler.reactor_silence_ack ∧ p.2 ≠ Handler.reactor_crash := typeTables_ok

/-! ## Findings: the selector clause is false of the code as it is -/

def nbrA : Nbr :=
  { peerAddr := [49, 48, 46, 48, 46, 48, 46, 49],
    localIp := [49, 57, 50, 46, 48, 46, 50, 46, 49],
    localAs := [54, 53, 48, 48, 48],
    peerAs := [54, 53, 48, 48, 49],
    routerId := [49, 46, 49, 46, 49, 46, 49],
    familyAllowed := [105, 110, 45, 111, 112, 101, 110],
    families := [1], attached := true, enhanced := false }
/-- same, but address 10.0.0.2 and peer-as 65002 -/
def nbrB : Nbr := { nbrA with peerAddr := [49, 48, 46, 48, 46, 48, 46, 50], peerAs := [54, 53, 48, 48, 50] }
def peerAs65001 : Term := [[112, 101, 101, 114, 45, 97, 115], [54, 53, 48, 48, 49]]

/-- **F13.** `neighbor * peer-as 65001` selects the neighbor whose peer-as is 65002: the wildcard
    term ends `match_neighbor` before the other terms are looked at. -/
theorem f13_witness :
    matchNeighbor Quirks.code [[Kw.k_neighbor, Kw.k_star], peerAs65001] nbrB.name = true
    ∧ ¬ (∃ pre post, nbrB.name = pre ++ peerAs65001 ++ post)
    ∧ matchNeighbor Quirks.fixed [[Kw.k_neighbor, Kw.k_star], peerAs65001] nbrB.name = false := by
  refine ⟨by decide, ?_, by decide⟩
  rw [← infixOf_iff]
  decide

/-- `peer 10.9.9.9 announce route 10.0.1.0/24 next-hop 192.0.2.1` -/
def cmdNoSuchPeer : Cmd := [112, 101, 101, 114, 32, 49, 48, 46, 57, 46, 57, 46, 57, 32, 97, 110, 110, 111, 117, 110, 99,
  101, 32, 114, 111, 117, 116, 101, 32, 49, 48, 46, 48, 46, 49, 46, 48, 47, 50, 52, 32, 110, 101, 120, 116, 45, 104, 111,
  112, 32, 49, 57, 50, 46, 48, 46, 50, 46, 49]

/-- **F21.** v6: a selector that matches nobody (`peer 10.9.9.9 …`) is handed ALL peers; the
    repaired dispatcher refuses the command. -/
theorem f21_witness :
    (match dispatchV6 Quirks.code [nbrA, nbrB] cmdNoSuchPeer with
      | .ok h (some sel) peers _ _ =>
        decide (h = Handler.announce_v6_announce) && decide (peers = [0, 1])
          && (sel.resolve Quirks.code [nbrA, nbrB]).isEmpty
      | _ => false) = true
    ∧ dispatchV6 Quirks.fixed [nbrA, nbrB] cmdNoSuchPeer = .error := by
  decide

/-- **Watchdog.** The watchdog handlers apply the command to every configured neighbor, selected or
    not (even neighbors of another process): the targets do not depend on `peers`. -/
theorem watchdog_witness (env : Env) (st : St) (rest : List Tok) (action : Nat) (hq : env.q.watchdogAll = true)
    (peers peers' : List Nat) :
    (runHandler env st .watchdog_announce_watchdog peers rest action).1.ribs
      = (runHandler env st .watchdog_announce_watchdog peers' rest action).1.ribs := by
  simp [runHandler, routeHandler, hq]

/-! ## Non-vacuity -/

/-- a two-chunk delivery cut inside the word `announce`, with an empty line at the end -/
example : (feedAll false 1048576 {} [[35, 32, 111, 110, 101, 10, 97, 110, 110], [111, 117, 110, 99, 101, 32, 120, 10, 10]]).queue
    = [[35, 32, 111, 110, 101], [97, 110, 110, 111, 117, 110, 99, 101, 32, 120], []] := by decide
example : Ascii ([[35, 32, 111, 110, 101, 10, 97, 110, 110], [111, 117, 110, 99, 101, 32, 120, 10, 10]] : List (List Nat)).flatten := by
  decide
example : Within 1048576 ([[35, 32, 111, 110, 101, 10, 97, 110, 110], [111, 117, 110, 99, 101, 32, 120, 10, 10]] : List (List Nat)).flatten := by
  decide
/-- `formated` at work: tabs, brackets, commas, runs of spaces -/
example : formated [32, 97, 9, 91, 49, 44, 50, 93, 32, 32, 98, 32] = [97, 32, 91, 32, 49, 32, 44, 32, 50, 32, 93, 32, 98] := by decide

/-- `neighbor 10.0.0.1 announce route 10.0.1.0/24 next-hop 192.0.2.1` -/
def cmdOne : Cmd := [110, 101, 105, 103, 104, 98, 111, 114, 32, 49, 48, 46, 48, 46, 48, 46, 49, 32, 97, 110, 110, 111, 117,
  110, 99, 101, 32, 114, 111, 117, 116, 101, 32, 49, 48, 46, 48, 46, 49, 46, 48, 47, 50, 52, 32, 110, 101, 120, 116, 45,
  104, 111, 112, 32, 49, 57, 50, 46, 48, 46, 50, 46, 49]

def envFixed : Env :=
  { q := Quirks.fixed, nbrs := [nbrA, nbrB], service := [115, 118, 99], wdName := fun _ => 0,
    parse := fun _ => some [{ route := { nlri := 1, fam := 1, attr := 1, nh := 1 }, valid := true }] }
def st0 : St := { version := 4, ack := true, group := none, ribs := [Rib.init true [1], Rib.init true [1]] }

/-- the hypotheses of `only_matched_change` are satisfiable and the conclusion is not trivial:
    the command is routed with a selector to neighbor 0 only, whose RIB does change -/
example : (match routeCmd envFixed st0 cmdOne with
    | .call h (some _) peers _ _ => decide (h = Handler.announce_announce_route) && decide (peers = [0])
    | _ => false) = true := by decide
example : ((step envFixed st0 cmdOne).1.ribs.map (fun r => r.cache.length)) = [1, 0] := by decide
example : (step envFixed st0 cmdOne).2.replies = [.done] := by decide
/-- `bogus`: unknown, one `error`, nothing changes -/
example : routeCmd envFixed st0 [98, 111, 103, 117, 115] = .error := by decide
example : (step envFixed st0 [98, 111, 103, 117, 115]).2.replies = [.error] := by decide

end Exa.Props.C14
