import ExaModel.Lemmas.FrameFeed
import ExaModel.Lemmas.FramePy
import ExaModel.Lemmas.NegoSpec
set_option linter.unusedSimpArgs false
/-!
# C06 — Message framing is independent of how TCP delivers the bytes

Statement (properties.jsonl): for any byte stream received and any way TCP splits or coalesces
it, the messages handed to the protocol layer are exactly the successive length-delimited
messages of the stream, each with its complete body and in order. A header whose marker is not
sixteen 0xFF bytes, or whose length is below 19, above the negotiated maximum (4096, or 65535
once extended messages are negotiated) or outside the bounds of its type, ends the session with
the Message Header Error NOTIFICATION for that fault (1/1, 1/2, and 1/3 for an unknown type) and
nothing after it is interpreted.

Model: `Exa.Frame` (M-Frame) — `Reader.feed` is what `Connection.reader_async` delivers when TCP
hands over one more chunk, `Reader.cancel` a read cancelled by the 0.1 s `wait_for` of
`Peer._main`, `Reader.setMax` the switch to the negotiated size. Constants and the per-type
length rule are generated from /repo (`Generated/MsgLength.lean`).
-/
namespace Exa.Props.C06
open Exa Exa.Frame Exa.Generated.MsgLength

/-- Events of the environment of the reader. -/
inductive Event where
  | chunk (bs : Bytes)
  | cancel
deriving Repr

def runEvents (r : Reader) : List Event → Reader × List Out
  | [] => (r, [])
  | .chunk bs :: es =>
    let (r1, o1) := r.feed bs
    let (r2, o2) := runEvents r1 es
    (r2, o1 ++ o2)
  | .cancel :: es => runEvents r.cancel es

def bytesOf : List Event → Bytes
  | [] => []
  | .chunk bs :: es => bs ++ bytesOf es
  | .cancel :: es => bytesOf es

/-- **The generated constants are the RFC 4271 / RFC 8654 ones.** (translator obligation: an edit
    of `Message.Length`, the marker, the header length or the two maximum sizes breaks this) -/
theorem msglength_is_rfc :
    lengthRules = [(1, Cmp.ge, 29), (2, Cmp.ge, 23), (3, Cmp.ge, 21), (4, Cmp.eq, 19), (5, Cmp.eq, 23)]
    ∧ defaultMin = 19 ∧ headerLen = 19 ∧ marker = List.replicate 16 255
    ∧ initialSize = 4096 ∧ extendedSize = 65535 := by decide

/-- **C06, segmentation independence (full statement).** Whatever the segmentation into reads,
    and wherever read cancellations (main-loop timeouts) fall, what is delivered — and the state
    the reader is left in — is what one read of the whole stream delivers. -/
theorem c06_independent (r : Reader) (hs : Stable r) (evs : List Event) :
    runEvents r evs = r.feed (bytesOf evs) := by
  induction evs generalizing r with
  | nil => simp [runEvents, bytesOf, feed_nil r hs]
  | cons e es ih =>
    cases e with
    | chunk bs =>
      simp only [runEvents, bytesOf]
      rw [feed_append, ih _ (stable_feed r bs hs)]
    | cancel =>
      simp only [runEvents, bytesOf, Reader.cancel]
      exact ih r hs

/-- The same for plain chunk lists (`feedAll`), from the initial state of a connection. -/
theorem c06_chunks (max : Nat) (chunks : List Bytes) :
    (Reader.init max).feedAll chunks = (Reader.init max).feed chunks.flatten := by
  have gen : ∀ (r : Reader), Stable r → r.feedAll chunks = r.feed chunks.flatten := by
    induction chunks with
    | nil => intro r hs; simp [Reader.feedAll, feed_nil r hs]
    | cons c cs ih =>
      intro r hs
      simp only [Reader.feedAll, List.flatten_cons]
      rw [feed_append, ih _ (stable_feed r c hs)]
  exact gen _ (stable_init max)

/-- **Exactly the successive length-delimited messages.** A stream that is the concatenation of
    valid messages is delivered as exactly those messages, in order, each with its complete
    body, nothing left over — for any number of messages of any sizes up to the maximum. -/
theorem c06_delivers_exactly (max : Nat) (h16 : max ≤ 65535) (ms : List (Nat × Bytes))
    (hv : ∀ m ∈ ms, ValidMsg max m) :
    (Reader.init max).feed (encodeAll ms) =
      ({ max := max, pend := [], dead := false }, ms.map (fun m => Out.msg m.1 m.2)) := by
  have := pump_encodeAll max h16 ms hv [] ((encodeAll ms).length + 1) (by simp)
  simp only [List.append_nil] at this
  unfold Reader.feed
  simp only [Reader.init, Bool.false_eq_true, if_false, List.nil_append, this]
  simp [pump, parse1, headerLen]

/-- The header checks, in the order the code makes them, with the RFC 4271 §6.1 subcodes. The
    per-type length rule is not applied to a NOTIFICATION: an error in a NOTIFICATION is never
    answered with a NOTIFICATION (RFC 4271 §6.4, property C10), a truncated one still ends the
    session as a received NOTIFICATION. -/
theorem c06_header_errors (max : Nat) (h : Bytes) :
    hdrErr max h =
      if h.take 16 ≠ marker then some (1, 1)                       -- Connection Not Synchronized
      else if hdrLen h < headerLen ∨ hdrLen h > max then some (1, 2)   -- Bad Message Length (headerLen = 19)
      else if lengthValid (hdrTy h) (hdrLen h) = false ∧ hdrTy h ≠ 3 then some (1, 2)
      else none := by
  unfold hdrErr notificationType
  split
  · rfl
  · split
    · rfl
    · cases lengthValid (hdrTy h) (hdrLen h) <;> simp

/-- **The header decision of the model is the code's.** `Generated/PyFrame.lean` is the body of
    `Connection.reader_async` between the read of the header and the read of the body, translated statement
    by statement from /repo's source on every run (harness/pylite.py); on what M-Frame reads off the same 19
    octets, with the validator instantiated by the generated per-type table, it returns `(length, type)`
    exactly when `hdrErr` finds nothing, and raises exactly the code `hdrErr` gives otherwise — for every
    header and every negotiated maximum.  A changed comparison, bound, order of the tests or exemption in the
    reader breaks this obligation, whatever streams the correspondence happens to draw. -/
theorem c06_py_header_decision (max : Nat) (h : Bytes) :
    Exa.Generated.PyFrame.Connection.reader_async_header ⟨max⟩ (decide (h.take 16 ≠ marker)) (hdrTy h) (hdrLen h)
      (lengthValid (hdrTy h) (hdrLen h)) = liftHdr max h :=
  py_header_eq_model max h

/-- **The bound is the NEGOTIATED maximum** (C06 with C07): with the maximum the two OPENs negotiate
    (`Exa.Open.negotiate`, proved equal to the translated `Negotiated._negotiate` in Props/C07), a header
    is refused for its length alone (`hdrLen < 19` or above the bound) exactly when the length is below 19
    or above 65535-if-both-speakers-announced-Extended-Message-else-4096.  What copies that maximum to the connection
    (`Peer._establish`, after both OPENs) is checked on the real `Peer` by the stage *negotiated maximum* of the C06
    harness (findings F108, seed C06-8). -/
theorem c06_bound_is_negotiated (o t : Exa.Open.OpenMsg) (h : Bytes) :
    (hdrLen h < headerLen ∨ hdrLen h > (Exa.Open.negotiate o t).msgSize) ↔
      (hdrLen h < 19 ∨
        hdrLen h > (if o.caps.contains .extMsg && t.caps.contains .extMsg then 65535 else 4096)) := by
  rw [Exa.Open.negotiate_msgSize]
  rfl

/-- ... and such a header is answered 1/2 (Bad Message Length), whatever its type. -/
theorem c06_over_negotiated_is_1_2 (o t : Exa.Open.OpenMsg) (h : Bytes) (hm : h.take 16 = marker)
    (hl : hdrLen h > (Exa.Open.negotiate o t).msgSize) :
    hdrErr (Exa.Open.negotiate o t).msgSize h = some (1, 2) := by
  unfold hdrErr
  simp [hm, hl]

/-- non-vacuity: a KEEPALIVE header passes, one with length 18 is refused with 1/2, a bad marker with 1/1 -/
example : liftHdr 4096 (marker ++ [0, 19, 4]) = .ret (19, 4) ⟨4096⟩ := by decide
example : liftHdr 4096 (marker ++ [0, 18, 4]) = .raise 1 2 := by decide
example : liftHdr 4096 (0 :: marker.drop 1 ++ [0, 19, 4]) = .raise 1 1 := by decide
example : liftHdr 4096 (marker ++ [0, 20, 4]) = .raise 1 2 := by decide
example : liftHdr 4096 (marker ++ [0, 20, 3]) = .ret (20, 3) ⟨4096⟩ := by decide

/-- **A faulty header after any valid messages ends the session with that error, and nothing after
    it is interpreted**: the valid messages are delivered, then the error, the reader is dead,
    and every later chunk produces nothing. -/
theorem c06_error_ends_session (max : Nat) (h16 : max ≤ 65535) (ms : List (Nat × Bytes))
    (hv : ∀ m ∈ ms, ValidMsg max m) (bad after : Bytes) (hlen : bad.length = 19)
    (c s : Nat) (herr : hdrErr max bad = some (c, s)) (later : Bytes) :
    let r := (Reader.init max).feed (encodeAll ms ++ (bad ++ after))
    r.2 = ms.map (fun m => Out.msg m.1 m.2) ++ [Out.err c s] ∧ r.1.dead = true ∧ (r.1.feed later).2 = [] := by
  intro r
  have hp1 : parse1 max (bad ++ after) = .out (.err c s) [] := by
    unfold parse1
    have : ¬ (bad ++ after).length < headerLen := by simp [headerLen]; omega
    simp only [this, if_false]
    rw [hdrErr_append max bad after (by omega), herr]
  have hpump : pump max ((bad ++ after).length + 1) (bad ++ after) = ([Out.err c s], [], true) := by
    rw [pump_succ, hp1]
  have := pump_encodeAll max h16 ms hv (bad ++ after) ((encodeAll ms ++ (bad ++ after)).length + 1) (by simp)
  rw [hpump] at this
  have hr : r = ({ max := max, pend := [], dead := true }, ms.map (fun m => Out.msg m.1 m.2) ++ [Out.err c s]) := by
    show (Reader.init max).feed _ = _
    unfold Reader.feed
    simp only [Reader.init, Bool.false_eq_true, if_false, List.nil_append, this]
  rw [hr]
  refine ⟨rfl, rfl, ?_⟩
  simp [Reader.feed]

/-- Unknown message type: the reader delivers it (its length is ≥ 19), `read_message` answers
    Bad Message Type 1/3; the types the reactor decodes are exactly 1–6. -/
theorem c06_unknown_type (ty : Nat) (body : Bytes) :
    notifyOf (.msg ty body) = if ty ∈ [1, 2, 3, 4, 5, 6] then none else some (1, 3) := by
  unfold notifyOf
  have hk : knownTypes = [1, 2, 3, 4, 5, 6, 252] := by decide
  have hr : registeredTypes = [1, 2, 3, 4, 5, 6] := by decide
  rw [hk, hr]
  by_cases h : ty ∈ [1, 2, 3, 4, 5, 6]
  · simp only [h, if_true]
    simp only [List.mem_cons, List.not_mem_nil, or_false] at h
    rcases h with h | h | h | h | h | h <;> subst h <;> decide
  · simp only [h, if_false]
    have : [1, 2, 3, 4, 5, 6].contains ty = false := by
      simpa using h
    simp only [this, Bool.and_false, Bool.false_eq_true, if_false]

/-- Switching to the negotiated maximum at a message boundary keeps the reader stable, so
    `c06_independent` applies to the rest of the stream with the new maximum. -/
theorem c06_setmax_at_boundary (r : Reader) (hb : r.pend = []) (m : Nat) : Stable (r.setMax m) := by
  right; simp [Reader.setMax, hb, parse1, headerLen]

/-! Non-vacuity: a KEEPALIVE split 10+9 with a cancellation in between, then an UPDATE split
    across three reads, on a 4096 session. -/
def ka : Bytes := encodeMsg 4 []
def upd : Bytes := encodeMsg 2 [0, 0, 0, 0]

example : ValidMsg 4096 (4, []) ∧ ValidMsg 4096 (2, [0, 0, 0, 0]) := by unfold ValidMsg; decide
example : (runEvents (Reader.init 4096)
    [.chunk (ka.take 10), .cancel, .chunk (ka.drop 10 ++ upd.take 5), .chunk (upd.drop 5 |>.take 3), .cancel,
     .chunk (upd.drop 8)]).2 = [Out.msg 4 [], Out.msg 2 [0, 0, 0, 0]] := by decide
example : hdrErr 4096 (marker ++ [16, 1, 2]) = some (1, 2) := by decide      -- length 4097 > 4096
example : hdrErr 65535 (marker ++ [16, 1, 2]) = none := by decide            -- fine once extended
example : hdrErr 4096 (marker ++ [0, 20, 4]) = some (1, 2) := by decide      -- KEEPALIVE of length 20
example : hdrErr 4096 (marker ++ [0, 20, 3]) = none := by decide             -- NOTIFICATION of length 20: not answered
example : hdrErr 4096 (List.replicate 15 255 ++ [254, 0, 19, 4]) = some (1, 1) := by decide

/-- a strict prefix of the reference encoding of a valid message is not yet a message -/
theorem parse1_strict_prefix (max ty : Nat) (body : Bytes) (k : Nat)
    (hmax : headerLen + body.length ≤ max) (h16 : max ≤ 65535)
    (hv : lengthValid ty (headerLen + body.length) = true)
    (hk : k < headerLen + body.length) :
    parse1 max ((encodeMsg ty body).take k) = .need := by
  have hfull := parse1_encode max ty body [] hmax h16 hv
  simp only [List.append_nil] at hfull
  have htot : (encodeMsg ty body).length = 19 + body.length := by
    simp [encodeMsg, marker, be16]; omega
  have hsplit : encodeMsg ty body = (encodeMsg ty body).take k ++ (encodeMsg ty body).drop k :=
    (List.take_append_drop k _).symm
  have hlk : ((encodeMsg ty body).take k).length = k := by
    rw [List.length_take, htot]; simp only [headerLen] at hk; omega
  unfold parse1
  by_cases h19 : k < 19
  · simp [hlk, headerLen, h19]
  · have hge : 19 ≤ ((encodeMsg ty body).take k).length := by omega
    have herr : hdrErr max ((encodeMsg ty body).take k) = none := by
      have := hdrErr_append max ((encodeMsg ty body).take k) ((encodeMsg ty body).drop k) hge
      rw [← hsplit] at this
      rw [← this]
      -- from the full parse
      unfold parse1 at hfull
      have hnl : ¬ (encodeMsg ty body).length < headerLen := by simp [htot, headerLen]
      simp only [hnl, if_false] at hfull
      cases he : hdrErr max (encodeMsg ty body) with
      | none => rfl
      | some cs => rw [he] at hfull; simp at hfull
    have hlen : hdrLen ((encodeMsg ty body).take k) = headerLen + body.length := by
      have := hdrLen_append ((encodeMsg ty body).take k) ((encodeMsg ty body).drop k) hge
      rw [← hsplit] at this
      rw [← this]
      simp only [hdrLen, encodeMsg, marker, List.append_assoc]
      show rd16 (be16 (headerLen + body.length) ++ _) = _
      exact rd16_be16 _ (by omega) _
    rw [herr, hlen, hlk]
    simp only [headerLen] at hk ⊢
    have h1 : ¬ k < 19 := h19
    simp [h1, hk]

/-- **Each message with its complete body — never earlier, never lost.** After any number of
    valid messages, a message of which only a strict prefix has arrived (any cut: inside the
    marker, the length field, or the body) is not handed up, nothing is refused, and the reader
    holds exactly those bytes; the rest of the message, in any segmentation (`c06_independent`),
    completes it. -/
theorem c06_incomplete_tail_is_held (max : Nat) (h16 : max ≤ 65535) (ms : List (Nat × Bytes))
    (hv : ∀ m ∈ ms, ValidMsg max m) (m : Nat × Bytes) (hm : ValidMsg max m) (k : Nat)
    (hk : k < headerLen + m.2.length) :
    (Reader.init max).feed (encodeAll ms ++ (encodeMsg m.1 m.2).take k) =
      ({ max := max, pend := (encodeMsg m.1 m.2).take k, dead := false },
        ms.map (fun m => Out.msg m.1 m.2))
    ∧ ((Reader.init max).feed (encodeAll ms ++ (encodeMsg m.1 m.2).take k)).1.feed ((encodeMsg m.1 m.2).drop k)
      = ({ max := max, pend := [], dead := false }, [Out.msg m.1 m.2]) := by
  have hneed := parse1_strict_prefix max m.1 m.2 k hm.1 h16 hm.2 hk
  have hp := pump_need max (((encodeMsg m.1 m.2).take k).length + 1) _ hneed
  have := pump_encodeAll max h16 ms hv ((encodeMsg m.1 m.2).take k)
    ((encodeAll ms ++ (encodeMsg m.1 m.2).take k).length + 1) (by simp)
  rw [hp] at this
  have h1 : (Reader.init max).feed (encodeAll ms ++ (encodeMsg m.1 m.2).take k) =
      ({ max := max, pend := (encodeMsg m.1 m.2).take k, dead := false },
        ms.map (fun m => Out.msg m.1 m.2)) := by
    unfold Reader.feed
    simp only [Reader.init, Bool.false_eq_true, if_false, List.nil_append, this, List.append_nil]
  refine ⟨h1, ?_⟩
  rw [h1]
  have hone := c06_delivers_exactly max h16 [m] (by intro x hx; simp at hx; subst hx; exact hm)
  unfold Reader.feed at hone ⊢
  simp only [Reader.init, Bool.false_eq_true, if_false, List.nil_append, encodeAll, List.map_cons,
    List.map_nil, List.flatten_cons, List.flatten_nil, List.append_nil] at hone
  simp only [Bool.false_eq_true, if_false, List.take_append_drop]
  exact hone

/-- non-vacuity: a KEEPALIVE, then an UPDATE cut inside its length field -/
example : ((Reader.init 4096).feed (encodeAll [(4, [])] ++ (encodeMsg 2 [0, 0, 0, 0]).take 17)).2 = [Out.msg 4 []] := by decide

end Exa.Props.C06
