import ExaModel.Lemmas.WireExaMain
set_option linter.unusedSimpArgs false
/-!
# C01 — Sent UPDATEs say exactly what the operator asked for

Statement (properties.jsonl): for every route an operator can express in configuration or API text
and every kind of negotiated session (iBGP/eBGP, 2- or 4-byte AS support, ADD-PATH, extended next
hop, 4096 or 65535 byte messages), the UPDATE bytes ExaBGP emits decode under the RFC
4271/4760/7911/6793/8277/4364/8950 wire rules to exactly the requested prefixes, path identifiers,
labels, route distinguishers, next hop and attribute values. Attributes the operator did not give
take only the RFC defaults (ORIGIN IGP; AS_PATH empty on iBGP and the true local AS on eBGP;
LOCAL_PREF 100 on iBGP, and no LOCAL_PREF at all on eBGP), "next-hop self" becomes the local address
of that session, and AS numbers above 65535 go to 2-byte peers as AS_TRANS plus AS4_PATH.

How it is stated here.
* `encodeExa : SessParams → RouteReq → Out` (`Model/WireExa.lean`) is the model of ExaBGP's encoder
  (`parse_route_text` normalisation → `resolve_self` → `pack_attribute` → `pack_nlri` →
  `messages()`), tied to /repo by the correspondence run of `harness/props/C01.py` and by the
  generated table `Generated/ExaEncTable.lean`.
* `decodeUpdate` is M-Wire, the RFC reference decoder (proved exact in `Props/C02.lean`).
* `Meets p r u` (`Lemmas/WireExaSpec.lean`, unfolded by `meets_iff` below) is the property written
  pointwise on the DECODED message: one announced route with the family, next hop, path id (iff
  ADD-PATH send), labels, RD and prefix of the request; nothing withdrawn; and for EVERY attribute
  type code `c` the value the receiver ends up with (after the RFC 6793 reconstruction) is the one
  asked for, else the RFC default, else nothing.

FULL statement (`C01Full`): every well-formed request on every well-formed session, whenever an
UPDATE is emitted, decodes to a message that `Meets` the request. It is FALSE of the unchanged code in
four situations, each with a `decide`-checked witness below (replayed on the real code by the corpus
of `./check C01`): an IPv6 next hop for an IPv4 route without RFC 8950 negotiated, an IPv4 next hop
for an IPv6 route, `next-hop self` for an IPv4 route on an IPv6 session (the router id is sent), and
the link-local address appended to a VPN next hop (40 bytes). What is PROVED is
`c01_roundtrip_partial`: the full statement under `NextHopOk` (exactly the negation of those four
situations). The first two are behind the generated flag `nhFamilyGuard` (does `messages()` consult
`negotiated.nexthop`?): on a tree that leaves such routes out, the model does too, the hypothesis
about the next-hop family becomes vacuous and the two witnesses become vacuous implications. Findings F4 (4-octet local AS) and "IPv4 multicast in the NLRI field" were repaired in
/repo while this was built; the model follows the repaired code and needs no hypothesis for them.
-/
namespace Exa.Props.C01
open Exa Exa.Wire Exa.WireExa
open Exa.Generated.ExaEncTable

/-- The full statement of the property on the model. -/
def C01Full : Prop :=
  ∀ (p : SessParams) (r : RouteReq) (bs : Bytes), WFSess p → WFReq p r → encodeExa p r = .sent bs →
    ∃ u, decodeUpdate (paramsOf p) bs = .ok u ∧ Meets p r u

/-- `Meets`, spelled out. -/
theorem meets_iff (p : SessParams) (r : RouteReq) (u : UpdateSem) :
    Meets p r u ↔
      ((report (paramsOf p) u).announce = [(r.afi, r.safi, wantNh p r, wantNlri p r)] ∧
       (report (paramsOf p) u).withdraw = [] ∧ (report (paramsOf p) u).eor = none ∧
       (∀ c, c ≠ 3 → SameOpt (reportAttr (paramsOf p) u c) (want p r c)) ∧
       (reportAttr (paramsOf p) u 3 = none ∨
         ((wantNh p r).length = 4 ∧ reportAttr (paramsOf p) u 3 = some (.nextHop (rd32 (wantNh p r)))))) :=
  Iff.rfl

/-- **C01, partial (all requests, all sessions, no bound).** For every session two OPENs can produce
    (`WFSess`: iBGP or eBGP, 2- or 4-octet AS on either side, any ADD-PATH / RFC 8950 family sets, any
    message size up to 65535, IPv4 or IPv6 transport, with or without a link-local address) and every
    route of the grammar (`WFReq`: AFI 1/2 × unicast, multicast, labelled, VPN; any mask, path id,
    label stack, RD; next hop address or `self`; any list of the eleven attribute keywords, in any
    order, repeated or not), whenever the encoder emits an UPDATE its bytes decode under the RFC
    reference decoder, and the decoded message meets the request pointwise.
    Missing for the full statement: the four next-hop situations excluded by `NextHopOk`. -/
theorem c01_roundtrip_partial (p : SessParams) (r : RouteReq) (bs : Bytes)
    (hs : WFSess p) (hw : WFReq p r) (hn : NextHopOk p r) (hsent : encodeExa p r = .sent bs) :
    ∃ u, decodeUpdate (paramsOf p) bs = .ok u ∧ Meets p r u := by
  obtain ⟨nh, hnh, hfam, hll, hself⟩ := hn
  exact ⟨_, roundtrip_sent p r bs nh hs hw hnh hfam hll hself hsent⟩

/-- **Defaults, spelled out** (instances of the attribute clause of `Meets`): an operator who gives no
    ORIGIN / AS_PATH / LOCAL_PREF gets ORIGIN IGP; AS_PATH empty on iBGP and exactly the true local AS
    on eBGP — also when that AS needs four octets and the peer is a 2-octet speaker (the receiver's
    RFC 6793 reconstruction is in `reportAttr`); LOCAL_PREF 100 on iBGP; and on eBGP no LOCAL_PREF at
    all, whatever was asked. -/
theorem c01_defaults (p : SessParams) (r : RouteReq) (u : UpdateSem) (h : Meets p r u) :
    (firstOf r.attrs 1 = none → reportAttr (paramsOf p) u 1 = some (.origin 0)) ∧
    (firstOf r.attrs 2 = none → p.localAs = p.peerAs → reportAttr (paramsOf p) u 2 = some (.asPath [])) ∧
    (firstOf r.attrs 2 = none → p.localAs ≠ p.peerAs →
      reportAttr (paramsOf p) u 2 = some (.asPath [(2, [p.localAs])])) ∧
    (firstOf r.attrs 5 = none → p.localAs = p.peerAs → reportAttr (paramsOf p) u 5 = some (.localPref 100)) ∧
    (p.localAs ≠ p.peerAs → reportAttr (paramsOf p) u 5 = none) := by
  obtain ⟨_, _, _, hattr, _⟩ := h
  refine ⟨?_, ?_, ?_, ?_, ?_⟩
  · intro h1
    have := hattr 1 (by decide)
    simp only [want, wantOrigin, h1, if_true] at this
    exact sameOpt_some_eq _ _ this (fun y h => by cases h) (fun y h => by cases h) (fun y h => by cases h)
  · intro h2 hi
    have := hattr 2 (by decide)
    simp only [want, wantPath, h2, show ¬ (2 = 1) by decide, if_false, if_true, ibgp, hi, beq_self_eq_true] at this
    exact sameOpt_some_eq _ _ this (fun y h => by cases h) (fun y h => by cases h) (fun y h => by cases h)
  · intro h2 hi
    have := hattr 2 (by decide)
    have hb : (p.localAs == p.peerAs) = false := by simpa using hi
    simp only [want, wantPath, h2, show ¬ (2 = 1) by decide, if_false, if_true, ibgp, hb, Bool.false_eq_true] at this
    exact sameOpt_some_eq _ _ this (fun y h => by cases h) (fun y h => by cases h) (fun y h => by cases h)
  · intro h5 hi
    have := hattr 5 (by decide)
    simp only [want, wantLocalPref, h5, show ¬ (5 = 1) by decide, show ¬ (5 = 2) by decide, show ¬ (5 = 4) by decide,
      if_false, if_true, ibgp, hi, beq_self_eq_true] at this
    exact sameOpt_some_eq _ _ this (fun y h => by cases h) (fun y h => by cases h) (fun y h => by cases h)
  · intro hi
    have := hattr 5 (by decide)
    have hb : (p.localAs == p.peerAs) = false := by simpa using hi
    simp only [want, show ¬ (5 = 1) by decide, show ¬ (5 = 2) by decide, show ¬ (5 = 4) by decide,
      if_false, if_true, ibgp, hb, Bool.false_eq_true] at this
    exact sameOpt_none _ this

/-- **next-hop self.** A message that meets a `next-hop self` request announces the route with the
    local address of the session; and the encoder resolves `self` to that address whenever the session
    address has the family of the route (`SelfOk`; the other case is finding `self-router-id` below). -/
theorem c01_self (p : SessParams) (r : RouteReq) (u : UpdateSem) (hself : r.nexthop = .self) (h : Meets p r u) :
    (report (paramsOf p) u).announce = [(r.afi, r.safi, p.localAddr, wantNlri p r)] := by
  have := h.1
  simpa [wantNh, hself] using this

theorem c01_self_resolves (p : SessParams) (r : RouteReq) (hw : WFReq p r) (hself : r.nexthop = .self)
    (hok : SelfOk p r) : resolveNh p r = some p.localAddr := by
  have ha := hw.1
  have hso := hok hself
  unfold resolveNh
  rw [hself]
  simp only [ipSelf]
  rcases ha with ha | ha
  · simp [ha, hso.1 ha]
  · simp [ha, hso.2 ha]

/-- **next-hop self is per session.** The same request (one route written once, announced to several
    neighbours) sent on two sessions reaches each peer with THAT session's local address — whatever the other
    session's address, AS numbers or capabilities are. (Corollary of `c01_roundtrip_partial` and `c01_self`: the
    model is a function of (session, request). That the CODE is one too — no state carried from one neighbour to
    the next through the shared Route / attribute objects — is what the `shared-route` stream of the check tests,
    through the real `Configuration.announce_route` over several neighbours, in any order and repeatedly.) -/
theorem c01_self_per_session (p1 p2 : SessParams) (r : RouteReq) (bs1 bs2 : Bytes)
    (hs1 : WFSess p1) (hs2 : WFSess p2) (hw1 : WFReq p1 r) (hw2 : WFReq p2 r) (hself : r.nexthop = .self)
    (hn1 : NextHopOk p1 r) (hn2 : NextHopOk p2 r)
    (h1 : encodeExa p1 r = .sent bs1) (h2 : encodeExa p2 r = .sent bs2) :
    ∃ u1 u2, decodeUpdate (paramsOf p1) bs1 = .ok u1 ∧ decodeUpdate (paramsOf p2) bs2 = .ok u2 ∧
      (report (paramsOf p1) u1).announce = [(r.afi, r.safi, p1.localAddr, wantNlri p1 r)] ∧
      (report (paramsOf p2) u2).announce = [(r.afi, r.safi, p2.localAddr, wantNlri p2 r)] := by
  obtain ⟨u1, hd1, hm1⟩ := c01_roundtrip_partial p1 r bs1 hs1 hw1 hn1 h1
  obtain ⟨u2, hd2, hm2⟩ := c01_roundtrip_partial p2 r bs2 hs2 hw2 hn2 h2
  exact ⟨u1, u2, hd1, hd2, c01_self p1 r u1 hself hm1, c01_self p2 r u2 hself hm2⟩

/-- What AS_TRANS substitution is: every AS number above 65535 becomes 23456, the others stay. -/
theorem c01_trans_def (a : Nat) : transAsn a = if a > 65535 then 23456 else a := by
  simp [transAsn, isBig, asnMax2, exaAsTrans]

/-- **AS_TRANS + AS4_PATH (RFC 6793), on the attributes as they are on the wire.** On a 4-octet session
    AS_PATH is the requested (or default) path and there is no AS4_PATH. On a 2-octet session AS_PATH
    is that path with every AS number above 65535 replaced by 23456 (`c01_trans_def`), and AS4_PATH
    carries the true path exactly when the path contains such a number, else it is absent. -/
theorem c01_astrans (p : SessParams) (r : RouteReq) (bs : Bytes)
    (hs : WFSess p) (hw : WFReq p r) (hn : NextHopOk p r) (hsent : encodeExa p r = .sent bs) :
    ∃ u, decodeUpdate (paramsOf p) bs = .ok u ∧
      (p.asn4 = true → rawAttr u 2 = some (.asPath (wantPath p r)) ∧ rawAttr u 17 = none) ∧
      (p.asn4 = false →
        rawAttr u 2 = some (.asPath (transSegs (wantPath p r))) ∧
        rawAttr u 17 = if hasBig (wantPath p r) then some (.as4Path (wantPath p r)) else none) := by
  obtain ⟨nh, hnh, hfam, hll, hself⟩ := hn
  refine ⟨sentSem p r nh, (roundtrip_sent p r bs nh hs hw hnh hfam hll hself hsent).1, ?_, ?_⟩
  · intro h4
    rw [raw_slot2 p r nh 2 (Or.inl rfl), raw_slot2 p r nh 17 (Or.inr rfl), modelPath_eq p r hs]
    simp [semAsPath, h4, gRaw, mk, Attr.code, AttrVal.code]
  · intro h4
    have hpl : plainSegs (wantPath p r) = wantPath p r := by
      rw [← modelPath_eq p r hs]; exact plainSegs_of_PathOk _ (modelPath_ok p r hs hw.2.2.2.2)
    rw [raw_slot2 p r nh 2 (Or.inl rfl), raw_slot2 p r nh 17 (Or.inr rfl), modelPath_eq p r hs]
    by_cases hb : hasBig (wantPath p r) = true
    · simp [semAsPath, h4, hpl, hb, gRaw, mk, Attr.code, AttrVal.code]
    · have hb' : hasBig (wantPath p r) = false := by simpa using hb
      simp [semAsPath, h4, hpl, hb', gRaw, mk, Attr.code, AttrVal.code]

/-- **A path with confederation segments on a 2-octet session (finding F99).**  With the confederation segments
    `c` in front (RFC 5065) and the AS_SEQUENCE / AS_SET segments `q` behind: AS_PATH carries the whole path with
    AS_TRANS for every AS number above 65535; AS4_PATH is sent exactly when `q` holds such a number and carries `q`
    only (RFC 6793 §3: no confederation segment in it); what the receiver reconstructs (RFC 6793 §4.2.3) is `c` as it
    travelled followed by the true `q`; and when no AS4_PATH is sent the AS_PATH already is that. -/
theorem c01_confed_path (p : SessParams) (c q : List Seg) (h4 : p.asn4 = false)
    (hc : ∀ s ∈ c, s.1 ≠ 1 ∧ s.1 ≠ 2) (hq : ∀ s ∈ q, (s.1 = 1 ∨ s.1 = 2) ∧ 1 ≤ s.2.length) :
    semAsPath p (c ++ q) =
      mk (paramsOf p) false true (.asPath (transSegs (c ++ q))) ::
        (if hasBig q then [mk (paramsOf p) true true (.as4Path q)] else []) ∧
    merge6793 (transSegs (c ++ q)) q = transSegs c ++ q ∧
    (hasBig q = false → transSegs (c ++ q) = transSegs c ++ q) := by
  have hpl : plainSegs (c ++ q) = q := plainSegs_confed_append c q hc (fun s hs => (hq s hs).1)
  refine ⟨?_, ?_, ?_⟩
  · simp [semAsPath, h4, hpl]
  · have := merge_trans_confed c q hc hq
    rwa [hpl] at this
  · intro hb
    have : transSegs q = q := transSegs_id q hb
    simp only [transSegs, List.map_append] at this ⊢
    rw [this]

-- {( 65001 300000 )} ( 200000 100 ): the confederation member above 65535 travels as AS_TRANS, the rest is whole
example : merge6793 (transSegs [(3, [65001, 300000]), (2, [200000, 100])]) (plainSegs [(3, [65001, 300000]), (2, [200000, 100])]) =
    [(3, [65001, 23456]), (2, [200000, 100])] := by decide

/-- **When nothing is announced.** The encoder raises only for `next-hop self` on an IPv6 route when
    the session's local address is IPv4 (no address to put: `ip_self` refuses), never otherwise. -/
theorem c01_raised_iff (p : SessParams) (r : RouteReq) :
    encodeExa p r = .raised ↔ resolveNh p r = none := by
  unfold encodeExa
  cases h : resolveNh p r with
  | none => simp
  | some nh =>
    simp only [defaultPathRaises_false, Bool.false_eq_true, if_false]
    constructor
    · intro hr
      by_cases cg : (nhFamilyGuard && !(nhFamilyOkB p r nh)) = true
      · simp [cg] at hr
      have cg' : (nhFamilyGuard && !(nhFamilyOkB p r nh)) = false := by simpa using cg
      simp only [cg', Bool.false_eq_true, if_false] at hr
      by_cases c1 : p.msgSize < 23 + (attrBytes p r nh).length
      · simp [c1] at hr
      simp only [c1, if_false] at hr
      by_cases c2 : p.msgSize - 23 - (attrBytes p r nh).length = 0
      · simp [c2] at hr
      simp only [c2, if_false] at hr
      by_cases hc : classic r nh = true
      · simp only [hc, if_true] at hr
        by_cases c3 : (packNlri p r).length ≤ p.msgSize - 23 - (attrBytes p r nh).length
        · simp [c3] at hr
        · simp [c3] at hr
      · have hc' : classic r nh = false := by simpa using hc
        simp only [hc', Bool.false_eq_true, if_false] at hr
        by_cases c3 : (mpPayload p r nh).length + (if (mpPayload p r nh).length > 255 then 4 else 3) >
            p.msgSize - 23 - (attrBytes p r nh).length
        · simp [c3] at hr
        · simp [c3] at hr
    · intro hr; cases hr

/-! ## Generated tables (re-extracted from /repo on every run) against the RFCs -/

/-- Every attribute class the packer emits has the Optional / Transitive bits RFC 4271 §5, RFC 1997,
    4360, 4456, 6793, 8092 give its type code (M-Wire's `specTable`), no Partial, no Extended Length
    in the class flag. -/
theorem c01_flags_rfc :
    ∀ row ∈ encFlags, flagSpec row.1 = some (row.2 / 128 % 2 == 1, row.2 / 64 % 2 == 1) ∧ row.2 % 64 = 0 := by
  decide

/-- Only IPv4 unicast is sent in the classic NLRI / WITHDRAWN ROUTES fields (RFC 4760 §1). -/
theorem c01_classic_only_unicast : classicSafisAnnounce = [1] ∧ classicSafisWithdraw = [1] := by decide

/-- The default AS_PATH is stored with 4-octet AS numbers, MP_REACH_NLRI is optional non-transitive
    type 14, values above 255 bytes get the Extended Length bit, AS_TRANS is 23456, a segment holds at
    most 255 AS numbers, the VPN next hop is preceded by an 8-byte zero RD, "no path id" is 0. -/
theorem c01_constants_rfc :
    defaultPathAsn4 = true ∧ mpFlag = 128 ∧ mpReachCode = 14 ∧ attrLenExtendedMax = 255 ∧ flagExtended = 16 ∧
    flagOptional = 128 ∧ exaAsTrans = Exa.Wire.asTrans ∧ asnMax2 = 65535 ∧ segmentMax = 255 ∧
    (∀ row ∈ nhRdSize, row.2.2 = if row.2.1 = 128 then 8 else 0) ∧ noPath = be32 0 := by
  decide

/-! ## Non-vacuity: a labelled VPN route with ADD-PATH on a 2-byte eBGP session -/

/-- eBGP 70000 → 65001, the peer does not speak 4-octet AS, ADD-PATH send for ipv4 mpls-vpn, 4096. -/
def pEx : SessParams :=
  { localAs := 70000, peerAs := 65001, sentAsn4 := true, asn4 := false, apSend := [(1, 128)], extnh := [],
    msgSize := 4096, localAddr := [10, 255, 0, 1], routerId := [9, 9, 9, 9], linkLocal := none }

/-- `route 10.0.0.0/24 next-hop self path-information 7 label [ 100 200 ] rd 65000:1
     as-path [ 65000 4200000000 ] community [ 30:30 10:10 ] med 5 aggregator ( 70000:1.2.3.4 )` -/
def rEx : RouteReq :=
  { afi := 1, safi := 128, plen := 24, pfx := [10, 0, 0], pathId := some 7, labels := [100, 200],
    rd := [0, 0, 253, 232, 0, 0, 0, 1], nexthop := .self,
    attrs := [.asPath [(2, [65000, 4200000000])], .communities [1966110, 655370], .med 5,
              .aggregator 70000 16909060] }

/-- What the encoder sends (`[]` when it sends nothing) and what the reference decoder makes of it. -/
def sentOf (p : SessParams) (r : RouteReq) : Bytes :=
  match encodeExa p r with
  | .sent b => b
  | _ => []

def decodedOf (p : SessParams) (r : RouteReq) : UpdateSem :=
  match decodeUpdate (paramsOf p) (sentOf p r) with
  | .ok u => u
  | .error _ => ⟨[], [], []⟩

example : WFSess pEx := by
  refine ⟨by simp [U32, pEx], by decide, by decide, by decide, by decide, by decide, by decide, by decide, by decide, by decide, ?_⟩
  intro ll h; cases h

example : WFReq pEx rEx := by
  refine ⟨by decide, by decide, by decide, trivial, ?_⟩
  intro a ha
  simp only [rEx, List.mem_cons, List.mem_nil_iff, or_false] at ha
  rcases ha with h | h | h | h <;> subst h <;> simp [WFReqAttr, U32]

example : NextHopOk pEx rEx := by
  refine ⟨[10, 255, 0, 1], by decide, ?_, ?_, ?_⟩
  · intro _; exact ⟨fun _ => Or.inl rfl, fun h => by cases h⟩
  · intro h; cases h
  · intro _; exact ⟨fun _ => rfl, fun h => by cases h⟩

/-- The encoder does emit an UPDATE for it … -/
example : encodeExa pEx rEx = .sent (sentOf pEx rEx) ∧ (sentOf pEx rEx).length = 117 := by decide

/-- … which the reference decoder reads as AS_PATH [65000, 23456] + AS4_PATH [65000, 4200000000]
    (reconstructed: [65000, 4200000000]), AGGREGATOR 23456 + AS4_AGGREGATOR 70000 (reconstructed: 70000),
    and an ipv4 mpls-vpn route with path id 7, two labels, the RD and the local address as next hop. -/
example : decodeUpdate (paramsOf pEx) (sentOf pEx rEx) = .ok (decodedOf pEx rEx) ∧
    rawAttr (decodedOf pEx rEx) 2 = some (.asPath [(2, [65000, 23456])]) ∧
    rawAttr (decodedOf pEx rEx) 17 = some (.as4Path [(2, [65000, 4200000000])]) ∧
    reportAttr (paramsOf pEx) (decodedOf pEx rEx) 2 = some (.asPath [(2, [65000, 4200000000])]) ∧
    reportAttr (paramsOf pEx) (decodedOf pEx rEx) 7 = some (.aggregator 70000 16909060) ∧
    (report (paramsOf pEx) (decodedOf pEx rEx)).announce =
      [(1, 128, [10, 255, 0, 1], ⟨some 7, [100, 200], [0, 0, 253, 232, 0, 0, 0, 1], 24, [10, 0, 0]⟩)] := by
  decide

/-! ## Why the full statement is false of the unchanged code (each witness is replayed on /repo by
      `corpus/C01/*.json`) -/

def pPlain : SessParams :=
  { localAs := 65000, peerAs := 65001, sentAsn4 := true, asn4 := true, apSend := [], extnh := [],
    msgSize := 4096, localAddr := [10, 255, 0, 1], routerId := [9, 9, 9, 9], linkLocal := none }

def nh6 : Bytes := [32, 1, 13, 184, 0, 0, 0, 0, 0, 0, 0, 0, 0, 0, 0, 1]

/-- `route 10.0.0.0/8 next-hop 2001:db8::1` -/
def rExtNh : RouteReq :=
  { afi := 1, safi := 1, plen := 8, pfx := [10], pathId := none, labels := [], rd := [],
    nexthop := .v6 nh6, attrs := [] }

/-- On a session without RFC 8950 ExaBGP sends it as MP_REACH_NLRI (AFI 1) with a 16-byte next hop,
    which a receiver that did not negotiate extended next hop must reject (UPDATE Message Error 3/9). -/
theorem c01_full_fails_ext_nexthop :
    WFReq pPlain rExtNh ∧ (nhFamilyGuard = false →
      encodeExa pPlain rExtNh = .sent (sentOf pPlain rExtNh) ∧
      decodeUpdate (paramsOf pPlain) (sentOf pPlain rExtNh) = .error (3, 9)) := by
  refine ⟨?_, by decide⟩
  exact ⟨by decide, by decide, by decide, ⟨by decide, by decide⟩, fun a h => by cases h⟩

/-- `route 2001:db8::/32 next-hop 1.2.3.4` -/
def rV4NhV6 : RouteReq :=
  { afi := 2, safi := 1, plen := 32, pfx := [32, 1, 13, 184], pathId := none, labels := [], rd := [],
    nexthop := .v4 [1, 2, 3, 4], attrs := [] }

/-- An IPv6 route is sent with a 4-byte next hop (3/9). -/
theorem c01_full_fails_v4_nexthop_v6_route :
    WFReq pPlain rV4NhV6 ∧ (nhFamilyGuard = false →
      encodeExa pPlain rV4NhV6 = .sent (sentOf pPlain rV4NhV6) ∧
      decodeUpdate (paramsOf pPlain) (sentOf pPlain rV4NhV6) = .error (3, 9)) := by
  refine ⟨?_, by decide⟩
  exact ⟨by decide, by decide, by decide, ⟨by decide, by decide⟩, fun a h => by cases h⟩

/-- The same session over IPv6 transport. -/
def pV6 : SessParams := { pPlain with localAddr := nh6 }

/-- `route 10.0.0.0/8 next-hop self` -/
def rSelf : RouteReq :=
  { afi := 1, safi := 1, plen := 8, pfx := [10], pathId := none, labels := [], rd := [],
    nexthop := .self, attrs := [] }

/-- On an IPv6 session the NEXT_HOP sent for it is the router id 9.9.9.9, not an address of the session. -/
theorem c01_full_fails_self_router_id :
    WFReq pV6 rSelf ∧ encodeExa pV6 rSelf = .sent (sentOf pV6 rSelf) ∧
    decodeUpdate (paramsOf pV6) (sentOf pV6 rSelf) = .ok (decodedOf pV6 rSelf) ∧
    (report (paramsOf pV6) (decodedOf pV6 rSelf)).announce = [(1, 1, [9, 9, 9, 9], ⟨none, [], [], 8, [10]⟩)] := by
  refine ⟨?_, by decide, by decide, by decide⟩
  exact ⟨by decide, by decide, by decide, trivial, fun a h => by cases h⟩

/-- With the link-local next-hop capability and a local link-local address fe80::c01 … -/
def pLL : SessParams :=
  { pPlain with linkLocal := some [254, 128, 0, 0, 0, 0, 0, 0, 0, 0, 0, 0, 0, 0, 12, 1] }

/-- `route 2001:db8::/32 next-hop 2001:db8::1 label 3 rd 65000:1` -/
def rVpn6 : RouteReq :=
  { afi := 2, safi := 128, plen := 32, pfx := [32, 1, 13, 184], pathId := none, labels := [3],
    rd := [0, 0, 253, 232, 0, 0, 0, 1], nexthop := .v6 nh6, attrs := [] }

/-- … it is sent with a 40-byte next hop (zero RD + global + link-local); RFC 4659 §3.2.1 allows 24 or 48 (3/9). -/
theorem c01_full_fails_link_local_vpn :
    WFReq pLL rVpn6 ∧ encodeExa pLL rVpn6 = .sent (sentOf pLL rVpn6) ∧
    decodeUpdate (paramsOf pLL) (sentOf pLL rVpn6) = .error (3, 9) := by
  refine ⟨?_, by decide, by decide⟩
  exact ⟨by decide, by decide, by decide, ⟨by decide, by decide⟩, fun a h => by cases h⟩

/-- Hence the full statement does not hold of the model of the unchanged code (the link-local VPN next
    hop alone refutes it, whatever the tree does about next-hop families). -/
theorem c01_full_fails : ¬ C01Full := by
  intro h
  obtain ⟨hw, hsent, hdec⟩ := c01_full_fails_link_local_vpn
  have hs : WFSess pLL := by
    refine ⟨by simp [U32, pLL, pPlain], by decide, by decide, by decide, by decide, by decide, by decide, by decide,
      by decide, by decide, ?_⟩
    intro ll hl
    simp only [pLL, Option.some.injEq] at hl
    subst hl; rfl
  obtain ⟨u, hu, _⟩ := h pLL rVpn6 _ hs hw hsent
  rw [hdec] at hu
  cases hu

end Exa.Props.C01
