import ExaModel.Lemmas.OpenCodecRefuse
import ExaModel.Lemmas.NegoRefuse
import ExaModel.Lemmas.NegoPerm
import ExaModel.Lemmas.NegoWf
import ExaModel.Generated.CapTable
import ExaModel.Lemmas.NegoPy
set_option linter.unusedSimpArgs false
set_option linter.unusedVariables false
/-!
# C07 — negotiated session parameters are the RFC function of the two OPENs

Statement (properties.jsonl): for every pair of OPEN messages (ours generated from any neighbor
configuration, the peer arbitrary), the parameters in force for the session — address families,
4-byte AS use and both true AS numbers, ADD-PATH send/receive per family, extended next hop,
route-refresh flavour, maximum message size, hold time — are exactly the RFC-defined function of
the two capability sets (intersection for families, both-sides for options, minimum for hold time,
ADD-PATH send iff we send and they receive).  The OPEN ExaBGP sends advertises exactly what the
configuration enables and survives encode/decode unchanged, including when the optional parameters
exceed 255 bytes (RFC 9072); peer OPENs the RFCs require to be refused are refused with the OPEN
error subcode for that fault.

Models: `Exa.Open` — M-OpenCodec (`encodeOpenG`/`encodeOpen`, `decodeOpen`, `capSet`) and M-Nego
(`ourOpen`, `negotiate`, `validateOpen`; spec `rfcNegotiate`, `rfcRefusals`).  `negotiate` is
`Negotiated._negotiate` as the code computes it; the theorems below quantify over ALL pairs of
OPEN messages (`o`, `t` arbitrary `OpenMsg`: any capabilities in any order with any repetition,
any fixed fields) and state every parameter on the raw capability lists.

Strength: every clause is proved in full (F4 — local AS and the internal-peer identifier check
read from the 2-octet field — and the 2/0 answer to an unrecognised optional parameter were
repaired in /repo; the witnesses are kept below as examples of the repaired behaviour).
Our OPEN: `advertises_exactly_config` (negotiated views) and `advertises_every_capability` (every
capability `Capabilities.new` emits: advertised iff enabled, with exactly the configured value);
`cfgOK` is the closed-form class of configurations (`cfgOK_wf`: each has an OPEN with a wire form,
`our_open_roundtrip`: it survives encode/decode in either format); host/domain names longer than
64 octets (accepted by the grammar up to 255) are advertised cut to 64 — stated, not hidden.
ADD-PATH octets outside 0..3 are read by the code as a bit mask (RFC 7911: SHOULD be ignored):
`addpath_send_iff`/`addpath_receive_iff` state the bit-mask behaviour for all octets, the `_rfc`
forms the RFC reading under `validSR`; `addpath_octet_5_deviation` is the witness.
-/
namespace Exa.Props.C07
open Exa Exa.Open

/-! ## The parameters in force, for all pairs of OPENs -/

/-- **Families = intersection.** A family is negotiated iff both OPENs carry its MP capability
    (whatever the order, grouping or repetition of the capabilities)… -/
theorem families_inter (o t : OpenMsg) (f : Family) :
    f ∈ (negotiate o t).families ↔ Cap.mp f.1 f.2 ∈ o.caps ∧ Cap.mp f.1 f.2 ∈ t.caps :=
  negotiate_families_mem o t f

/-- …and is listed once. -/
theorem families_nodup (o t : OpenMsg) : (negotiate o t).families.Nodup :=
  negotiate_families_nodup o t

/-- **4-octet AS numbers are used iff both sides advertise the capability.** -/
theorem asn4_both (o t : OpenMsg) :
    (negotiate o t).asn4 = true ↔ (∃ a, Cap.asn4 a ∈ o.caps) ∧ (∃ b, Cap.asn4 b ∈ t.caps) := by
  rw [negotiate_asn4, Bool.and_eq_true, asn4Of_isSome, asn4Of_isSome]

/-- **True peer AS.** For a peer whose My-AS field is what RFC 6793 §4.1 prescribes (its AS, or
    AS_TRANS when that does not fit), the peer AS in force is the RFC one: the number in its ASN4
    capability when both sides are 4-octet speakers, the field otherwise. -/
theorem true_as_peer (o t : OpenMsg) (h : consistentAs t) :
    (negotiate o t).peerAs = (rfcNegotiate o t).peerAs :=
  peerAs_eq_rfc o t h

/-- In particular AS_TRANS on the wire is replaced by the capability's number. -/
theorem true_as_peer_trans (o t : OpenMsg) (a b : Nat) (ho : asn4Of o.caps = some b)
    (ht : asn4Of t.caps = some a) (hf : t.myAs = asTrans) : (negotiate o t).peerAs = a := by
  rw [negotiate_peerAs]; simp [ho, ht, hf]

/-- **True local AS.** The local AS in force is the configured one whenever our OPEN carries it:
    ASN4 enabled (any AS number), or a number that fits the 2-octet field. -/
theorem true_as_local (cfg : Cfg) (t : OpenMsg) (h : cfg.asn4 = true ∨ cfg.localAs ≤ 65535) :
    (negotiate (ourOpen cfg) t).localAs = cfg.localAs := by
  rw [negotiate_localAs, show (ourOpen cfg).caps = ourCaps cfg from rfl, ourCaps_asn4Of]
  cases h4 : cfg.asn4 with
  | true => simp
  | false =>
    have hl : ¬ cfg.localAs > 65535 := by
      rcases h with h | h
      · simp [h4] at h
      · omega
    simp [ourOpen, Open.trans, hl]

/-- …and it is the RFC one for every pair of OPENs. -/
theorem true_as_local_rfc (o t : OpenMsg) : (negotiate o t).localAs = (rfcNegotiate o t).localAs := by
  rw [negotiate_localAs]; rfl

/-- **ADD-PATH send ⇔ we send ∧ they receive**, on the Send/Receive octet in force on each side
    (the last entry for the family over all ADD-PATH capabilities of that OPEN), the octets read as
    the code reads them (bit 2 = send, bit 1 = receive). Holds for every octet value. -/
theorem addpath_send_iff (o t : OpenMsg) (f : Family) :
    (negotiate o t).send f = true ↔ sendBit (srOf o.caps f) = true ∧ recvBit (srOf t.caps f) = true := by
  rw [negotiate_send, Bool.and_eq_true]

/-- dual: we accept path identifiers on `f` ⇔ we receive ∧ they send. -/
theorem addpath_receive_iff (o t : OpenMsg) (f : Family) :
    (negotiate o t).receive f = true ↔ recvBit (srOf o.caps f) = true ∧ sendBit (srOf t.caps f) = true := by
  rw [negotiate_receive, Bool.and_eq_true]

/-- With the octets RFC 7911 defines (1 receive, 2 send, 3 both; 0 for nothing) this is exactly
    the RFC function, and the families it holds for are those of `rfcNegotiate`. -/
theorem addpath_send_rfc (o t : OpenMsg) (ho : validSR o.caps) (ht : validSR t.caps) (f : Family) :
    (negotiate o t).send f = true ↔ f ∈ (rfcNegotiate o t).apSend := by
  rw [addpath_send_iff, rfc_apSend_mem, sendBit_eq_rfc _ (srOf_le _ f ho), recvBit_eq_rfc _ (srOf_le _ f ht)]

theorem addpath_receive_rfc (o t : OpenMsg) (ho : validSR o.caps) (ht : validSR t.caps) (f : Family) :
    (negotiate o t).receive f = true ↔ f ∈ (rfcNegotiate o t).apRecv := by
  rw [addpath_receive_iff, rfc_apRecv_mem, recvBit_eq_rfc _ (srOf_le _ f ho), sendBit_eq_rfc _ (srOf_le _ f ht)]

/-- **Extended next hop = intersection** of the (AFI, SAFI, next-hop AFI) triples advertised. -/
theorem extnh_inter (o t : OpenMsg) (x : Triple) :
    x ∈ (negotiate o t).nexthop ↔
      (∃ es, Cap.nexthop es ∈ o.caps ∧ x ∈ es) ∧ (∃ es, Cap.nexthop es ∈ t.caps ∧ x ∈ es) := by
  rw [negotiate_nexthop_mem, mem_nexthopOf, mem_nexthopOf]

/-- **Route-refresh flavour**: enhanced iff both advertise Enhanced Route Refresh, else normal iff
    both advertise Route Refresh (code 2), else absent. -/
theorem refresh_flavour (o t : OpenMsg) :
    (negotiate o t).refresh =
      if Cap.enhanced ∈ o.caps ∧ Cap.enhanced ∈ t.caps then .enhanced
      else if Cap.refresh ∈ o.caps ∧ Cap.refresh ∈ t.caps then .normal else .absent := by
  rw [negotiate_refresh]; simp [List.contains_iff_mem]

/-- **Maximum message size**: 65535 iff both advertise Extended Message, else 4096. -/
theorem msgsize (o t : OpenMsg) :
    (negotiate o t).msgSize = if Cap.extMsg ∈ o.caps ∧ Cap.extMsg ∈ t.caps then 65535 else 4096 := by
  rw [negotiate_msgSize]; simp [List.contains_iff_mem]

/-- **Hold time = minimum** of the two Hold Time fields. -/
theorem hold_min (o t : OpenMsg) : (negotiate o t).hold = min o.hold t.hold := rfl

/-- **All parameters together.** For a peer with RFC-defined octets (`validSR`, `consistentAs`) and
    our OPEN `o` built with RFC-defined ADD-PATH octets, every parameter of `negotiate` equals the
    one of the independent specification `rfcNegotiate`. -/
theorem negotiate_is_rfc (o t : OpenMsg) (ho : validSR o.caps) (ht : validSR t.caps)
    (hc : consistentAs t) :
    let n := negotiate o t
    let r := rfcNegotiate o t
    n.hold = r.hold ∧ n.asn4 = r.asn4 ∧ n.localAs = r.localAs ∧ n.peerAs = r.peerAs
      ∧ (∀ f, f ∈ n.families ↔ f ∈ r.families) ∧ (∀ x, x ∈ n.nexthop ↔ x ∈ r.nexthop)
      ∧ (∀ f, n.send f = true ↔ f ∈ r.apSend) ∧ (∀ f, n.receive f = true ↔ f ∈ r.apRecv)
      ∧ n.refresh = r.refresh ∧ n.msgSize = r.msgSize := by
  refine ⟨?_, ?_, ?_, peerAs_eq_rfc o t hc, ?_, ?_, addpath_send_rfc o t ho ht, addpath_receive_rfc o t ho ht, ?_, ?_⟩
  · simp only [negotiate_hold, rfcNegotiate, Nat.min_def]
  · simp only [negotiate_asn4, rfcNegotiate]
  · exact true_as_local_rfc o t
  · intro f; rw [negotiate_families_mem, rfc_families_mem]
  · intro x; rw [negotiate_nexthop_mem, rfc_nexthop_mem]
  · rw [negotiate_refresh]; rfl
  · rw [negotiate_msgSize]; rfl

/-! ## Encode / decode -/

/-- **Round trip, every layout, both formats.** For every version-4 OPEN whose fields fit the wire
    (`wfFixed`, `wfGroups`): whatever the grouping `gs` of the capabilities into Capabilities
    parameters and in the RFC 4271 one-octet format (`ext = false`, parameter block up to 255
    octets) as in the RFC 9072 extended format (`ext = true`, up to 65535 octets), decoding the
    reference encoding gives the fixed fields and the capabilities back, in order. -/
theorem open_roundtrip_layout (ext : Bool) (myAs hold bgpId : Nat) (gs : List (List Cap))
    (hf : wfFixed myAs hold bgpId = true) (hg : wfGroups ext gs = true) :
    decodeOpen (encodeOpenG ext 4 myAs hold bgpId gs)
      = .ok { version := 4, myAs := myAs, hold := hold, bgpId := bgpId, caps := gs.flatten } :=
  decodeOpen_encG ext myAs hold bgpId gs hf hg

/-- **Round trip in the layout ExaBGP emits** (one capability per parameter; RFC 9072 format as soon
    as the one-octet form of the parameters is not shorter than 255 octets — the switch point of
    `pack_capabilities`), for every well-formed OPEN, below and above the switch. -/
theorem open_roundtrip (o : OpenMsg) (h : wfOpen o = true) : decodeOpen (encodeOpen o) = .ok o :=
  decodeOpen_encode o h

/-- **Every configuration in the closed-form class `cfgOK` has an OPEN with a wire form.** `cfgOK`
    (decidable, `Model/Nego.lean`) asks: local AS < 2³², hold time < 2¹⁶, identifier < 2³², every
    family AFI < 2¹⁶ / SAFI < 2⁸ and at most 62 families, ADD-PATH direction an octet, paths-limit
    values < 2¹⁶ (at most 50 of them), host/domain names ASCII, software string valid UTF-8 of at most
    252 octets.  Nothing else: every capability then fits one parameter of either format and the
    whole block stays below 65536 octets (at most `families + 15` capabilities of ≤ 258 octets). -/
theorem cfgOK_wf (cfg : Cfg) (h : cfgOK cfg = true) : wfOpen (ourOpen cfg) = true :=
  Open.cfgOK_wf cfg h

/-- **The OPEN we send survives encode/decode unchanged**, for every configuration in `cfgOK`,
    whatever its size — one-octet form below 255 octets of parameters, RFC 9072 form from 255 on
    (`demoBig`: 40 families, 374 octets). The harness checks `cfgOK` on every configuration the real
    parser / `NeighborSettings.validate` accepts. -/
theorem our_open_roundtrip (cfg : Cfg) (h : cfgOK cfg = true) :
    decodeOpen (encodeOpen (ourOpen cfg)) = .ok (ourOpen cfg) :=
  decodeOpen_encode _ (Open.cfgOK_wf cfg h)

/-- **The OPEN we send advertises exactly what the configuration enables** — the views the session
    parameters are computed from: fixed fields; MP families = configured families; ASN4 = the real
    local AS iff enabled; ADD-PATH octet of a family = the configured direction on the configured
    ADD-PATH families (of those the implementation supports), 0 elsewhere; extended next hop =
    configured ∩ supported; (enhanced) route refresh and extended message iff enabled. -/
theorem advertises_exactly_config (cfg : Cfg) :
    (ourOpen cfg).version = 4 ∧ (ourOpen cfg).myAs = Open.trans cfg.localAs ∧ (ourOpen cfg).hold = cfg.hold
      ∧ (ourOpen cfg).bgpId = cfg.routerId
      ∧ (∀ a s, Cap.mp a s ∈ (ourOpen cfg).caps ↔ (a, s) ∈ cfg.families)
      ∧ asn4Of (ourOpen cfg).caps = (if cfg.asn4 then some cfg.localAs else none)
      ∧ (∀ f, srOf (ourOpen cfg).caps f
              = if cfg.addPath ≠ 0 ∧ f ∈ addPathAllowed ∧ f ∈ cfg.addpaths then cfg.addPath else 0)
      ∧ (∀ x, x ∈ nexthopOf (ourOpen cfg).caps ↔ cfg.nexthopOn = true ∧ x ∈ nexthopAllowed ∧ x ∈ cfg.nexthops)
      ∧ (Cap.refresh ∈ (ourOpen cfg).caps ↔ cfg.routeRefresh = true)
      ∧ (Cap.enhanced ∈ (ourOpen cfg).caps ↔ cfg.routeRefresh = true)
      ∧ (Cap.extMsg ∈ (ourOpen cfg).caps ↔ cfg.extMsg = true) :=
  ⟨rfl, rfl, rfl, rfl, ourCaps_mp cfg, ourCaps_asn4Of cfg, ourCaps_srOf cfg, ourCaps_nexthopOf cfg,
    ourCaps_refresh cfg, ourCaps_enhanced cfg, ourCaps_extMsg cfg⟩

/-- **…capability by capability, for EVERY capability `Capabilities.new` can emit: advertised iff
    enabled, with exactly the configured value** (membership in the emitted list, for any value):
    * ASN4 `v`: enabled and `v` = the local AS; next hop / ADD-PATH: enabled and the entries are the
      supported triples / families that are configured (ADD-PATH: each with the configured direction);
    * paths-limit: ADD-PATH on, and the entries are the configured non-zero limits of the configured,
      supported ADD-PATH families on which we advertise *receive* (none ⇒ no capability);
    * graceful restart: enabled; restart flags 0 (`restarted = False`), time = the configured time —
      the hold time when that is 0 (`Neighbor.infer`) — modulo 4096, every configured family with
      the forwarding bit (0x80);
    * hostname: the host name is not empty; host and domain cut to 64 octets;
    * software version: enabled, the string `Software()` builds;
    * operational, link-local next hop, (enhanced) route refresh, extended message: iff enabled;
    * multisession (code 68): enabled; the two instances the code emits, values `00` and `01`;
    * never: Cisco route refresh (128), Cisco multisession (131), an unknown code. -/
theorem advertises_every_capability (cfg : Cfg) :
    (∀ v, Cap.asn4 v ∈ (ourOpen cfg).caps ↔ cfg.asn4 = true ∧ v = cfg.localAs)
    ∧ (∀ es, Cap.nexthop es ∈ (ourOpen cfg).caps ↔
        cfg.nexthopOn = true ∧ es = nexthopAllowed.filter (fun t => cfg.nexthops.contains t))
    ∧ (∀ es, Cap.addpath es ∈ (ourOpen cfg).caps ↔
        cfg.addPath ≠ 0 ∧ es = (addPathAllowed.filter (fun f => cfg.addpaths.contains f)).map (famTriple cfg.addPath))
    ∧ (∀ es, Cap.pathsLimit es ∈ (ourOpen cfg).caps ↔ cfg.addPath ≠ 0 ∧ ourPathsLimit cfg ≠ [] ∧ es = ourPathsLimit cfg)
    ∧ (∀ a s l, (a, s, l) ∈ ourPathsLimit cfg ↔
        ((a, s), l) ∈ cfg.pathsLimit ∧ (a, s) ∈ addPathAllowed ∧ (a, s) ∈ cfg.addpaths ∧ cfg.addPath % 2 = 1 ∧ 0 < l)
    ∧ (∀ fl t fams, Cap.graceful fl t fams ∈ (ourOpen cfg).caps ↔
        ∃ rt, cfg.graceful = some rt ∧ fl = 0 ∧ t = (if rt = 0 then cfg.hold else rt) % 4096
          ∧ fams = cfg.families.map (fun f => (f.1, f.2, 128)))
    ∧ (∀ h d, Cap.hostname h d ∈ (ourOpen cfg).caps ↔ cfg.host ≠ [] ∧ h = cfg.host.take 64 ∧ d = cfg.domain.take 64)
    ∧ (∀ v, Cap.software v ∈ (ourOpen cfg).caps ↔ cfg.software = true ∧ v = cfg.swVersion)
    ∧ (Cap.operational ∈ (ourOpen cfg).caps ↔ cfg.operational = true)
    ∧ (Cap.linkLocal ∈ (ourOpen cfg).caps ↔ cfg.linkLocal = true)
    ∧ (∀ c v, Cap.multisession c v ∈ (ourOpen cfg).caps ↔ cfg.multiSession = true ∧ c = false ∧ (v = [0] ∨ v = [1]))
    ∧ Cap.refreshCisco ∉ (ourOpen cfg).caps ∧ (∀ c v, Cap.unknown c v ∉ (ourOpen cfg).caps) :=
  ⟨ourCaps_asn4_mem cfg, ourCaps_nexthop_mem cfg, ourCaps_addpath_mem cfg, ourCaps_pathsLimit_mem cfg,
    mem_ourPathsLimit cfg, ourCaps_graceful_mem cfg, ourCaps_hostname_mem cfg, ourCaps_software_mem cfg,
    ourCaps_operational cfg, ourCaps_linkLocal cfg, ourCaps_multisession_mem cfg,
    (ourCaps_never cfg).1, (ourCaps_never cfg).2.1⟩

/-- One MP capability per configured family and at most 15 others. -/
theorem our_open_size (cfg : Cfg) : (ourOpen cfg).caps.length ≤ cfg.families.length + 15 :=
  ourCaps_length cfg

/-! ## The peer side of the informational capabilities -/

/-- **Operational** messages are in force iff both sides advertise the capability; the same for
    **link-local next hop**. -/
theorem operational_both (o t : OpenMsg) :
    ((negotiate o t).operational = true ↔ Cap.operational ∈ o.caps ∧ Cap.operational ∈ t.caps)
    ∧ ((negotiate o t).linkLocal = true ↔ Cap.linkLocal ∈ o.caps ∧ Cap.linkLocal ∈ t.caps) := by
  rw [negotiate_operational, negotiate_linkLocal]
  simp [List.contains_iff_mem]

/-- **Multisession (draft), not configured**: whatever the peer sends, nothing is negotiated and
    nothing is refused on its account. -/
theorem multisession_off (cfg : Cfg) (t : OpenMsg) (h : cfg.multiSession = false) :
    (negotiate (ourOpen cfg) t).multisession = .no := by
  rw [negotiate_multisession, show (ourOpen cfg).caps = ourCaps cfg from rfl, (ourCaps_isMs cfg).1, (ourCaps_isMs cfg).2, h]
  simp

/-- **Multisession configured, peer does not advertise it (code 68)**: refused with 2/9 — the
    verdict `validate` returns when no RFC fault comes first. -/
theorem multisession_mandatory (cfg : Cfg) (t : OpenMsg) (h : cfg.multiSession = true)
    (ht : ∀ v, Cap.multisession false v ∉ t.caps) :
    (negotiate (ourOpen cfg) t).multisession = .err 2 9 := by
  have hn : t.caps.any (isMs false) = false := by
    cases h2 : t.caps.any (isMs false) with
    | false => rfl
    | true => obtain ⟨v, hv⟩ := (any_isMs_iff _ _).1 h2; exact absurd hv (ht v)
  rw [negotiate_multisession, show (ourOpen cfg).caps = ourCaps cfg from rfl, (ourCaps_isMs cfg).1, (ourCaps_isMs cfg).2, h, hn]
  simp

/-- **Multisession on both sides**: agreed iff the peer's MP capability, in the order the dict holds its
    families, is ours; 2/8 otherwise — also when the peer sent no MP capability at all (until the repair of F97
    that case raised a `KeyError` out of `_negotiate` and the session was reset without a NOTIFICATION). -/
theorem multisession_both (cfg : Cfg) (t : OpenMsg) (h : cfg.multiSession = true)
    (v : Bytes) (ht : Cap.multisession false v ∈ t.caps) :
    (negotiate (ourOpen cfg) t).multisession =
      if some ((capSet (ourOpen cfg).caps).mp.getD []) ≠ (capSet t.caps).mp then .err 2 8 else .yes := by
  have hn : t.caps.any (isMs false) = true := (any_isMs_iff _ _).2 ⟨v, ht⟩
  rw [negotiate_multisession, show (ourOpen cfg).caps = ourCaps cfg from rfl, (ourCaps_isMs cfg).1, (ourCaps_isMs cfg).2, h, hn]
  simp

/-- **A repeated graceful-restart capability: the last one replaces the earlier ones**; restart
    flags are the top 4 bits, the time the low 12, and only the forwarding bit (0x80) of each
    family's flags is kept (`Graceful.set`). -/
theorem graceful_last_wins (caps : List Cap) (fl t : Nat) (fams : List Triple) :
    (capSet (caps ++ [Cap.graceful fl t fams])).graceful
      = some (fl, t % 4096, (fams.map fwdBit).foldl insertEntry []) := by
  simp [capSet, List.foldl_append, CapSet.add]

/-! ## Order and repetition of the peer's capabilities -/

/-- **Repeated MP capabilities accumulate**: the dict holds exactly the families that occur, once. -/
theorem mp_accumulates (caps : List Cap) (f : Family) :
    (f ∈ (capSet caps).mp.getD [] ↔ Cap.mp f.1 f.2 ∈ caps) ∧ ((capSet caps).mp.getD []).Nodup :=
  ⟨capSet_mp_mem caps f, capSet_mp_nodup caps⟩

/-- **Repeated ADD-PATH capabilities / entries accumulate**: the octet held for a family is its
    last entry over all ADD-PATH capabilities received (a later entry overrides), 0 if none. -/
theorem addpath_accumulates (caps : List Cap) (f : Family) :
    (AList.lookup f ((capSet caps).addpath.getD [])).getD 0 = srOf caps f :=
  capSet_addpath_sr caps f

/-- **A repeated ASN4 capability: the last one wins.** -/
theorem asn4_last_wins (caps : List Cap) (v : Nat) : (capSet (caps ++ [Cap.asn4 v])).asn4 = some v := by
  simp [capSet, List.foldl_append, CapSet.add]

/-- **Order does not matter.** Permuting the peer's capabilities (their wire order; by
    `open_roundtrip_layout` also their grouping into parameters) leaves every negotiated parameter
    unchanged (families / next hops as sets), provided repeated ASN4 capabilities and repeated
    ADD-PATH entries of a family agree (otherwise the later one counts, see above). -/
theorem decode_order_irrelevant (o t t' : OpenMsg) (hp : t.caps.Perm t'.caps)
    (hAs : t'.myAs = t.myAs) (hHold : t'.hold = t.hold)
    (h4 : asn4Single t.caps) (hsr : srSingle t.caps) :
    SameParams (negotiate o t) (negotiate o t') :=
  negotiate_perm o t t' hp hAs hHold h4 hsr

/-- The same on the wire: two encodings of the peer's OPEN — any two formats, any two groupings, the
    capabilities of one a permutation of the other's — decode, and negotiate to the same parameters. -/
theorem decode_bytes_order_irrelevant (o : OpenMsg) (ext ext' : Bool) (myAs hold bgpId : Nat)
    (gs gs' : List (List Cap)) (hf : wfFixed myAs hold bgpId = true)
    (hg : wfGroups ext gs = true) (hg' : wfGroups ext' gs' = true) (hp : gs.flatten.Perm gs'.flatten)
    (h4 : asn4Single gs.flatten) (hsr : srSingle gs.flatten) :
    ∃ t t', decodeOpen (encodeOpenG ext 4 myAs hold bgpId gs) = .ok t
      ∧ decodeOpen (encodeOpenG ext' 4 myAs hold bgpId gs') = .ok t'
      ∧ SameParams (negotiate o t) (negotiate o t') :=
  ⟨_, _, decodeOpen_encG ext myAs hold bgpId gs hf hg, decodeOpen_encG ext' myAs hold bgpId gs' hf hg',
    negotiate_perm o _ _ hp rfl rfl h4 hsr⟩

/-! ## Refusals -/

/-- **short → 1/2**: fewer than the 10 fixed octets. -/
theorem refuse_short (body : Bytes) (h : body.length < 10) : decodeOpen body = .error ⟨1, 2⟩ := by
  simp [decodeOpen, h]

/-- **version → 2/1**: any version other than 4, whatever follows. -/
theorem refuse_version (body : Bytes) (h : 10 ≤ body.length) (hv : body.getD 0 0 ≠ 4) :
    decodeOpen body = .error ⟨2, 1⟩ := by
  have : ¬ body.length < 10 := by omega
  unfold decodeOpen
  rw [if_neg this, if_pos hv]

/-- **auth_param → 2/5**: an Authentication Information parameter (type 1) met after any
    well-formed capability parameters, in either format. -/
theorem refuse_auth_param (ext : Bool) (myAs hold bgpId : Nat) (gs : List (List Cap)) (v tail : Bytes)
    (hf : wfFixed myAs hold bgpId = true) (hg : gs.all (wfGroup ext) = true)
    (hv : v.length < (if ext then 65536 else 256))
    (hl : (encParams ext gs ++ (rawParam ext 1 v ++ tail)).length < (if ext then 65536 else 255)) :
    decodeOpen (openRaw ext myAs hold bgpId (encParams ext gs ++ (rawParam ext 1 v ++ tail))) = .error ⟨2, 5⟩ := by
  have := decodeOpen_other_param ext myAs hold bgpId gs 1 v tail hf hg (by decide) hv hl
  simpa using this

/-- **any other parameter type → 2/4** (Unsupported Optional Parameters, RFC 4271 §6.2). -/
theorem refuse_other_param (ext : Bool) (myAs hold bgpId : Nat) (gs : List (List Cap)) (k : Nat) (v tail : Bytes)
    (hf : wfFixed myAs hold bgpId = true) (hg : gs.all (wfGroup ext) = true) (hk1 : k ≠ 1) (hk2 : k ≠ 2)
    (hv : v.length < (if ext then 65536 else 256))
    (hl : (encParams ext gs ++ (rawParam ext k v ++ tail)).length < (if ext then 65536 else 255)) :
    decodeOpen (openRaw ext myAs hold bgpId (encParams ext gs ++ (rawParam ext k v ++ tail))) = .error ⟨2, 4⟩ := by
  have := decodeOpen_other_param ext myAs hold bgpId gs k v tail hf hg hk2 hv hl
  simpa [hk1] using this

/-- **The model is the code** (refusals after negotiation): `Negotiated.validate`, translated statement by
    statement from /repo on this run (`harness/pylite.py` → `Generated/PyNego.lean`), refuses exactly when and
    with exactly the (code, subcode) the model's `validateOpen` does — for every configuration, negotiated
    state and peer OPEN.  The refusal theorems below are about `validateOpen`, hence about the code as it is;
    a changed comparison or a swapped test in `validate` breaks this obligation directly. -/
theorem validate_py_is_model (cfg : Cfg) (n : Negotiated) (t : OpenMsg) :
    Generated.PyNego.Negotiated.validate ⟨⟩ cfg.peerAs n.peerAs (decide (t.bgpId = 0)) cfg.localAs
        (decide (t.bgpId = cfg.routerId)) t.hold n.multisession.refused n.multisession.code n.multisession.sub =
      liftValidate (validateOpen cfg n t) :=
  py_validate_eq_model cfg n t

/-- **The model is the code** (scalar negotiation): the slice of `Negotiated._negotiate` that computes the hold
    time, asn4, operational, the two AS numbers in force, the route-refresh flavour, the maximum message size and
    link-local next hop — translated statement by statement from /repo on this run — computes exactly those
    fields of the model's `negotiateSets`, for every pair of capability sets, AS fields and hold times.  The
    theorems `hold_min`, `asn4_both`, `true_as_numbers`, `refresh_flavour`, `msgsize` are therefore about the code
    as it is: a `min` turned into a `max`, a capability looked up on the wrong side, a swapped refresh test or a
    wrong size breaks this obligation directly. -/
theorem negotiate_py_is_model (oursAs oursHold theirsAs theirsHold : Nat) (s r : CapSet)
    (st0 : Generated.PyNego.NegotiatingSt) (hr : st0.refresh = Generated.PyNego.refreshAbsent)
    (hm : st0.msg_size = Generated.PyNego.initialSize) :
    Generated.PyNego.Negotiating.negotiate_scalars st0 oursHold theirsHold oursAs theirsAs
        ((s.asn4.getD 0 : Nat) : Int) ((r.asn4.getD 0 : Nat) : Int) s.asn4.isSome r.asn4.isSome
        s.asn4.isSome r.asn4.isSome s.operational r.operational s.enhanced r.enhanced s.refresh r.refresh
        s.extMsg r.extMsg s.linkLocal r.linkLocal =
      .ret () (scalarsOf (negotiateSets oursAs oursHold theirsAs theirsHold s r)) :=
  py_negotiate_scalars_eq_model oursAs oursHold theirsAs theirsHold s r st0 hr hm

/-- **The model is the code** (the fixed part of a received OPEN): `Open.unpack_message`, translated from /repo
    on this run, refuses a body shorter than the ten octets of the fixed part with 1/2 and a version other than 4
    with 2/1, exactly where `decodeOpen` does, and otherwise goes on to the optional parameters. -/
theorem open_fixed_py_is_model (body : Bytes) :
    Generated.PyNego.OpenFixed.unpack_message ⟨⟩ body.length (body.getD 0 0) =
      (match openFront body with | some e => .raise e.code e.sub | none => .ret true ⟨⟩) ∧
    (∀ e, openFront body = some e → decodeOpen body = .error e) :=
  ⟨py_open_fixed_eq_model body, fun e h => decodeOpen_front body e h⟩

/-- **bad_peer_as → 2/2**: a peer AS is configured and the peer AS in force differs. -/
theorem refuse_bad_peer_as (cfg : Cfg) (n : Negotiated) (t : OpenMsg) (h0 : cfg.peerAs ≠ 0)
    (h : n.peerAs ≠ cfg.peerAs) : validateOpen cfg n t = some ⟨2, 2⟩ := by
  simp [validateOpen, h0, h]

/-- **bad_id → 2/3**: BGP identifier 0.0.0.0 (peer AS acceptable). -/
theorem refuse_bad_id (cfg : Cfg) (n : Negotiated) (t : OpenMsg)
    (hp : ¬ (cfg.peerAs ≠ 0 ∧ n.peerAs ≠ cfg.peerAs)) (h : t.bgpId = 0) :
    validateOpen cfg n t = some ⟨2, 3⟩ := by
  simp only [validateOpen, if_neg hp, h, if_true]

/-- **hold_1_2 → 2/6**: hold time 1 or 2 when nothing earlier refuses. -/
theorem refuse_hold_1_2 (cfg : Cfg) (n : Negotiated) (t : OpenMsg)
    (hp : ¬ (cfg.peerAs ≠ 0 ∧ n.peerAs ≠ cfg.peerAs)) (hi : t.bgpId ≠ 0)
    (hc : ¬ (n.peerAs = cfg.localAs ∧ t.bgpId = cfg.routerId)) (h : t.hold = 1 ∨ t.hold = 2) :
    validateOpen cfg n t = some ⟨2, 6⟩ := by
  have h' : t.hold ≠ 0 ∧ t.hold < holdMin := by simp only [holdMin]; omega
  simp only [validateOpen, if_neg hp, if_neg hi, if_neg hc, if_pos h']

/-- **The refusals are the RFC ones.** For a peer with RFC 6793 AS fields, `validate` refuses
    exactly when the RFCs require it (`rfcRefusals`: 2/2 unacceptable peer AS on the *true* AS
    number, 2/3 zero identifier, 2/3 internal peer with our identifier, 2/6 hold time 1–2) and with
    the subcode of the first such fault; otherwise only the multisession draft's verdict remains. -/
theorem refusals_are_rfc (cfg : Cfg) (t : OpenMsg) (hc : consistentAs t) :
    validateOpen cfg (negotiate (ourOpen cfg) t) t =
      match (rfcRefusals cfg.localAs cfg.peerAs cfg.routerId (ourOpen cfg) t).head? with
      | some e => some e
      | none => msVerdict (negotiate (ourOpen cfg) t) :=
  validate_eq_rfc cfg t hc

/-! ## Generated tables = the specification the model is written against -/

/-- the capability codes with a decoder are the ones `decodeCap` dispatches on -/
theorem table_registered_codes : Generated.CapTable.registered.map (·.1) = knownCodes := by decide

/-- `Capability.CODE.*` are the codes of the typed capabilities -/
theorem table_codes : Generated.CapTable.codes =
    [("MULTIPROTOCOL", (Cap.mp 0 0).code), ("ROUTE_REFRESH", Cap.refresh.code), ("NEXTHOP", (Cap.nexthop []).code),
     ("EXTENDED_MESSAGE", Cap.extMsg.code), ("GRACEFUL_RESTART", (Cap.graceful 0 0 []).code),
     ("FOUR_BYTES_ASN", (Cap.asn4 0).code), ("MULTISESSION", (Cap.multisession false []).code),
     ("ADD_PATH", (Cap.addpath []).code), ("ENHANCED_ROUTE_REFRESH", Cap.enhanced.code),
     ("HOSTNAME", (Cap.hostname [] []).code), ("SOFTWARE_VERSION", (Cap.software []).code),
     ("PATHS_LIMIT", (Cap.pathsLimit []).code), ("LINK_LOCAL_NEXTHOP", Cap.linkLocal.code),
     ("ROUTE_REFRESH_CISCO", Cap.refreshCisco.code), ("MULTISESSION_CISCO", (Cap.multisession true []).code),
     ("OPERATIONAL", Cap.operational.code)] := rfl

/-- `Capabilities._ADD_PATH`, `Capabilities._NEXTHOP` -/
theorem table_addpath_nexthop : Generated.CapTable.addPathFamilies = addPathAllowed
    ∧ Generated.CapTable.nexthopTriples = nexthopAllowed := by decide

/-- the constants: HoldTime.MIN, the RFC 9072 switch (`len(parameters) < 255` keeps the one-octet
    form, i.e. exactly `useExtended`), the extended-format marker and parameter header sizes,
    parameter types, AS_TRANS, fixed-part size, version, message sizes, hostname limit, graceful
    restart masks, ADD-PATH bits, REFRESH values. -/
theorem table_constants :
    Generated.CapTable.holdTimeMin = holdMin
    ∧ Generated.CapTable.openParamLenMax = 255 ∧ Generated.CapTable.switchOp = "lt"
    ∧ Generated.CapTable.extendedMarker = 255 ∧ Generated.CapTable.extendedLengthType = 255
    ∧ Generated.CapTable.minParamLen = 2 ∧ Generated.CapTable.minExtendedParamLen = 3
    ∧ Generated.CapTable.paramAuth = 1 ∧ Generated.CapTable.paramCapabilities = 2
    ∧ Generated.CapTable.asTrans = asTrans ∧ Generated.CapTable.asnMax2 = 65535
    ∧ Generated.CapTable.openHeaderSize = 9 ∧ Generated.CapTable.openMinimumBody = 10
    ∧ Generated.CapTable.bgpVersion = 4
    ∧ Generated.CapTable.initialSize = initialSize ∧ Generated.CapTable.extendedSize = extendedSize
    ∧ Generated.CapTable.hostnameMaxLen = 64
    ∧ Generated.CapTable.gracefulTimeMask = 4095 ∧ Generated.CapTable.gracefulForwarding = 128
    ∧ Generated.CapTable.addPathReceiveBit = 1 ∧ Generated.CapTable.addPathSendBit = 2
    ∧ Generated.CapTable.refreshValues = [1, 2, 4] :=
  ⟨rfl, rfl, rfl, rfl, rfl, rfl, rfl, rfl, rfl, rfl, rfl, rfl, rfl, rfl, rfl, rfl, rfl, rfl, rfl, rfl, rfl, rfl⟩

/-! ## Non-vacuity and witnesses (concrete inputs; `decide` here is a test, not a theorem) -/

def demoCfg : Cfg :=
  { localAs := 65000, peerAs := 65001, routerId := 16843009, hold := 180, families := [(1, 1), (2, 1)],
    addPath := 3, addpaths := [(1, 1)], routeRefresh := true, nexthopOn := true, nexthops := [(1, 1, 2)],
    host := [114, 49], domain := [101, 120] }

/-- a peer with repeated MP, two ADD-PATH capabilities (the second overrides 1.1), ASN4, refresh -/
def demoPeer : OpenMsg :=
  { version := 4, myAs := 65001, hold := 90, bgpId := 33686018,
    caps := [.mp 2 1, .addpath [(1, 1, 2)], .mp 1 1, .mp 2 1, .asn4 65001, .enhanced, .refresh,
             .addpath [(1, 1, 1), (2, 1, 3)], .nexthop [(1, 1, 2), (1, 4, 2)], .unknown 99 [1, 2], .extMsg] }

example : cfgOK demoCfg = true := by decide
example : wfOpen (ourOpen demoCfg) = true := by decide
example : wfOpen demoPeer = true := by decide
example : decodeOpen (encodeOpen demoPeer) = .ok demoPeer := by decide +kernel
example : (negotiate (ourOpen demoCfg) demoPeer).families = [(2, 1), (1, 1)] := by decide
example : (negotiate (ourOpen demoCfg) demoPeer).send (1, 1) = true := by decide
example : (negotiate (ourOpen demoCfg) demoPeer).receive (1, 1) = false := by decide
example : (negotiate (ourOpen demoCfg) demoPeer).nexthop = [(1, 1, 2)] := by decide
example : (negotiate (ourOpen demoCfg) demoPeer).refresh = .enhanced ∧ (negotiate (ourOpen demoCfg) demoPeer).msgSize = 65535
    ∧ (negotiate (ourOpen demoCfg) demoPeer).hold = 90 ∧ (negotiate (ourOpen demoCfg) demoPeer).asn4 = true := by decide
example : validSR demoPeer.caps ∧ consistentAs demoPeer := by
  constructor
  · intro e he; simp [demoPeer, addpathEntries] at he; rcases he with h | h | h <;> subst h <;> decide
  · intro a ha; simp [demoPeer, asn4Of] at ha; subst ha; decide
example : validateOpen demoCfg (negotiate (ourOpen demoCfg) demoPeer) demoPeer = none := by decide

/-- every capability `Capabilities.new` can emit, at once (graceful restart time 0 ⇒ hold time 180) -/
def demoFull : Cfg :=
  { localAs := 4200000000, peerAs := 65001, routerId := 16843009, hold := 180, families := [(1, 1), (2, 1), (1, 128)],
    nexthopOn := true, nexthops := [(1, 1, 2), (1, 128, 2), (2, 1, 1)], addPath := 3, addpaths := [(1, 1), (2, 1), (25, 65)],
    pathsLimit := [((1, 1), 10), ((2, 1), 0), ((1, 4), 7)], graceful := some 0, routeRefresh := true, operational := true,
    host := [114, 49], domain := [110, 101, 116], software := true, swVersion := [69, 120, 97], linkLocal := true,
    multiSession := true }
example : cfgOK demoFull = true := by decide
example : (ourOpen demoFull).caps =
    [.mp 1 1, .mp 2 1, .mp 1 128, .asn4 4200000000, .nexthop [(1, 1, 2), (1, 128, 2)], .addpath [(1, 1, 3), (2, 1, 3)],
     .pathsLimit [(1, 1, 10)], .graceful 0 180 [(1, 1, 128), (2, 1, 128), (1, 128, 128)], .refresh, .enhanced,
     .operational, .extMsg, .hostname [114, 49] [110, 101, 116], .software [69, 120, 97], .linkLocal,
     .multisession false [0], .multisession false [1]] := by decide
example : decodeOpen (encodeOpen (ourOpen demoFull)) = .ok (ourOpen demoFull) := by decide +kernel
example : (capSet (ourOpen demoFull).caps).graceful = some (0, 180, [((1, 1), 128), ((2, 1), 128), ((1, 128), 128)]) := by decide
/-- a peer that agrees on multisession (same MP list), operational, link-local -/
def msPeer (caps : List Cap) : OpenMsg := { version := 4, myAs := 65001, hold := 90, bgpId := 33686018, caps := caps }
example :
    let t := msPeer [.mp 1 1, .mp 2 1, .mp 1 128, .multisession false [], .operational, .linkLocal, .asn4 65001]
    (negotiate (ourOpen demoFull) t).multisession = .yes ∧ (negotiate (ourOpen demoFull) t).operational = true
      ∧ (negotiate (ourOpen demoFull) t).linkLocal = true := by decide
example : (negotiate (ourOpen demoFull) (msPeer [.mp 2 1, .mp 1 1, .multisession false []])).multisession = .err 2 8 := by decide
example : validateOpen demoFull (negotiate (ourOpen demoFull) (msPeer [.mp 1 1])) (msPeer [.mp 1 1]) = some ⟨2, 9⟩ := by decide

/-- An OPEN above the RFC 9072 switch: 40 families (320 octets of parameters) — extended format. -/
def demoBig : Cfg :=
  { localAs := 65000, routerId := 16843009, hold := 180,
    families := (List.range 40).map (fun i => (1 + i % 2, 1 + i / 2)) }
example : cfgOK demoBig = true := by decide
example : useExtended (ourOpen demoBig).caps = true := by decide +kernel
example : (encodeOpen (ourOpen demoBig)).length = 9 + 4 + 40 * 9 + 9 + 5 := by decide +kernel
example : wfOpen (ourOpen demoBig) = true := by decide +kernel
example : decodeOpen (encodeOpen (ourOpen demoBig)) = .ok (ourOpen demoBig) := by decide +kernel

/-- boundary: parameter block of exactly 254 (one-octet form) and 255 octets (extended form). -/
def pad (n : Nat) : OpenMsg :=
  { version := 4, myAs := 1, hold := 3, bgpId := 1, caps := [.unknown 200 (List.replicate n 0), .unknown 201 (List.replicate 100 7)] }
example : useExtended (pad 146).caps = false ∧ (encParams false ((pad 146).caps.map (fun c => [c]))).length = 254 := by decide +kernel
example : useExtended (pad 147).caps = true ∧ (encParams false ((pad 147).caps.map (fun c => [c]))).length = 255 := by decide +kernel
example : decodeOpen (encodeOpen (pad 146)) = .ok (pad 146) ∧ decodeOpen (encodeOpen (pad 147)) = .ok (pad 147) := by decide +kernel
/-- …and the one-octet form with a 255-octet block (another speaker's choice) still decodes. -/
example : decodeOpen (encodeOpenG false 4 1 3 1 ((pad 147).caps.map (fun c => [c]))) = .ok (pad 147) := by decide +kernel

/-- F4 witness (repaired): local AS 70000 (iBGP with 70000): the session runs with local AS 70000. -/
def f4Cfg : Cfg := { localAs := 70000, peerAs := 70000, routerId := 16843009, hold := 180, families := [(1, 1)] }
def f4Peer (id : Nat) : OpenMsg :=
  { version := 4, myAs := 23456, hold := 180, bgpId := id, caps := [.mp 1 1, .asn4 70000] }
example : (negotiate (ourOpen f4Cfg) (f4Peer 33686018)).localAs = 70000
    ∧ (rfcNegotiate (ourOpen f4Cfg) (f4Peer 33686018)).localAs = 70000
    ∧ (negotiate (ourOpen f4Cfg) (f4Peer 33686018)).peerAs = 70000 := by decide

/-- F4 (same cause, repaired): an internal peer presenting our own BGP identifier is refused 2/3
    also when the local AS needs 4 octets. -/
example :
    rfcRefusals f4Cfg.localAs f4Cfg.peerAs f4Cfg.routerId (ourOpen f4Cfg) (f4Peer 16843009) = [⟨2, 3⟩]
      ∧ validateOpen f4Cfg (negotiate (ourOpen f4Cfg) (f4Peer 16843009)) (f4Peer 16843009) = some ⟨2, 3⟩ := by decide

/-- ADD-PATH octet 5 from the peer: the code reads "receive" (bit 1) and sends path identifiers;
    RFC 7911 §4 (SHOULD) treats the entry as not understood. -/
theorem addpath_octet_5_deviation :
    let o : OpenMsg := { version := 4, myAs := 1, hold := 3, bgpId := 1, caps := [.addpath [(1, 1, 3)]] }
    let t : OpenMsg := { version := 4, myAs := 2, hold := 3, bgpId := 2, caps := [.addpath [(1, 1, 5)]] }
    (negotiate o t).send (1, 1) = true ∧ (1, 1) ∉ (rfcNegotiate o t).apSend := by decide

/-- refusal witnesses on bytes: short, version 3, authentication parameter, parameter type 3 -/
example : decodeOpen [4, 0, 1, 0, 3, 1, 1, 1, 1] = .error ⟨1, 2⟩ := by decide
example : decodeOpen [3, 0, 1, 0, 3, 1, 1, 1, 1, 0] = .error ⟨2, 1⟩ := by decide
example : decodeOpen [4, 0, 1, 0, 3, 1, 1, 1, 1, 6, 2, 2, 2, 0, 1, 0] = .error ⟨2, 5⟩ := by decide
example : decodeOpen [4, 0, 1, 0, 3, 1, 1, 1, 1, 6, 2, 2, 2, 0, 3, 0] = .error ⟨2, 4⟩ := by decide
example : decodeOpen (openRaw true 1 3 1 (encParams true [[.refresh]] ++ (rawParam true 1 [9] ++ []))) = .error ⟨2, 5⟩ := by decide

end Exa.Props.C07
