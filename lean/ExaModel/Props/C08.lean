/-
  C08 — Malformed attributes never yield announced routes (RFC 7606).

  "An UPDATE carrying a malformed path attribute never results in a route being announced on the API or stored
   in Adj-RIB-In with missing or misparsed attributes: according to the RFC 7606 class of the attribute its
   routes are reported as withdrawn (treat-as-withdraw), or only that attribute is dropped and the rest kept
   (attribute discard), or the session is reset with an UPDATE Message Error NOTIFICATION. An attribute whose
   declared length overruns the attribute block is never accepted as a shorter valid attribute."

  Model: `Model/Attr7606.lean` (ExaBGP's attribute loop, value decoders, `_parse_payload`; RFC spec
  `rfc7606Class`, `wfAttr`). `decodeExa xp body = decodeWith noFix attrTable xp body` is the code as it is, on the
  table re-extracted from `Attribute.registered_attributes` at every run. `C08Holds fx tb xp body`
  (Lemmas/Attr7606Top.lean) is the statement of the property for one body.

  History. On the tree as found the statement failed in five ways (F5: the treat-as-withdraw marker was never
  acted on; F6: an overrunning attribute was accepted as a shorter one; C08a: NEXT_HOP of 16 bytes; C08c: flag
  conflict on a class-less attribute dropped silently, COMMUNITY / EXTENDED / IPv6-EXTENDED without class;
  C08b). Four are repaired in /repo (2df5c0b, fe3650b, e0e6b78, cfd78d2); their former `decide`d counterexamples
  are kept below as `example`s of the repaired behaviour and as corpus/C08 regression cases.

  FULL STATEMENT (kept visible; FALSE of the code as it is because of ONE open finding, C08b):

      c08 : ∀ xp body, C08Holds noFix attrTable xp body

      refuted by `c08_fails_segment0` (`decide`; replayed on the real code from corpus/C08/05-C08b-segment0):
      an AS_PATH (or AS4_PATH) segment with no AS number is accepted (RFC 7606 §7.2: malformed,
      treat-as-withdraw). The repair (proposed_fixes/c08b-aspath-empty-segment.md) breaks a unit test whose
      helper encodes the empty AS_PATH that way, so it is a known finding, not a commit.

  PROVED:
      `c08_partial`    THE theorem about the code as it is: the full conclusion for every malformed first
                       occurrence of every attribute, with one guard that only bites on AS_PATH / AS4_PATH
                       (`GapFree noFix`: the value is not one that only the lenient segment walk accepts)
      `c08_repaired`   the FULL statement for the code with the C08b repair, no side condition
      `c08_general`    both at once (any state of the open repair, any table with the row properties)
      `c08_overrun`    the last sentence of the property, in full, for the code as it is
      `overrun_never_kept`, `parse_errors_are_update_errors`, the table theorems.
      `table_classes_rfc_partial`: every row has the RFC class except AS4_PATH (treat-as-withdraw where RFC 6793
                       allows attribute discard: stricter).
-/
import ExaModel.Lemmas.Attr7606Top
import ExaModel.Generated.FamilyTable

namespace Exa.Props.C08
open Exa Exa.Wire Exa.Attr7606
open Exa.Generated.AttrTable (attrTable Row)

/-! ## the generated table -/

/-- The generated attribute table has the row properties every theorem below assumes: each FLAG is the RFC's
    Optional/Transitive pair, DISCARD alone is used only for an RFC discard-class code, NEXT_HOP and the
    list-valued attributes have no VALID_ZERO, and every code the RFCs speak about is registered. -/
theorem table_ok : TableOk attrTable := by decide

/-- Every value decoder that can raise ValueError belongs to a class with TREAT_AS_WITHDRAW or DISCARD, so no
    exception other than Notify leaves `AttributeCollection.parse`. -/
theorem table_value_errors_classed : ValueErrClassed attrTable := by decide

/-- No class sets both TREAT_AS_WITHDRAW and DISCARD. -/
theorem table_flags_exclusive : ∀ row ∈ attrTable, ¬ (row.treatAsWithdraw = true ∧ row.discard = true) := by decide

/-- `table_classes_rfc`, as strong as the tree allows: every generated row whose code RFC 7606 §7 (RFC 6793 §6,
    RFC 8092 §6) gives a class has exactly that class — exactly one of TREAT_AS_WITHDRAW / DISCARD set for
    withdraw / discard, none for session reset (MP_REACH_NLRI, MP_UNREACH_NLRI) — with ONE named exception:
    AS4_PATH (17) is treat-as-withdraw where RFC 6793 §6 allows attribute discard (stricter: the routes are
    withdrawn instead of kept without AS4_PATH; nothing wrong can be announced). -/
theorem table_classes_rfc_partial : ∀ row ∈ attrTable, ∀ c, rfc7606Class row.id = some c →
    classOf row = c ∨ (row.id = 17 ∧ c = .discard ∧ classOf row = .withdraw) := by decide

/-- The hand copy of `Family.size` in the model is a sub-table of the generated one. -/
theorem mp_nh_table_sub : ∀ e ∈ mpNhLens, e ∈ Exa.Generated.FamilyTable.familySize := by decide

/-! ## the property -/

/-- C08 for either state of the open repair, any table with the row properties, any session, any body: if the
    body decodes to an UpdateCollection `rep`, then for every RFC-malformed first occurrence `t` that does not
    fall into the hole the open repair closes (`GapFree fx`), either `rep` is the empty End-of-RIB collection, or
    nothing is announced and every route the UPDATE carries is in `rep.withdraw` (treat-as-withdraw), or `t` is of
    the RFC discard class and `rep.attrs` is exactly what the block without `t` yields (that attribute dropped,
    the others kept). -/
theorem c08_general (fx : Fix) (tb : List Row) (htb : TableOk tb) (xp : XP) (body : Bytes) (rep : Rep)
    (h : decodeWith fx tb xp body = .ok rep)
    (pre : List Tlv) (t : Tlv) (post : List Tlv) (hocc : occurrences body = pre ++ t :: post)
    (hfirst : ∀ u ∈ pre, u.code ≠ t.code) (hm : malformed xp.p t = true) (hg : GapFree fx xp t) :
    rep = emptyRep ∨
    (rep.announce = [] ∧ ∃ pt, decodeParts fx tb xp body = .ok pt ∧ ∀ r ∈ pt.nlri, r ∈ rep.withdraw) ∨
    (rfc7606Class t.code = some .discard ∧
      ∃ st', blockAttrs fx tb xp (pre ++ post) (cutOf (blockOf body)) = .ok st' ∧ rep.attrs = reportedAttrs st') := by
  rcases decode_malformed htb h pre t post hocc hfirst hm hg with h1 | ⟨pt, hp, hr, ht⟩ | h3
  · exact Or.inl h1
  · have hw := assemble_withdraws pt ht
    rw [← hr] at hw
    exact Or.inr (Or.inl ⟨hw.1, pt, hp, hw.2⟩)
  · exact Or.inr (Or.inr h3)

/-- C08, the FULL statement, for the code with the one open repair (C08b: an AS_PATH / AS4_PATH segment with no
    AS number is malformed) and any table with the row properties — in particular the generated one
    (`table_ok`): no side condition is left. -/
theorem c08_repaired (tb : List Row) (htb : TableOk tb) (xp : XP) (body : Bytes) : C08Holds allFix tb xp body := by
  intro rep pre t post h hocc hfirst hm
  exact c08_general allFix tb htb xp body rep h pre t post hocc hfirst hm (fun h => h)

/-- C08 for THE CODE AS IT IS, on the generated table: the full conclusion (End-of-RIB, or nothing announced and
    every route of the UPDATE withdrawn, or a discard-class attribute dropped alone with the others kept) for
    every RFC-malformed first occurrence of every attribute. The one guard, `GapFree noFix`, is automatically
    true unless the attribute is AS_PATH or AS4_PATH (`gapFree_of_not_aspath`), where it excludes exactly the
    values that only the lenient segment walk accepts (C08b, the open finding). -/
theorem c08_partial (xp : XP) (body : Bytes) (rep : Rep) (h : decodeExa xp body = .ok rep)
    (pre : List Tlv) (t : Tlv) (post : List Tlv) (hocc : occurrences body = pre ++ t :: post)
    (hfirst : ∀ u ∈ pre, u.code ≠ t.code) (hm : malformed xp.p t = true)
    (hg : (t.code = 2 ∨ t.code = 17) → GapFree noFix xp t) :
    rep = emptyRep ∨
    (rep.announce = [] ∧ ∃ pt, decodeParts noFix attrTable xp body = .ok pt ∧ ∀ r ∈ pt.nlri, r ∈ rep.withdraw) ∨
    (rfc7606Class t.code = some .discard ∧
      ∃ st', blockAttrs noFix attrTable xp (pre ++ post) (cutOf (blockOf body)) = .ok st' ∧ rep.attrs = reportedAttrs st') := by
  have hg' : GapFree noFix xp t := by
    by_cases h2 : t.code = 2
    · exact hg (Or.inl h2)
    · by_cases h17 : t.code = 17
      · exact hg (Or.inr h17)
      · exact gapFree_of_not_aspath noFix xp t h2 h17
  exact c08_general noFix attrTable table_ok xp body rep h pre t post hocc hfirst hm hg'

/-- `c08_overrun`, in full, for the code as it is (and any table): an UPDATE with an attribute whose declared
    length overruns the block — any occurrence, first or not, any code, known or not — announces nothing. -/
theorem c08_overrun (fx : Fix) (tb : List Row) (xp : XP) (body : Bytes) (rep : Rep)
    (h : decodeWith fx tb xp body = .ok rep) (t : Tlv) (ht : t ∈ occurrences body) (ho : t.overrun = true) :
    rep = emptyRep ∨ (rep.taw = true ∧ rep.announce = []) := by
  rcases decode_overrun h t ht ho with h1 | ⟨pt, hp, hr, htw⟩
  · exact Or.inl h1
  · refine Or.inr ⟨by rw [hr, assemble_taw]; exact htw, ?_⟩
    rw [hr]; exact (assemble_withdraws pt htw).1

/-- The loop never keeps (nor discards, nor silently drops) an overrunning attribute: the decision is
    treat-as-withdraw before anything else is looked at. -/
theorem overrun_never_kept (fx : Fix) (tb : List Row) (xp : XP) (present : List Nat) (t : Tlv)
    (ho : t.overrun = true) : decide1 fx tb xp present t = .taw :=
  decide1_overrun fx tb xp present t ho

/-- "… or the session is reset with an UPDATE Message Error NOTIFICATION": on the generated table, whatever
    ends the parsing of an attribute block early is a Notify with code 3 (never another exception) — or lies
    outside the model (`unmodelled`: PMSI, TUNNEL_ENCAP, AIGP, BGP-LS, PREFIX_SID, MP families beyond AFI 1/2). -/
theorem parse_errors_are_update_errors (fx : Fix) (xp : XP) (blk : Bytes) (e : Fail)
    (h : parseBlock fx attrTable xp blk = .error e) : FailOk e :=
  parseBlock_fail table_value_errors_classed blk e h

/-! ## the open finding, and the former ones as examples of the repaired behaviour -/

def xp0 : XP := { p := { asn4 := true, addpath := [], extnh := [], msgSize := 65535 }, families := [(1, 1), (2, 1)] }

def enc (t : Tlv) : Bytes := t.flag :: t.code :: t.dlen :: t.val
def mkBody (ts : List Tlv) (nlri : Bytes) : Bytes :=
  [0, 0] ++ be16 (ts.flatMap enc).length ++ ts.flatMap enc ++ nlri

def tOrigin : Tlv := ⟨0x40, 1, 1, [0]⟩
def tAsPath : Tlv := ⟨0x40, 2, 6, [2, 1, 0, 0, 0xfd, 0xe9]⟩
def tNextHop : Tlv := ⟨0x40, 3, 4, [10, 0, 0, 1]⟩
def tMed : Tlv := ⟨0x80, 4, 4, [0, 0, 0, 5]⟩
def nlri24 : Bytes := [24, 10, 0, 0]

def tOrigin9 : Tlv := ⟨0x40, 1, 1, [9]⟩
def tMed3 : Tlv := ⟨0x80, 4, 3, [0, 0, 5]⟩
def tCommOverrun : Tlv := ⟨0xc0, 8, 8, [0xfd, 0xe8, 0, 1]⟩
def tNextHop16 : Tlv := ⟨0x40, 3, 16, [0, 0, 0, 0, 0, 0, 0, 0, 0, 0, 0, 0, 0, 0, 0, 0]⟩
def tSeg0 : Tlv := ⟨0x40, 2, 2, [2, 0]⟩
def tUnreachFlags : Tlv := ⟨0xc0, 15, 10, [0, 2, 1, 48, 0x20, 0x01, 0x0d, 0xb8, 0xff, 0xff]⟩
def tCommFlags : Tlv := ⟨0x40, 8, 4, [0xfd, 0xe8, 0, 1]⟩
def tOriginLowBits : Tlv := ⟨0x4f, 1, 1, [0]⟩

def bodyOrigin9 : Bytes := mkBody [tOrigin9, tAsPath, tNextHop, tMed] nlri24
def bodyMed3 : Bytes := mkBody [tOrigin, tAsPath, tNextHop, tMed3] nlri24
/-- the COMMUNITY is the last attribute: its declared 8 bytes run 4 bytes past the block -/
def bodyOverrun : Bytes :=
  [0, 0] ++ be16 27 ++ ([tOrigin, tAsPath, tNextHop].flatMap enc ++ enc tCommOverrun) ++ nlri24
def bodyNextHop16 : Bytes := mkBody [tOrigin, tAsPath, tNextHop16] nlri24
def bodySeg0 : Bytes := mkBody [tOrigin, tSeg0, tNextHop] nlri24
def bodyUnreachFlags : Bytes := mkBody [tOrigin, tAsPath, tNextHop, tUnreachFlags] nlri24
def bodyCommFlags : Bytes := mkBody [tOrigin, tAsPath, tNextHop, tCommFlags] nlri24

/-- C08b, OPEN: an AS_PATH segment with no AS number is accepted by the code as it is (RFC 7606 §7.2:
    malformed): not marked, 10.0.0.0/24 announced — the full statement fails on this body. -/
theorem c08_fails_segment0 : ¬ C08Holds noFix attrTable xp0 bodySeg0 :=
  not_c08_of [tOrigin] tSeg0 [tNextHop] (by decide) (by decide) (by decide) (by decide) (by decide)

-- … and is the only thing `GapFree` excludes there: the repaired segment walk refuses the value
example : ¬ GapFree noFix xp0 tSeg0 := by unfold GapFree; decide
example : okAnd (fun r => r.announce.isEmpty && r.taw && r.withdraw.length == 1)
    (decodeWith allFix attrTable xp0 bodySeg0) = true := by decide

-- formerly `c08_fails_origin9` (F5): ORIGIN 9 → marked, nothing announced, 10.0.0.0/24 withdrawn
example : okAnd (fun r => r.announce.isEmpty && r.taw && r.withdraw.length == 1 && r.attrs.map (·.code) == [2, 3, 4])
    (decodeExa xp0 bodyOrigin9) = true := by decide
-- formerly `c08_fails_med3` (F5)
example : okAnd (fun r => r.announce.isEmpty && r.taw && r.withdraw.length == 1) (decodeExa xp0 bodyMed3) = true := by decide
-- formerly `c08_fails_overrun` (F6): the COMMUNITY declared 8 with 4 left is not an attribute of the result
example : okAnd (fun r => r.announce.isEmpty && r.taw && !r.attrs.any (fun k => k.code == 8))
    (decodeExa xp0 bodyOverrun) = true := by decide
-- formerly `c08_fails_nexthop16` (C08a)
example : okAnd (fun r => r.announce.isEmpty && r.taw && !r.attrs.any (fun k => k.code == 3))
    (decodeExa xp0 bodyNextHop16) = true := by decide
-- formerly `c08_fails_flags` (C08c): MP_UNREACH_NLRI with the Transitive bit → NOTIFICATION 3/4
example : (match decodeExa xp0 bodyUnreachFlags with | .error (.notify 3 4) => true | _ => false) = true := by decide
-- C08c on COMMUNITY: well-known flags → marked, nothing announced
example : okAnd (fun r => r.announce.isEmpty && r.taw) (decodeExa xp0 bodyCommFlags) = true := by decide
-- 9af6928: the four unused flag bits are ignored: ORIGIN with flags 0x4f is ORIGIN
example : okAnd (fun r => r.announce.length == 1 && !r.taw && r.attrs.map (·.code) == [1, 2, 3, 4])
    (decodeExa xp0 (mkBody [tOriginLowBits, tAsPath, tNextHop, tMed] nlri24)) = true := by decide

/-! ## non-vacuity -/

-- the hypotheses of `c08_partial` are met by a concrete UPDATE (treat-as-withdraw disjunct)
example : occurrences bodyOrigin9 = [] ++ tOrigin9 :: [tAsPath, tNextHop, tMed] := by decide
example : malformed xp0.p tOrigin9 = true := by decide

-- the discard disjunct: AGGREGATOR of 5 bytes on a 4-byte-AS session: dropped alone, route announced with
-- ORIGIN, AS_PATH, NEXT_HOP (the Discard marker is set: read_message hands the reactor a NOP after the API event)
def tAgg5 : Tlv := ⟨0xc0, 7, 5, [0, 0, 0, 0, 0]⟩
def bodyAgg5 : Bytes := mkBody [tOrigin, tAsPath, tNextHop, tAgg5] nlri24
example : malformed xp0.p tAgg5 = true ∧ rfc7606Class tAgg5.code = some .discard := by decide
example : okAnd (fun r => !r.announce.isEmpty && !r.taw && r.disc && r.attrs.map (·.code) == [1, 2, 3])
    (decodeExa xp0 bodyAgg5) = true := by decide

-- the well-formed base: one route announced, four attributes, not marked
example : okAnd (fun r => r.announce.length == 1 && !r.taw && !r.disc && r.attrs.map (·.code) == [1, 2, 3, 4])
    (decodeExa xp0 (mkBody [tOrigin, tAsPath, tNextHop, tMed] nlri24)) = true := by decide

-- a0181bd: AS4_PATH on a 4-octet session is dropped, on a 2-octet session merged
def tAs4Path : Tlv := ⟨0xc0, 17, 6, [2, 1, 0, 0, 0xfd, 0xe9]⟩
def tAsPath2 : Tlv := ⟨0x40, 2, 4, [2, 1, 0xfd, 0xe9]⟩
example : okAnd (fun r => r.attrs.map (·.code) == [1, 2, 3]) (decodeExa xp0 (mkBody [tOrigin, tAsPath, tNextHop, tAs4Path] nlri24)) = true := by decide
example : okAnd (fun r => r.attrs.map (fun k => (k.code, k.merged)) == [(1, false), (3, false), (2, true)])
    (decodeExa { xp0 with p := { xp0.p with asn4 := false } } (mkBody [tOrigin, tAsPath2, tNextHop, tAs4Path] nlri24)) = true := by decide

end Exa.Props.C08
