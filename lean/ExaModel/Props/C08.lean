/-
  C08 — Malformed attributes never yield announced routes (RFC 7606).

  "An UPDATE carrying a malformed path attribute never results in a route being announced on the API or stored
   in Adj-RIB-In with missing or misparsed attributes: according to the RFC 7606 class of the attribute its
   routes are reported as withdrawn (treat-as-withdraw), or only that attribute is dropped and the rest kept
   (attribute discard), or the session is reset with an UPDATE Message Error NOTIFICATION. An attribute whose
   declared length overruns the attribute block is never accepted as a shorter valid attribute."

  Model: `Model/Attr7606.lean` (ExaBGP's attribute loop, value decoders, `_parse_payload`; RFC spec
  `rfc7606Class`, `wfAttr`). `decodeExa xp body = decodeWith noFix attrTable xp body` is the code as it is, on the
  table re-extracted from `Attribute.registered_attributes` at every run; `Fix` switches the five proposed
  repairs on. `C08Holds fx tb xp body` (Lemmas/Attr7606Top.lean) is the statement of the property for one body.

  FULL STATEMENT (kept visible; FALSE of the unchanged code):

      c08 : ∀ xp body, C08Holds noFix attrTable xp body
      c08_overrun : ∀ xp body rep t, decodeExa xp body = .ok rep → t ∈ occurrences body → t.overrun = true →
                      rep.announce = [] ∧ ∀ k ∈ rep.attrs, k.code ≠ t.code
      table_classes_rfc : ∀ row ∈ attrTable, ∀ c, rfc7606Class row.id = some c → classOf row = c

  Refuted below on concrete UPDATEs (`decide`, each replayed on the real code by harness/props/C08.py, corpus/C08):
      F5  `c08_fails_origin9`, `c08_fails_med3`   the parser marks the UPDATE treat-as-withdraw, `_parse_payload`
                                                   ignores the marker: routes announced, attribute missing
      F6  `c08_fails_overrun`                     COMMUNITY declared 8 bytes, 4 left: kept as a 4-byte COMMUNITY
      C08a `c08_fails_nexthop16`                   NEXT_HOP of 16 bytes accepted
      C08b `c08_fails_segment0`                    AS_PATH segment with no AS number accepted
      C08c `c08_fails_flags`                       flag conflict on an attribute whose class has neither flag
                                                   (COMMUNITY, EXTENDED COMMUNITY, MP_*): dropped without a trace
      table: COMMUNITY, EXTENDED COMMUNITY, IPv6 EXTENDED COMMUNITY have no class flag (a value error resets
             the session where the RFC asks for treat-as-withdraw) — see `table_classes_rfc_partial`.

  PROVED:
      `c08_any_repair_state`  for every combination of repairs, every table with the row properties, every
                              session, every body: the statement, for every occurrence outside the holes that
                              the missing repairs leave (`GapFree`)
      `c08_repaired`          = the FULL statement for the code with the five repairs (no side condition left)
      `c08_partial`           what is true of the unchanged code: outside the named holes every malformed first
                              occurrence ends with the UPDATE MARKED treat-as-withdraw (what is missing is the
                              action on the marker, F5) or is a discard-class attribute dropped alone
      `c08_overrun_repaired`, `overrun_never_kept`, `parse_errors_are_update_errors`, the table theorems.
-/
import ExaModel.Lemmas.Attr7606Top
import ExaModel.Generated.FamilyTable

namespace Exa.Props.C08
open Exa Exa.Wire Exa.Attr7606
open Exa.Generated.AttrTable (attrTable Row)

/-! ## the generated table -/

/-- The generated attribute table has the row properties every theorem below assumes: each FLAG is the RFC's
    Optional/Transitive pair, DISCARD alone is used only for an RFC discard-class code, the list-valued
    attributes have no VALID_ZERO, and every code the RFCs speak about is registered. -/
theorem table_ok : TableOk attrTable := by decide

/-- Every value decoder that can raise ValueError belongs to a class with TREAT_AS_WITHDRAW or DISCARD, so no
    exception other than Notify leaves `AttributeCollection.parse`. -/
theorem table_value_errors_classed : ValueErrClassed attrTable := by decide

/-- No class sets both TREAT_AS_WITHDRAW and DISCARD. -/
theorem table_flags_exclusive : ∀ row ∈ attrTable, ¬ (row.treatAsWithdraw = true ∧ row.discard = true) := by decide

/-- `table_classes_rfc`, partial: every generated row whose code RFC 7606 §7 (RFC 6793 §6, RFC 8092 §6) gives a
    class has exactly that class (exactly one of TREAT_AS_WITHDRAW / DISCARD set for withdraw / discard, none
    for session reset) — EXCEPT the named rows: 8, 16, 25 (no flag: a malformed value resets the session where
    the RFC asks for treat-as-withdraw) and 17 (treat-as-withdraw where RFC 6793 allows attribute discard:
    stricter, safe). The statement stays true when 8, 16, 25 are given TREAT_AS_WITHDRAW. -/
theorem table_classes_rfc_partial : ∀ row ∈ attrTable, ∀ c, rfc7606Class row.id = some c →
    classOf row = c ∨
    ((row.id = 8 ∨ row.id = 16 ∨ row.id = 25) ∧ c = .withdraw ∧ classOf row = .reset) ∨
    (row.id = 17 ∧ c = .discard ∧ classOf row = .withdraw) := by decide

/-- The hand copy of `Family.size` in the model is a sub-table of the generated one. -/
theorem mp_nh_table_sub : ∀ e ∈ mpNhLens, e ∈ Exa.Generated.FamilyTable.familySize := by decide

-- On the unchanged tree the rows that break the full `table_classes_rfc` are 8, 16, 25 (class reset, RFC
-- treat-as-withdraw) and 17 (class treat-as-withdraw, RFC 6793 attribute discard). This is not stated as an
-- `example` on the generated table: it must stop being true when the classes are repaired, and a repair must
-- not break this file. harness/props/C08.py reports the rows through `drv_attr7606 tabclass / rfcclass`.

/-! ## the property -/

/-- C08 for ANY combination of the five repairs, any table with the row properties, any session, any body:
    if the body decodes to an UpdateCollection `rep`, then for every RFC-malformed first occurrence `t` that
    does not fall into a hole left open by a missing repair (`GapFree fx`), either `rep` is the empty End-of-RIB
    collection, or the UPDATE is marked treat-as-withdraw — and with the F5 repair nothing is announced and every
    route it carries is in `rep.withdraw` —, or `t` is of the RFC discard class and `rep.attrs` is exactly what
    the block without `t` yields (that attribute dropped, the others kept). -/
theorem c08_any_repair_state (fx : Fix) (tb : List Row) (htb : TableOk tb) (xp : XP) (body : Bytes) (rep : Rep)
    (h : decodeWith fx tb xp body = .ok rep)
    (pre : List Tlv) (t : Tlv) (post : List Tlv) (hocc : occurrences body = pre ++ t :: post)
    (hfirst : ∀ u ∈ pre, u.code ≠ t.code) (hm : malformed xp.p t = true) (hg : GapFree fx tb xp t) :
    rep = emptyRep ∨
    (rep.taw = true ∧ ∃ pt, decodeParts fx tb xp body = .ok pt ∧
        (fx.assemble = true → rep.announce = [] ∧ ∀ r ∈ pt.nlri, r ∈ rep.withdraw)) ∨
    (rfc7606Class t.code = some .discard ∧
      ∃ st', blockAttrs fx tb xp (pre ++ post) (cutOf (blockOf body)) = .ok st' ∧ rep.attrs = reportedAttrs st') := by
  rcases decode_malformed htb h pre t post hocc hfirst hm hg with h1 | ⟨pt, hp, hr, ht⟩ | h3
  · exact Or.inl h1
  · refine Or.inr (Or.inl ⟨by rw [hr, assemble_taw]; exact ht, pt, hp, fun hf => ?_⟩)
    rw [hr]; exact assemble_withdraws fx pt hf ht
  · exact Or.inr (Or.inr h3)

/-- C08, the FULL statement, for the code with the five repairs (F5 assemble, F6 overrun, C08a NEXT_HOP length,
    C08b empty AS_PATH segment, C08c flag conflict without class) and any table with the row properties — in
    particular the generated one (`table_ok`): no side condition is left. -/
theorem c08_repaired (tb : List Row) (htb : TableOk tb) (xp : XP) (body : Bytes) : C08Holds allFix tb xp body := by
  intro rep pre t post h hocc hfirst hm
  have hg : GapFree allFix tb xp t := ⟨Or.inl rfl, id, Or.inl rfl⟩
  rcases c08_any_repair_state allFix tb htb xp body rep h pre t post hocc hfirst hm hg with h1 | ⟨_, pt, hp, hw⟩ | h3
  · exact Or.inl h1
  · exact Or.inr (Or.inl ⟨(hw rfl).1, pt, hp, (hw rfl).2⟩)
  · exact Or.inr (Or.inr h3)

/-- C08, partial, for the UNCHANGED code on the generated table: every RFC-malformed first occurrence outside
    the holes F6 (overrun), C08a/C08b (value accepted only by the lenient decoder), C08c (flag conflict without
    class) — that is `GapFree noFix` — leaves the UPDATE MARKED treat-as-withdraw, or is a discard-class attribute
    dropped alone with the others kept. What is missing for the full statement is the action on the marker
    (F5: `rep.announce` is not emptied) and the four holes. -/
theorem c08_partial (xp : XP) (body : Bytes) (rep : Rep) (h : decodeExa xp body = .ok rep)
    (pre : List Tlv) (t : Tlv) (post : List Tlv) (hocc : occurrences body = pre ++ t :: post)
    (hfirst : ∀ u ∈ pre, u.code ≠ t.code) (hm : malformed xp.p t = true) (hg : GapFree noFix attrTable xp t) :
    rep = emptyRep ∨ rep.taw = true ∨
    (rfc7606Class t.code = some .discard ∧
      ∃ st', blockAttrs noFix attrTable xp (pre ++ post) (cutOf (blockOf body)) = .ok st' ∧ rep.attrs = reportedAttrs st') := by
  rcases c08_any_repair_state noFix attrTable table_ok xp body rep h pre t post hocc hfirst hm hg with h1 | ⟨h2, _⟩ | h3
  · exact Or.inl h1
  · exact Or.inr (Or.inl h2)
  · exact Or.inr (Or.inr h3)

/-- `c08_overrun` with the F6 repair (whatever the other repairs): an UPDATE with an attribute whose declared
    length overruns the block is marked treat-as-withdraw (any occurrence, first or not, any code, known or not). -/
theorem c08_overrun_repaired (fx : Fix) (hf : fx.overrun = true) (tb : List Row) (xp : XP) (body : Bytes) (rep : Rep)
    (h : decodeWith fx tb xp body = .ok rep) (t : Tlv) (ht : t ∈ occurrences body) (ho : t.overrun = true) :
    rep = emptyRep ∨
    (rep.taw = true ∧ (fx.assemble = true → rep.announce = [])) := by
  rcases decode_overrun hf h t ht ho with h1 | ⟨pt, hp, hr, htw⟩
  · exact Or.inl h1
  · refine Or.inr ⟨by rw [hr, assemble_taw]; exact htw, fun ha => ?_⟩
    rw [hr]; exact (assemble_withdraws fx pt ha htw).1

/-- With the F6 repair the loop never keeps (nor discards, nor silently drops) an overrunning attribute: the
    decision is treat-as-withdraw before anything else is looked at. -/
theorem overrun_never_kept (fx : Fix) (hf : fx.overrun = true) (tb : List Row) (xp : XP) (present : List Nat) (t : Tlv)
    (ho : t.overrun = true) : decide1 fx tb xp present t = .taw :=
  decide1_overrun fx tb xp present t hf ho

/-- "… or the session is reset with an UPDATE Message Error NOTIFICATION": on the generated table, whatever
    ends the parsing of an attribute block early is a Notify with code 3 (never another exception) — or lies
    outside the model (`unmodelled`: PMSI, TUNNEL_ENCAP, AIGP, BGP-LS, PREFIX_SID, MP families beyond AFI 1/2). -/
theorem parse_errors_are_update_errors (fx : Fix) (xp : XP) (blk : Bytes) (e : Fail)
    (h : parseBlock fx attrTable xp blk = .error e) : FailOk e :=
  parseBlock_fail table_value_errors_classed blk e h

/-! ## witnesses against the full statement on the model of the unchanged code -/

def xp0 : XP := { p := { asn4 := true, addpath := [], extnh := [], msgSize := 65535 }, families := [(1, 1), (2, 1)] }

def enc (t : Tlv) : Bytes := t.flag :: t.code :: t.dlen :: t.val
def mkBody (ts : List Tlv) (nlri : Bytes) : Bytes :=
  [0, 0] ++ be16 (ts.flatMap enc).length ++ ts.flatMap enc ++ nlri

def tOrigin : Tlv := ⟨0x40, 1, 1, [0]⟩
def tAsPath : Tlv := ⟨0x40, 2, 6, [2, 1, 0, 0, 0xfd, 0xe9]⟩
def tNextHop : Tlv := ⟨0x40, 3, 4, [10, 0, 0, 1]⟩
def tMed : Tlv := ⟨0x80, 4, 4, [0, 0, 0, 5]⟩
def nlri24 : Bytes := [24, 10, 0, 0]

def tOrigin9 : Tlv := ⟨0x40, 1, 1, [9]⟩
def tMed3 : Tlv := ⟨0x80, 4, 3, [0, 0, 5]⟩
def tCommOverrun : Tlv := ⟨0xc0, 8, 8, [0xfd, 0xe8, 0, 1]⟩
def tNextHop16 : Tlv := ⟨0x40, 3, 16, [0, 0, 0, 0, 0, 0, 0, 0, 0, 0, 0, 0, 0, 0, 0, 0]⟩
def tSeg0 : Tlv := ⟨0x40, 2, 2, [2, 0]⟩
def tUnreachFlags : Tlv := ⟨0xc0, 15, 10, [0, 2, 1, 48, 0x20, 0x01, 0x0d, 0xb8, 0xff, 0xff]⟩

def bodyOrigin9 : Bytes := mkBody [tOrigin9, tAsPath, tNextHop, tMed] nlri24
def bodyMed3 : Bytes := mkBody [tOrigin, tAsPath, tNextHop, tMed3] nlri24
/-- the COMMUNITY is the last attribute: its declared 8 bytes run 4 bytes past the block -/
def bodyOverrun : Bytes :=
  [0, 0] ++ be16 27 ++ ([tOrigin, tAsPath, tNextHop].flatMap enc ++ enc tCommOverrun) ++ nlri24
def bodyNextHop16 : Bytes := mkBody [tOrigin, tAsPath, tNextHop16] nlri24
def bodySeg0 : Bytes := mkBody [tOrigin, tSeg0, tNextHop] nlri24
def bodyUnreachFlags : Bytes := mkBody [tOrigin, tAsPath, tNextHop, tUnreachFlags] nlri24

/-- F5: ORIGIN with value 9 (first attribute). The model of the unchanged code marks the UPDATE
    treat-as-withdraw and still announces 10.0.0.0/24 without ORIGIN: the full statement fails. -/
theorem c08_fails_origin9 : ¬ C08Holds noFix attrTable xp0 bodyOrigin9 :=
  not_c08_of [] tOrigin9 [tAsPath, tNextHop, tMed] (by decide) (by decide) (by decide) (by decide) (by decide)

/-- F5: MED of length 3 (last attribute): marked, still announced, MED missing. -/
theorem c08_fails_med3 : ¬ C08Holds noFix attrTable xp0 bodyMed3 :=
  not_c08_of [tOrigin, tAsPath, tNextHop] tMed3 [] (by decide) (by decide) (by decide) (by decide) (by decide)

/-- F6 (`c08_overrun` fails): COMMUNITY declared 8 bytes with 4 left in the block is kept as the 4-byte
    COMMUNITY 65000:1, the UPDATE is not even marked, the route is announced. -/
theorem c08_fails_overrun : ¬ C08Holds noFix attrTable xp0 bodyOverrun ∧
    okAnd (fun r => !r.taw && r.attrs.any (fun k => k.code == 8 && k.val == [0xfd, 0xe8, 0, 1]))
      (decodeExa xp0 bodyOverrun) = true :=
  ⟨not_c08_of [tOrigin, tAsPath, tNextHop] tCommOverrun [] (by decide) (by decide) (by decide) (by decide) (by decide),
   by decide⟩

/-- C08a: NEXT_HOP of 16 bytes is accepted (RFC 7606 §7.3: malformed unless the length is 4). -/
theorem c08_fails_nexthop16 : ¬ C08Holds noFix attrTable xp0 bodyNextHop16 :=
  not_c08_of [tOrigin, tAsPath] tNextHop16 [] (by decide) (by decide) (by decide) (by decide) (by decide)

/-- C08b: an AS_PATH segment with no AS number is accepted (RFC 7606 §7.2: malformed). -/
theorem c08_fails_segment0 : ¬ C08Holds noFix attrTable xp0 bodySeg0 :=
  not_c08_of [tOrigin] tSeg0 [tNextHop] (by decide) (by decide) (by decide) (by decide) (by decide)

/-- C08c: MP_UNREACH_NLRI with the Transitive bit set is dropped without a trace, the UPDATE goes on as if it
    had not been there (RFC 7606 §3.c: malformed; §7.12: session reset). -/
theorem c08_fails_flags : ¬ C08Holds noFix attrTable xp0 bodyUnreachFlags :=
  not_c08_of [tOrigin, tAsPath, tNextHop] tUnreachFlags [] (by decide) (by decide) (by decide) (by decide) (by decide)

-- C08c on COMMUNITY (flags 0x40: dropped without a trace, route announced without it) is replayed on the real
-- code from corpus/C08/07-C08c-community-flags.json; it is not a Lean witness on the generated table because it
-- stops being one as soon as COMMUNITY gets TREAT_AS_WITHDRAW.

/-! ## non-vacuity -/

-- the hypotheses of `c08_repaired` / `c08_any_repair_state` are met by a concrete UPDATE, and the conclusion
-- is the treat-as-withdraw disjunct: nothing announced, 10.0.0.0/24 withdrawn, marked
example : occurrences bodyOrigin9 = [] ++ tOrigin9 :: [tAsPath, tNextHop, tMed] := by decide
example : malformed xp0.p tOrigin9 = true := by decide
example : okAnd (fun r => r.announce.isEmpty && r.taw && r.withdraw.length == 1 && r.attrs.length == 3)
    (decodeWith allFix attrTable xp0 bodyOrigin9) = true := by decide

-- … and for the unchanged code `GapFree noFix` holds for that occurrence (`c08_partial` applies: marked)
example : GapFree noFix attrTable xp0 tOrigin9 :=
  ⟨Or.inr (by decide), by decide, Or.inr (fun row _ hr => absurd hr (by decide))⟩

-- the discard disjunct: AGGREGATOR of 5 bytes on a 4-byte-AS session: dropped alone, route announced with
-- ORIGIN, AS_PATH, NEXT_HOP (the Discard marker is set: read_message hands the reactor a NOP after the API event)
def tAgg5 : Tlv := ⟨0xc0, 7, 5, [0, 0, 0, 0, 0]⟩
def bodyAgg5 : Bytes := mkBody [tOrigin, tAsPath, tNextHop, tAgg5] nlri24
example : malformed xp0.p tAgg5 = true ∧ rfc7606Class tAgg5.code = some .discard := by decide
example : okAnd (fun r => !r.announce.isEmpty && !r.taw && r.disc && r.attrs.map (·.code) == [1, 2, 3])
    (decodeWith allFix attrTable xp0 bodyAgg5) = true := by decide

-- the well-formed base is not touched by any repair: one route announced, four attributes, not marked
example : okAnd (fun r => r.announce.length == 1 && !r.taw && !r.disc && r.attrs.map (·.code) == [1, 2, 3, 4])
    (decodeWith allFix attrTable xp0 (mkBody [tOrigin, tAsPath, tNextHop, tMed] nlri24)) = true := by decide
example : okAnd (fun r => r.announce.length == 1 && !r.taw && !r.disc && r.attrs.map (·.code) == [1, 2, 3, 4])
    (decodeExa xp0 (mkBody [tOrigin, tAsPath, tNextHop, tMed] nlri24)) = true := by decide

-- the overrun witness, repaired: marked, nothing announced, the COMMUNITY is not an attribute of the result
example : okAnd (fun r => r.announce.isEmpty && r.taw && !r.attrs.any (fun k => k.code == 8))
    (decodeWith allFix attrTable xp0 bodyOverrun) = true := by decide

end Exa.Props.C08
