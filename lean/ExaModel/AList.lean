/-
  Ordered association lists: the model of a Python `dict`.
  `insert` on an existing key keeps its position (Python assignment),
  `erase` removes it (Python `pop`), so `erase`+`insert` moves a key to the end.
  Import-free so that the driver links.
-/
namespace Exa

abbrev AList (α : Type) (β : Type) := List (α × β)

namespace AList
variable {α β : Type} [DecidableEq α]

def lookup (k : α) : AList α β → Option β
  | [] => none
  | (k', v) :: t => if k' = k then some v else lookup k t

def insert (k : α) (v : β) : AList α β → AList α β
  | [] => [(k, v)]
  | (k', v') :: t => if k' = k then (k, v) :: t else (k', v') :: insert k v t

def erase (k : α) : AList α β → AList α β
  | [] => []
  | (k', v') :: t => if k' = k then erase k t else (k', v') :: erase k t

def keys (l : AList α β) : List α := l.map Prod.fst
def values (l : AList α β) : List β := l.map Prod.snd

@[simp] theorem lookup_nil (k : α) : lookup k ([] : AList α β) = none := rfl

@[simp] theorem lookup_insert_self (k : α) (v : β) (l : AList α β) :
    lookup k (insert k v l) = some v := by
  induction l with
  | nil => simp [insert, lookup]
  | cons h t ih =>
    obtain ⟨k', v'⟩ := h
    by_cases hk : k' = k
    · simp [insert, lookup, hk]
    · simp [insert, lookup, hk, ih]

@[simp] theorem lookup_insert_ne {k k' : α} (h : k' ≠ k) (v : β) (l : AList α β) :
    lookup k' (insert k v l) = lookup k' l := by
  induction l with
  | nil => simp [insert, lookup, Ne.symm h]
  | cons hd t ih =>
    obtain ⟨k₁, v₁⟩ := hd
    by_cases hk : k₁ = k
    · subst hk; simp [insert, lookup, Ne.symm h]
    · by_cases hk' : k₁ = k'
      · subst hk'; simp [insert, lookup, hk]
      · simp [insert, lookup, hk, hk', ih]

@[simp] theorem lookup_erase_self (k : α) (l : AList α β) : lookup k (erase k l) = none := by
  induction l with
  | nil => rfl
  | cons hd t ih =>
    obtain ⟨k₁, v₁⟩ := hd
    by_cases hk : k₁ = k
    · simp [erase, hk, ih]
    · simp [erase, lookup, hk, ih]

@[simp] theorem lookup_erase_ne {k k' : α} (h : k' ≠ k) (l : AList α β) :
    lookup k' (erase k l) = lookup k' l := by
  induction l with
  | nil => rfl
  | cons hd t ih =>
    obtain ⟨k₁, v₁⟩ := hd
    by_cases hk : k₁ = k
    · subst hk; simp [erase, lookup, Ne.symm h, ih]
    · by_cases hk' : k₁ = k'
      · subst hk'; simp [erase, lookup, hk]
      · simp [erase, lookup, hk, hk', ih]

theorem lookup_insert (k k' : α) (v : β) (l : AList α β) :
    lookup k' (insert k v l) = if k' = k then some v else lookup k' l := by
  by_cases h : k' = k
  · subst h; simp
  · simp [h]

theorem lookup_erase (k k' : α) (l : AList α β) :
    lookup k' (erase k l) = if k' = k then none else lookup k' l := by
  by_cases h : k' = k
  · subst h; simp
  · simp [h]

theorem lookup_eq_none_of_nil {k : α} {l : AList α β} (h : l = []) : lookup k l = none := by
  subst h; rfl

end AList
end Exa
