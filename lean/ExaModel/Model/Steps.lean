/-
  M-Wire with iteration counters (C03). Every loop of the reference decoder (`decNlris`, `decAttrs`,
  `decSegs`, `decAsns`, `decStack`) gets a twin that returns, next to the result, the number of loop
  iterations it made. `Lemmas/TotalSteps.lean` proves that the first component IS the original function
  (so the counters count the real walks) and bounds the second by the input length.

  Iteration = one evaluation of the loop body (one call of `decNlri` / `decAttr`, one segment header,
  one AS number, one label). `valSteps` is the number of iterations spent inside the value of one
  attribute, `attrsWork` / `updateWork` add everything up for a whole attribute block / UPDATE body.
-/
import ExaModel.Model.Wire

namespace Exa.Wire
open Exa

/-- `decNlris` + the number of `decNlri` calls. -/
def decNlrisSteps (afi safi : Nat) (ap wd : Bool) : Nat → Bytes → Except Err (List Nlri) × Nat
  | _, [] => (.ok [], 0)
  | 0, _ :: _ => (.error (3, 10), 0)
  | f + 1, b :: bs =>
    match decNlri afi safi ap wd (b :: bs) with
    | .error e => (.error e, 1)
    | .ok (n, rest) =>
      ((match (decNlrisSteps afi safi ap wd f rest).1 with
        | .error e => .error e
        | .ok ns => .ok (n :: ns)),
       (decNlrisSteps afi safi ap wd f rest).2 + 1)

/-- `decAttrs` + the number of `decAttr` calls. -/
def decAttrsSteps (p : Params) : Nat → Bytes → Except Err (List Attr) × Nat
  | _, [] => (.ok [], 0)
  | 0, _ :: _ => (.error (3, 1), 0)
  | f + 1, b :: bs =>
    match decAttr p (b :: bs) with
    | .error e => (.error e, 1)
    | .ok (a, rest) =>
      ((match (decAttrsSteps p f rest).1 with
        | .error e => .error e
        | .ok as => .ok (a :: as)),
       (decAttrsSteps p f rest).2 + 1)

/-- `decAsns` + the number of AS numbers it tried to read. -/
def decAsnsSteps (w4 : Bool) : Nat → Bytes → Option (List Nat × Bytes) × Nat
  | 0, bs => (some ([], bs), 0)
  | n + 1, bs =>
    if bs.length < (if w4 then 4 else 2) then (none, 1)
    else
      ((match (decAsnsSteps w4 n (bs.drop (if w4 then 4 else 2))).1 with
        | some (l, r) => some ((if w4 then rd32 bs else rd16 bs) :: l, r)
        | none => none),
       (decAsnsSteps w4 n (bs.drop (if w4 then 4 else 2))).2 + 1)

/-- `decSegs` + the number of segment headers and AS numbers it looked at. -/
def decSegsSteps (w4 : Bool) : Nat → Bytes → Option (List Seg) × Nat
  | _, [] => (some [], 0)
  | 0, _ :: _ => (none, 0)
  | _ + 1, [_] => (none, 1)
  | f + 1, t :: c :: r =>
    if t = 0 ∨ t > 4 ∨ c = 0 then (none, 1)
    else match (decAsnsSteps w4 c r).1 with
      | none => (none, 1 + (decAsnsSteps w4 c r).2)
      | some (as, rest) =>
        ((match (decSegsSteps w4 f rest).1 with
          | none => none
          | some ss => some ((t, as) :: ss)),
         1 + (decAsnsSteps w4 c r).2 + (decSegsSteps w4 f rest).2)

/-- `decStack` + the number of label entries it looked at. -/
def decStackSteps : Nat → Bytes → Option (List Nat × Bytes) × Nat
  | 0, _ => (none, 0)
  | n + 1, bs =>
    if bs.length < 3 then (none, 1)
    else if rd24 bs % 2 = 1 then (some ([rd24 bs / 16], bs.drop 3), 1)
    else
      ((match (decStackSteps n (bs.drop 3)).1 with
        | some (ls, rest) => some (rd24 bs / 16 :: ls, rest)
        | none => none),
       (decStackSteps n (bs.drop 3)).2 + 1)

/-- Loop iterations inside the value of one attribute (the walks `decVal` starts). -/
def valSteps (p : Params) (code : Nat) (v : Bytes) : Nat :=
  if code = 2 then (decSegsSteps p.asn4 v.length v).2
  else if code = 17 then (decSegsSteps true v.length v).2
  else if code = 8 ∨ code = 10 ∨ code = 16 ∨ code = 32 then (decAsnsSteps true (v.length / 4) v).2
  else if code = 14 then
    (if v.length < 5 ∨ v.length < 5 + v.getD 3 0 then 0
     else if supported (rd16 v) (v.getD 2 0) then
       (decNlrisSteps (rd16 v) (v.getD 2 0) (p.ap (rd16 v) (v.getD 2 0)) false
          (v.drop (5 + v.getD 3 0)).length (v.drop (5 + v.getD 3 0))).2
     else 0)
  else if code = 15 then
    (if v.length < 3 then 0
     else if supported (rd16 v) (v.getD 2 0) then
       (decNlrisSteps (rd16 v) (v.getD 2 0) (p.ap (rd16 v) (v.getD 2 0)) true (v.drop 3).length (v.drop 3)).2
     else 0)
  else 0

/-- The value bytes `decAttr` hands to `decVal` (empty when the header does not parse). -/
def attrValue (bs : Bytes) : Nat × Bytes :=
  match bs with
  | fb :: code :: r =>
    match decLen (Flags.ofByte fb).ext r with
    | none => (code, [])
    | some (len, body) => if body.length < len then (code, []) else (code, body.take len)
  | _ => (0, [])

/-- All loop iterations of the attribute block: one per attribute visited plus those inside its value. -/
def attrsWork (p : Params) : Nat → Bytes → Nat
  | _, [] => 0
  | 0, _ :: _ => 0
  | f + 1, b :: bs =>
    1 + valSteps p (attrValue (b :: bs)).1 (attrValue (b :: bs)).2 +
      (match decAttr p (b :: bs) with
       | .error _ => 0
       | .ok (_, rest) => attrsWork p f rest)

/-- All loop iterations `decodeRaw` can make on a body: the three top-level walks and everything
    inside the attribute values (an upper bound: a walk that is not reached because an earlier one
    failed is still counted). -/
def updateWork (p : Params) (bs : Bytes) : Nat :=
  if bs.length < 4 ∨ bs.length < 4 + rd16 bs ∨ bs.length < 4 + rd16 bs + rd16 (bs.drop (2 + rd16 bs)) then 0
  else
    (decNlrisSteps 1 1 (p.ap 1 1) true (rd16 bs) ((bs.drop 2).take (rd16 bs))).2 +
    attrsWork p (rd16 (bs.drop (2 + rd16 bs))) ((bs.drop (4 + rd16 bs)).take (rd16 (bs.drop (2 + rd16 bs)))) +
    (decNlrisSteps 1 1 (p.ap 1 1) false (bs.drop (4 + rd16 bs + rd16 (bs.drop (2 + rd16 bs)))).length
      (bs.drop (4 + rd16 bs + rd16 (bs.drop (2 + rd16 bs))))).2

end Exa.Wire
