/-
  M-Pack — model, over SIZES, of how ExaBGP cuts one `UpdateCollection` into UPDATE messages.

  Code modelled (read statement by statement):
    * `exabgp/bgp/message/update/collection.py : UpdateCollection.messages`
    * `exabgp/bgp/message/update/nlri/collection.py : MPNLRICollection.packed_reach_attributes`,
      `packed_unreach_attributes`, `_attr_len`, `_attribute_header`
    * `exabgp/bgp/message/message.py : Message._message` (the 16-bit length field)

  An NLRI is an identity with the length of its packed form under the session
  (`len(nlri.pack_nlri(negotiated))`, so ADD-PATH is already in the number), its family, the
  outcome of the code's `is_v4` test and, for an announce, the identity and length of the
  next-hop bytes `_encode_nexthop` produces.  The attribute block is its length with and without
  the default attributes (`pack_attribute(negotiated, with_default)`); the model decides which
  of the two is used exactly as the code does.

  What the model takes as given (inputs): the order produced by Python's `sorted` (the lists
  arrive sorted), the iteration order of the Python `set` `all_mp_families` (`famOrder`), and
  which families have SAFI unicast/multicast (`simple`).

  Python facts kept on purpose:
    * after the IPv4 loops `withdraws` / `announced` are NOT reset, so the first MP family's
      first message carries the last IPv4 message's NLRIs again (`famLoop … w a`);
    * `maximum` may be negative in Python; `Nat` subtraction gives 0 instead and every test
      `attr_len(..) > maximum` has the same outcome because `attr_len(..) ≥ 3`;
    * generators are lazy: messages yielded before a `RuntimeError` / `struct.error` have been
      sent, the attribute in hand at that point has not.
  Import-free: the driver links against this file.
-/
namespace Exa.Pack

structure Nlri where
  id : Nat
  /-- `len(nlri.pack_nlri(negotiated))` -/
  size : Nat
  /-- `(afi, safi)` as an identifier -/
  fam : Nat
  /-- the code's `is_v4`: afi ipv4, safi unicast/multicast (and next hop ipv4 for an announce) -/
  v4 : Bool
  /-- identity and length of the encoded next hop (announces) -/
  nh : Nat
  nhLen : Nat
deriving DecidableEq, Repr, Inhabited

/-- length of the concatenation of the packed NLRIs -/
def sz : List Nlri → Nat
  | [] => 0
  | x :: xs => x.size + sz xs

/-- `MPNLRICollection._attr_len` -/
def attrLen (n : Nat) : Nat := n + (if n > 255 then 4 else 3)

/-- length of `MPNLRICollection._attribute_header(code, n)` -/
def hdrLen (n : Nat) : Nat := if n > 255 then 4 else 3

/-- One MP_REACH_NLRI (`hdr = 5 + nhLen`: AFI, SAFI, next-hop length, next hop, reserved) or
    MP_UNREACH_NLRI (`hdr = 3`: AFI, SAFI) attribute. -/
structure Mp where
  fam : Nat
  nh : Nat
  nhLen : Nat
  hdr : Nat
  items : List Nlri
deriving DecidableEq, Repr

def Mp.payload (a : Mp) : Nat := a.hdr + sz a.items
/-- `len(self._attribute_header(code, len(payload)) + payload)` -/
def Mp.wire (a : Mp) : Nat := hdrLen a.payload + a.payload

def owire : Option Mp → Nat
  | none => 0
  | some a => a.wire

/-- One UPDATE as `messages` assembles it:
    `_message(prefix(withdraws) + prefix(mp_unreach + attr + mp_reach) + announced)`. -/
structure Msg where
  wd4 : List Nlri
  unreach : Option Mp
  /-- the common attribute block `attr` is present (`prefix(b'')` otherwise) -/
  attrs : Bool
  reach : Option Mp
  ann4 : List Nlri
  /-- total length, 19-byte header included -/
  len : Nat
deriving DecidableEq, Repr

def mkMsg (attr : Nat) (w : List Nlri) (u : Option Mp) (useAttr : Bool) (r : Option Mp) (a : List Nlri) : Msg :=
  { wd4 := w, unreach := u, attrs := useAttr, reach := r, ann4 := a,
    len := 19 + (2 + sz w) + (2 + (owire u + (if useAttr then attr else 0) + owire r)) + sz a }

def Msg.annsOf (m : Msg) : List Nlri :=
  m.ann4 ++ (match m.reach with | some r => r.items | none => [])

def Msg.wdsOf (m : Msg) : List Nlri :=
  m.wd4 ++ (match m.unreach with | some r => r.items | none => [])

inductive Status where
  /-- the generator ran to its end -/
  | ok
  /-- `log.critical('… attributes_too_large')` then `return` -/
  | noRoom
  /-- `RuntimeError('NLRI too large for attribute size limit')` -/
  | raised
  /-- `struct.error` from `pack('!H', 19 + len(message))` in `_message` -/
  | tooLong
deriving DecidableEq, Repr

structure Input where
  /-- `negotiated.msg_size` -/
  M : Nat
  /-- `len(attributes.pack_attribute(negotiated, True))` / `(…, False)` -/
  attrDef : Nat
  attrNoDef : Nat
  /-- `negotiated.families` -/
  negotiated : List Nat
  /-- families whose SAFI is unicast or multicast -/
  simple : List Nat
  /-- iteration order of the set `all_mp_families` -/
  famOrder : List Nat
  /-- `sorted(self._announces, key=nlri)` / `sorted(self._withdraws)` -/
  anns : List Nlri
  wds : List Nlri
  includeWithdraw : Bool
deriving Repr

/-! ### classification (first half of `messages`) -/

def v4Anns (i : Input) : List Nlri := i.anns.filter (fun x => i.negotiated.contains x.fam && x.v4)
def mpAnns (i : Input) : List Nlri := i.anns.filter (fun x => i.negotiated.contains x.fam && !x.v4)
def v4Wds (i : Input) : List Nlri := i.wds.filter (fun x => i.negotiated.contains x.fam && x.v4)
def mpWds (i : Input) : List Nlri := i.wds.filter (fun x => i.negotiated.contains x.fam && !x.v4)

/-- `include_defaults`: False exactly when there are MP withdraws, no announce at all, and every
    MP withdraw family is unicast/multicast. -/
def includeDefaults (i : Input) : Bool :=
  !(!(mpWds i).isEmpty && (v4Anns i).isEmpty && (mpAnns i).isEmpty
      && (mpWds i).all (fun x => i.simple.contains x.fam))

/-- `len(attr)` -/
def chosenAttr (i : Input) : Nat := if includeDefaults i then i.attrDef else i.attrNoDef

/-! ### the IPv4 loops -/

structure V4Res where
  msgs : List Msg
  w : List Nlri
  a : List Nlri
  bailed : Bool
deriving Repr

/-- `for nlri in v4_announces:` -/
def v4AnnLoop (ms attr : Nat) : List Nlri → List Nlri → List Nlri → V4Res
  | [], w, a => { msgs := [], w := w, a := a, bailed := false }
  | x :: xs, w, a =>
    if sz a + sz w + x.size ≤ ms then v4AnnLoop ms attr xs w (a ++ [x])
    else if sz w = 0 ∧ sz a = 0 then { msgs := [], w := w, a := a, bailed := true }
    else
      let r := v4AnnLoop ms attr xs [] [x]
      { r with msgs := mkMsg attr w none true none a :: r.msgs }

/-- `for nlri in v4_withdraws:` -/
def v4WdLoop (ms attr : Nat) : List Nlri → List Nlri → List Nlri → V4Res
  | [], w, a => { msgs := [], w := w, a := a, bailed := false }
  | x :: xs, w, a =>
    if sz a + sz w + x.size ≤ ms then v4WdLoop ms attr xs (w ++ [x]) a
    else if sz w = 0 ∧ sz a = 0 then { msgs := [], w := w, a := a, bailed := true }
    else
      let r := v4WdLoop ms attr xs [x] []
      { r with msgs := mkMsg attr w none (sz a ≠ 0) none a :: r.msgs }

/-! ### `packed_reach_attributes` / `packed_unreach_attributes` -/

/-- The inner loop over one list of packed NLRIs sharing a header of `hdr` bytes.
    Returns the NLRI lists of the attributes yielded and whether `RuntimeError` was raised. -/
def splitGroup (maxi hdr : Nat) : List Nlri → List Nlri → List (List Nlri) × Bool
  | [], cur => (if sz cur > 0 then [cur] else [], false)
  | x :: xs, cur =>
    if attrLen (hdr + sz cur + x.size) > maxi then
      if sz cur = 0 then ([], true)
      else
        let r := splitGroup maxi hdr xs [x]
        (cur :: r.1, r.2)
    else splitGroup maxi hdr xs (cur ++ [x])

/-- keys of a dict filled with `setdefault`, i.e. in order of first appearance -/
def firsts : List (Nat × Nat) → List (Nat × Nat)
  | [] => []
  | k :: ks => k :: (firsts ks).filter (fun k' => k' ≠ k)

def nhKey (x : Nlri) : Nat × Nat := (x.nh, x.nhLen)

/-- `mpnlri`: next-hop bytes → packed NLRIs, in insertion order -/
def groupsOf (xs : List Nlri) : List ((Nat × Nat) × List Nlri) :=
  (firsts (xs.map nhKey)).map (fun k => (k, xs.filter (fun x => nhKey x = k)))

/-- `for nexthop, packed_nlris in mpnlri.items():` -/
def reachGen (maxi fam : Nat) : List ((Nat × Nat) × List Nlri) → List Mp × Bool
  | [] => ([], false)
  | (k, xs) :: gs =>
    let r := splitGroup maxi (5 + k.2) xs []
    let attrs := r.1.map (fun it => ({ fam := fam, nh := k.1, nhLen := k.2, hdr := 5 + k.2, items := it } : Mp))
    if r.2 then (attrs, true)
    else
      let r' := reachGen maxi fam gs
      (attrs ++ r'.1, r'.2)

def unreachGen (maxi fam : Nat) (xs : List Nlri) : List Mp × Bool :=
  let r := splitGroup maxi 3 xs []
  (r.1.map (fun it => ({ fam := fam, nh := 0, nhLen := 0, hdr := 3, items := it } : Mp)), r.2)

/-! ### the MP loop of `messages` -/

structure MpSt where
  w : List Nlri
  a : List Nlri
  reach : Option Mp
  unreach : Option Mp
deriving Repr

/-- `for mprnlri in …packed_reach_attributes(…): if mp_reach: yield …; mp_reach = mprnlri` -/
def feedReach (attr : Nat) : List Mp → List Nlri → List Nlri → Option Mp → List Msg × MpSt
  | [], w, a, p => ([], { w := w, a := a, reach := p, unreach := none })
  | r :: rs, w, a, none => feedReach attr rs w a (some r)
  | r :: rs, w, a, some p =>
    let x := feedReach attr rs [] [] (some r)
    (mkMsg attr w none true (some p) a :: x.1, x.2)

/-- `for mpurnlri in …packed_unreach_attributes(…): if mp_unreach: yield …; mp_unreach = mpurnlri` -/
def feedUnreach (attr : Nat) : List Mp → List Nlri → List Nlri → Option Mp → Option Mp → List Msg × MpSt
  | [], w, a, p, u => ([], { w := w, a := a, reach := p, unreach := u })
  | x :: xs, w, a, p, none => feedUnreach attr xs w a p (some x)
  | x :: xs, w, a, p, some u =>
    let y := feedUnreach attr xs [] [] none (some x)
    (mkMsg attr w (some u) true p a :: y.1, y.2)

/-- the final `if mp_unreach or mp_reach or withdraws or announced: yield …` of one family -/
def famFinal (attr : Nat) (s : MpSt) : List Msg :=
  if s.unreach.isSome ∨ s.reach.isSome ∨ sz s.w ≠ 0 ∨ sz s.a ≠ 0 then
    [mkMsg attr s.w s.unreach true s.reach s.a]
  else []

/-- body of `for family in all_mp_families:`; `(messages yielded, RuntimeError raised)` -/
def famStep (inclW : Bool) (ms attr fam : Nat) (ra wa : List Nlri) (w a : List Nlri) : List Msg × Bool :=
  let rg := reachGen (ms - (sz w + sz a)) fam (groupsOf ra)
  let fr := feedReach attr rg.1 w a none
  if rg.2 then (fr.1, true)
  else if inclW then
    let ug := unreachGen (ms - (sz fr.2.w + sz fr.2.a + owire fr.2.reach)) fam wa
    let fu := feedUnreach attr ug.1 fr.2.w fr.2.a fr.2.reach none
    if ug.2 then (fr.1 ++ fu.1, true)
    else (fr.1 ++ fu.1 ++ famFinal attr fu.2, false)
  else (fr.1 ++ famFinal attr fr.2, false)

/-- `for family in all_mp_families:` — `withdraws`/`announced` are reset only at the END of each
    iteration, so the first family starts with whatever the IPv4 part left. -/
def famLoop (inclW : Bool) (ms attr : Nat) (ma mw : List Nlri) : List Nat → List Nlri → List Nlri → List Msg × Bool
  | [], _, _ => ([], false)
  | f :: fs, w, a =>
    let r := famStep inclW ms attr f (ma.filter (fun x => x.fam = f)) (mw.filter (fun x => x.fam = f)) w a
    if r.2 then (r.1, true)
    else
      let r' := famLoop inclW ms attr ma mw fs [] []
      (r.1 ++ r'.1, r'.2)

structure Out where
  msgs : List Msg
  status : Status
deriving Repr

/-- the families the MP loop visits -/
def mpFams (i : Input) : List Nat :=
  i.famOrder.filter (fun f => (mpAnns i ++ mpWds i).any (fun x => x.fam = f))

/-- the final `if announced or withdraws:` after the IPv4 loops -/
def v4Final (attr : Nat) (w a : List Nlri) : List Msg :=
  if sz a ≠ 0 ∨ sz w ≠ 0 then [mkMsg attr w none (sz a ≠ 0) none a] else []

/-- `if include_withdraw: for nlri in v4_withdraws: …` -/
def v4WdPart (inclW : Bool) (ms attr : Nat) (vw w a : List Nlri) : V4Res :=
  if inclW then v4WdLoop ms attr vw w a else { msgs := [], w := w, a := a, bailed := false }

/-- `messages` without the 16-bit limit of `_message` -/
def packRaw (i : Input) : Out :=
  if (v4Anns i).isEmpty && (v4Wds i).isEmpty && (mpAnns i).isEmpty && (mpWds i).isEmpty then
    { msgs := [], status := .ok }
  else
    let attr := chosenAttr i
    if i.M < 23 + attr then { msgs := [], status := .noRoom }        -- msg_size < 0
    else
      let ms := i.M - 23 - attr
      if ms = 0 then { msgs := [], status := .noRoom }               -- msg_size == 0 and (has_v4 or has_mp)
      else
        let r1 := v4AnnLoop ms attr (v4Anns i) [] []
        if r1.bailed then { msgs := r1.msgs, status := .noRoom }
        else
          let r2 := v4WdPart i.includeWithdraw ms attr (v4Wds i) r1.w r1.a
          if r2.bailed then { msgs := r1.msgs ++ r2.msgs, status := .noRoom }
          else
            let mp := famLoop i.includeWithdraw ms attr (mpAnns i) (mpWds i) (mpFams i) r2.w r2.a
            { msgs := r1.msgs ++ r2.msgs ++ v4Final attr r2.w r2.a ++ mp.1,
              status := if mp.2 then .raised else .ok }

/-- `_message`: `pack('!H', 19 + len(message))` raises for a message longer than 65535; what was
    yielded before has been sent. -/
def cut : List Msg → List Msg × Bool
  | [] => ([], false)
  | m :: ms => if m.len > 65535 then ([], true) else (m :: (cut ms).1, (cut ms).2)

/-- **the model of `UpdateCollection.messages(negotiated, include_withdraw)`** -/
def pack (i : Input) : Out :=
  let r := packRaw i
  let c := cut r.msgs
  { msgs := c.1, status := if c.2 then .tooLong else r.status }

/-! ### the two excluded points of C09 (F19) as inputs

    Stated here (not in `Props/C09.lean`) so that the driver can print them in the line format and
    the harness can check that they are, field by field, what it measures on the REAL objects of
    corpus/C09/f19-oversize-4097.json and corpus/C09/f19-runtime-error.json. -/

def nlri4 (id size : Nat) : Nlri := { id := id, size := size, fam := 1, v4 := true, nh := 1, nhLen := 4 }
def nlri6 (id size nh : Nat) : Nlri := { id := id, size := size, fam := 3, v4 := false, nh := nh, nhLen := 16 }
def wd6 (id size : Nat) : Nlri := { id := id, size := size, fam := 3, v4 := false, nh := 0, nhLen := 0 }

/-- 4096-byte session, attribute block of 4069 bytes (so `msg_size = 4`), announces `10.0.0.0/8`
    (2 bytes) and `11.1.1.1/32` (5 bytes). -/
def unfitInput : Input :=
  { M := 4096, attrDef := 4069, attrNoDef := 0, negotiated := [1, 3], simple := [1, 2, 3, 4], famOrder := [],
    anns := [nlri4 1 2, nlri4 2 5], wds := [], includeWithdraw := true }

/-- 4096-byte session, attribute block of 4013 bytes (`msg_size = 60`): two IPv6 /128 announces
    with one next hop (MP_REACH_NLRI of 58 bytes) and one IPv6 /128 withdraw (MP_UNREACH_NLRI of 23
    bytes on its own). -/
def mixedInput : Input :=
  { M := 4096, attrDef := 4013, attrNoDef := 0, negotiated := [1, 3], simple := [1, 2, 3, 4], famOrder := [3],
    anns := [nlri6 1 17 1, nlri6 2 17 1], wds := [wd6 3 17], includeWithdraw := true }

end Exa.Pack
