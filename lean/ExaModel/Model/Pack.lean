/-
  M-Pack — model, over SIZES, of how ExaBGP cuts one `UpdateCollection` into UPDATE messages.

  Code modelled (read statement by statement, /repo after 9c66abf + b4bc906):
    * `exabgp/bgp/message/update/collection.py : UpdateCollection.messages`
    * `exabgp/bgp/message/update/nlri/collection.py : MPNLRICollection.packed_reach_attributes`,
      `packed_unreach_attributes`, `_attr_len`, `_attribute_header`
    * `exabgp/bgp/message/message.py : Message._message` (the 16-bit length field)

  An NLRI is an identity with the length of its packed form under the session
  (`len(nlri.pack_nlri(negotiated))`, so ADD-PATH is already in the number), its family, the
  outcome of the code's `is_v4` test and, for an announce, the identity and length of the
  next-hop bytes `_encode_nexthop` produces.  The attribute block is its length with and without
  the default attributes (`pack_attribute(negotiated, with_default)`); the model decides which
  of the two is used exactly as the code does.

  What the model takes as given (inputs): the order produced by Python's `sorted` (the lists
  arrive sorted), the iteration order of the Python `set` `all_mp_families` (`famOrder`), and
  which families have SAFI unicast/multicast (`simple`).

  Reading notes:
    * an NLRI that cannot fit even alone (`packed_size > msg_size`, resp.
      `_attr_len(header_length + len(packed_nlri)) > maximum`) is left out with a `log.critical`
      and the loop carries on (`continue`); nothing is raised, nothing else is dropped;
    * `withdraws` / `announced` are reset to `b''` once the IPv4 part has been sent and are never
      assigned anything else afterwards, so in the MP loop they are empty: the model's MP
      messages have empty classic fields (`mkMsg attr [] … []`);
    * both MP generators get the whole `msg_size`; whether the first MP_UNREACH shares the
      message of the pending MP_REACH is decided where the message is assembled (`feedUnreach`);
    * `_message` still has a 16-bit length field (`struct.error` above 65535): `cut`.
  Import-free: the driver links against this file.
-/
namespace Exa.Pack

structure Nlri where
  id : Nat
  /-- `len(nlri.pack_nlri(negotiated))` -/
  size : Nat
  /-- `(afi, safi)` as an identifier -/
  fam : Nat
  /-- the code's `is_v4`: afi ipv4, safi unicast (and next hop ipv4 for an announce) -/
  v4 : Bool
  /-- identity and length of the encoded next hop (announces) -/
  nh : Nat
  nhLen : Nat
deriving DecidableEq, Repr, Inhabited

/-- length of the concatenation of the packed NLRIs -/
def sz : List Nlri → Nat
  | [] => 0
  | x :: xs => x.size + sz xs

/-- `MPNLRICollection._attr_len` -/
def attrLen (n : Nat) : Nat := n + (if n > 255 then 4 else 3)

/-- length of `MPNLRICollection._attribute_header(code, n)` -/
def hdrLen (n : Nat) : Nat := if n > 255 then 4 else 3

/-- One MP_REACH_NLRI (`hdr = 5 + nhLen`: AFI, SAFI, next-hop length, next hop, reserved) or
    MP_UNREACH_NLRI (`hdr = 3`: AFI, SAFI) attribute. -/
structure Mp where
  fam : Nat
  nh : Nat
  nhLen : Nat
  hdr : Nat
  items : List Nlri
deriving DecidableEq, Repr

def Mp.payload (a : Mp) : Nat := a.hdr + sz a.items
/-- `len(self._attribute_header(code, len(payload)) + payload)` -/
def Mp.wire (a : Mp) : Nat := hdrLen a.payload + a.payload

def owire : Option Mp → Nat
  | none => 0
  | some a => a.wire

/-- One UPDATE as `messages` assembles it:
    `_message(prefix(withdraws) + prefix(mp_unreach + attr + mp_reach) + announced)`. -/
structure Msg where
  wd4 : List Nlri
  unreach : Option Mp
  /-- the common attribute block `attr` is present (`prefix(b'')` otherwise) -/
  attrs : Bool
  reach : Option Mp
  ann4 : List Nlri
  /-- total length, 19-byte header included -/
  len : Nat
deriving DecidableEq, Repr

def mkMsg (attr : Nat) (w : List Nlri) (u : Option Mp) (useAttr : Bool) (r : Option Mp) (a : List Nlri) : Msg :=
  { wd4 := w, unreach := u, attrs := useAttr, reach := r, ann4 := a,
    len := 19 + (2 + sz w) + (2 + (owire u + (if useAttr then attr else 0) + owire r)) + sz a }

def Msg.annsOf (m : Msg) : List Nlri :=
  m.ann4 ++ (match m.reach with | some r => r.items | none => [])

def Msg.wdsOf (m : Msg) : List Nlri :=
  m.wd4 ++ (match m.unreach with | some r => r.items | none => [])

inductive Status where
  /-- the generator ran to its end -/
  | ok
  /-- `msg_size <= 0`: `log.critical('… attributes_too_large')` then `return` before any NLRI -/
  | noRoom
  /-- `struct.error` from `pack('!H', 19 + len(message))` in `_message` -/
  | tooLong
deriving DecidableEq, Repr

structure Input where
  /-- `negotiated.msg_size` -/
  M : Nat
  /-- `len(attributes.pack_attribute(negotiated, True))` / `(…, False)` -/
  attrDef : Nat
  attrNoDef : Nat
  /-- `negotiated.families` -/
  negotiated : List Nat
  /-- families whose SAFI is unicast or multicast -/
  simple : List Nat
  /-- iteration order of the set `all_mp_families` -/
  famOrder : List Nat
  /-- `sorted(self._announces, key=nlri)` / `sorted(self._withdraws)` -/
  anns : List Nlri
  wds : List Nlri
  includeWithdraw : Bool
deriving Repr

/-! ### classification (first half of `messages`) -/

def v4Anns (i : Input) : List Nlri := i.anns.filter (fun x => i.negotiated.contains x.fam && x.v4)
def mpAnns (i : Input) : List Nlri := i.anns.filter (fun x => i.negotiated.contains x.fam && !x.v4)
def v4Wds (i : Input) : List Nlri := i.wds.filter (fun x => i.negotiated.contains x.fam && x.v4)
def mpWds (i : Input) : List Nlri := i.wds.filter (fun x => i.negotiated.contains x.fam && !x.v4)

/-- `include_defaults`: False exactly when there are MP withdraws, no announce at all, and every
    MP withdraw family is unicast/multicast. -/
def includeDefaults (i : Input) : Bool :=
  !(!(mpWds i).isEmpty && (v4Anns i).isEmpty && (mpAnns i).isEmpty
      && (mpWds i).all (fun x => i.simple.contains x.fam))

/-- `len(attr)` -/
def chosenAttr (i : Input) : Nat := if includeDefaults i then i.attrDef else i.attrNoDef

/-! ### the IPv4 loops -/

structure V4Res where
  msgs : List Msg
  w : List Nlri
  a : List Nlri
deriving Repr

/-- `for nlri in v4_announces:` -/
def v4AnnLoop (ms attr : Nat) : List Nlri → List Nlri → List Nlri → V4Res
  | [], w, a => { msgs := [], w := w, a := a }
  | x :: xs, w, a =>
    if x.size > ms then v4AnnLoop ms attr xs w a                      -- left out, `continue`
    else if sz a + sz w + x.size ≤ ms then v4AnnLoop ms attr xs w (a ++ [x])
    else
      let r := v4AnnLoop ms attr xs [] [x]
      { r with msgs := mkMsg attr w none true none a :: r.msgs }

/-- `for nlri in v4_withdraws:` -/
def v4WdLoop (ms attr : Nat) : List Nlri → List Nlri → List Nlri → V4Res
  | [], w, a => { msgs := [], w := w, a := a }
  | x :: xs, w, a =>
    if x.size > ms then v4WdLoop ms attr xs w a                       -- left out, `continue`
    else if sz a + sz w + x.size ≤ ms then v4WdLoop ms attr xs (w ++ [x]) a
    else
      let r := v4WdLoop ms attr xs [x] []
      { r with msgs := mkMsg attr w none (sz a ≠ 0) none a :: r.msgs }

/-! ### `packed_reach_attributes` / `packed_unreach_attributes` -/

/-- The inner loop over one list of packed NLRIs sharing a header of `hdr` bytes: the NLRI lists
    of the attributes yielded. -/
def splitGroup (maxi hdr : Nat) : List Nlri → List Nlri → List (List Nlri)
  | [], cur => if sz cur > 0 then [cur] else []
  | x :: xs, cur =>
    if attrLen (hdr + x.size) > maxi then splitGroup maxi hdr xs cur   -- left out, `continue`
    else if attrLen (hdr + sz cur + x.size) > maxi then cur :: splitGroup maxi hdr xs [x]
    else splitGroup maxi hdr xs (cur ++ [x])

/-- keys of a dict filled with `setdefault`, i.e. in order of first appearance -/
def firsts : List (Nat × Nat) → List (Nat × Nat)
  | [] => []
  | k :: ks => k :: (firsts ks).filter (fun k' => k' ≠ k)

def nhKey (x : Nlri) : Nat × Nat := (x.nh, x.nhLen)

/-- `mpnlri`: next-hop bytes → packed NLRIs, in insertion order -/
def groupsOf (xs : List Nlri) : List ((Nat × Nat) × List Nlri) :=
  (firsts (xs.map nhKey)).map (fun k => (k, xs.filter (fun x => nhKey x = k)))

/-- `for nexthop, packed_nlris in mpnlri.items():` -/
def reachGen (maxi fam : Nat) : List ((Nat × Nat) × List Nlri) → List Mp
  | [] => []
  | (k, xs) :: gs =>
    (splitGroup maxi (5 + k.2) xs []).map
        (fun it => ({ fam := fam, nh := k.1, nhLen := k.2, hdr := 5 + k.2, items := it } : Mp))
      ++ reachGen maxi fam gs

def unreachGen (maxi fam : Nat) (xs : List Nlri) : List Mp :=
  (splitGroup maxi 3 xs []).map (fun it => ({ fam := fam, nh := 0, nhLen := 0, hdr := 3, items := it } : Mp))

/-! ### the MP loop of `messages` (`withdraws` = `announced` = `b''` throughout) -/

structure MpSt where
  reach : Option Mp
  unreach : Option Mp
deriving Repr

/-- `for mprnlri in …packed_reach_attributes(…): if mp_reach: yield …; mp_reach = mprnlri` -/
def feedReach (attr : Nat) : List Mp → Option Mp → List Msg × Option Mp
  | [], p => ([], p)
  | r :: rs, none => feedReach attr rs (some r)
  | r :: rs, some p =>
    let x := feedReach attr rs (some r)
    (mkMsg attr [] none true (some p) [] :: x.1, x.2)

/-- `for mpurnlri in …packed_unreach_attributes(…):`
    `if mp_unreach or len(mp_reach) + len(mpurnlri) > msg_size: yield …; mp_reach = b''`
    `mp_unreach = mpurnlri` -/
def feedUnreach (ms attr : Nat) : List Mp → Option Mp → Option Mp → List Msg × MpSt
  | [], p, u => ([], { reach := p, unreach := u })
  | x :: xs, p, u =>
    if u.isSome ∨ owire p + x.wire > ms then
      let y := feedUnreach ms attr xs none (some x)
      (mkMsg attr [] u true p [] :: y.1, y.2)
    else feedUnreach ms attr xs p (some x)

/-- the final `if mp_unreach or mp_reach or withdraws or announced: yield …` of one family -/
def famFinal (attr : Nat) (s : MpSt) : List Msg :=
  if s.unreach.isSome ∨ s.reach.isSome then [mkMsg attr [] s.unreach true s.reach []] else []

/-- body of `for family in all_mp_families:` -/
def famStep (inclW : Bool) (ms attr fam : Nat) (ra wa : List Nlri) : List Msg :=
  let fr := feedReach attr (reachGen ms fam (groupsOf ra)) none
  if inclW then
    let fu := feedUnreach ms attr (unreachGen ms fam wa) fr.2 none
    fr.1 ++ fu.1 ++ famFinal attr fu.2
  else fr.1 ++ famFinal attr { reach := fr.2, unreach := none }

/-- `for family in all_mp_families:` -/
def famLoop (inclW : Bool) (ms attr : Nat) (ma mw : List Nlri) : List Nat → List Msg
  | [] => []
  | f :: fs =>
    famStep inclW ms attr f (ma.filter (fun x => x.fam = f)) (mw.filter (fun x => x.fam = f))
      ++ famLoop inclW ms attr ma mw fs

structure Out where
  msgs : List Msg
  status : Status
deriving Repr

/-- the families the MP loop visits -/
def mpFams (i : Input) : List Nat :=
  i.famOrder.filter (fun f => (mpAnns i ++ mpWds i).any (fun x => x.fam = f))

/-- the final `if announced or withdraws:` after the IPv4 loops -/
def v4Final (attr : Nat) (w a : List Nlri) : List Msg :=
  if sz a ≠ 0 ∨ sz w ≠ 0 then [mkMsg attr w none (sz a ≠ 0) none a] else []

/-- `if include_withdraw: for nlri in v4_withdraws: …` -/
def v4WdPart (inclW : Bool) (ms attr : Nat) (vw w a : List Nlri) : V4Res :=
  if inclW then v4WdLoop ms attr vw w a else { msgs := [], w := w, a := a }

/-- `messages` without the 16-bit limit of `_message` -/
def packRaw (i : Input) : Out :=
  if (v4Anns i).isEmpty && (v4Wds i).isEmpty && (mpAnns i).isEmpty && (mpWds i).isEmpty then
    { msgs := [], status := .ok }
  else
    let attr := chosenAttr i
    if i.M < 23 + attr then { msgs := [], status := .noRoom }        -- msg_size < 0
    else
      let ms := i.M - 23 - attr
      if ms = 0 then { msgs := [], status := .noRoom }               -- msg_size == 0 and (has_v4 or has_mp)
      else
        let r1 := v4AnnLoop ms attr (v4Anns i) [] []
        let r2 := v4WdPart i.includeWithdraw ms attr (v4Wds i) r1.w r1.a
        { msgs := r1.msgs ++ r2.msgs ++ v4Final attr r2.w r2.a
                    ++ famLoop i.includeWithdraw ms attr (mpAnns i) (mpWds i) (mpFams i),
          status := .ok }

/-- `_message`: `pack('!H', 19 + len(message))` raises for a message longer than 65535; what was
    yielded before has been sent. -/
def cut : List Msg → List Msg × Bool
  | [] => ([], false)
  | m :: ms => if m.len > 65535 then ([], true) else (m :: (cut ms).1, (cut ms).2)

/-- **the model of `UpdateCollection.messages(negotiated, include_withdraw)`** -/
def pack (i : Input) : Out :=
  let r := packRaw i
  let c := cut r.msgs
  { msgs := c.1, status := if c.2 then .tooLong else r.status }

/-! ### how many `log.critical('update.pack.error reason=attributes_too_large')` calls

    Not a separate mechanism: the loops above visit every NLRI exactly once (nothing returns or
    raises half-way), so the number of calls is 1 for the early `return`, and otherwise the number
    of NLRIs visited that cannot fit alone.  The harness compares it with the calls it observes. -/

def unfitCount (p : Nlri → Bool) (l : List Nlri) : Nat := (l.filter (fun x => !p x)).length

def logged (i : Input) : Nat :=
  if (v4Anns i).isEmpty && (v4Wds i).isEmpty && (mpAnns i).isEmpty && (mpWds i).isEmpty then 0
  else
    let attr := chosenAttr i
    if i.M < 23 + attr then 1
    else
      let ms := i.M - 23 - attr
      if ms = 0 then 1
      else
        unfitCount (fun x => x.size ≤ ms) (v4Anns i)
        + (if i.includeWithdraw then unfitCount (fun x => x.size ≤ ms) (v4Wds i) else 0)
        + ((mpFams i).map (fun f =>
            unfitCount (fun x => attrLen (5 + x.nhLen + x.size) ≤ ms) ((mpAnns i).filter (fun x => x.fam = f))
            + (if i.includeWithdraw then
                unfitCount (fun x => attrLen (3 + x.size) ≤ ms) ((mpWds i).filter (fun x => x.fam = f))
               else 0))).sum

/-! ### the two points that were excluded before the repair (F19), kept as regression inputs

    Stated here (not in `Props/C09.lean`) so that the driver can print them in the line format and
    the harness can check that they are, field by field, what it measures on the REAL objects of
    corpus/C09/f19-oversize-4097.json and corpus/C09/f19-runtime-error.json. -/

def nlri4 (id size : Nat) : Nlri := { id := id, size := size, fam := 1, v4 := true, nh := 1, nhLen := 4 }
def nlri6 (id size nh : Nat) : Nlri := { id := id, size := size, fam := 3, v4 := false, nh := nh, nhLen := 16 }
def wd6 (id size : Nat) : Nlri := { id := id, size := size, fam := 3, v4 := false, nh := 0, nhLen := 0 }

/-- 4096-byte session, attribute block of 4069 bytes (so `msg_size = 4`), announces `10.0.0.0/8`
    (2 bytes) and `11.1.1.1/32` (5 bytes). -/
def unfitInput : Input :=
  { M := 4096, attrDef := 4069, attrNoDef := 0, negotiated := [1, 3], simple := [1, 2, 3, 4], famOrder := [],
    anns := [nlri4 1 2, nlri4 2 5], wds := [], includeWithdraw := true }

/-- 4096-byte session, attribute block of 4013 bytes (`msg_size = 60`): two IPv6 /128 announces
    with one next hop (MP_REACH_NLRI of 58 bytes) and one IPv6 /128 withdraw (MP_UNREACH_NLRI of 23
    bytes on its own). -/
def mixedInput : Input :=
  { M := 4096, attrDef := 4013, attrNoDef := 0, negotiated := [1, 3], simple := [1, 2, 3, 4], famOrder := [3],
    anns := [nlri6 1 17 1, nlri6 2 17 1], wds := [wd6 3 17], includeWithdraw := true }

end Exa.Pack
