import ExaModel.Generated.Printable
/-!
# M-Json — the record formats of the API pipe

What is modelled (read from /repo, see the per-definition comments):

* `escChar` / `escBody` / `quote` — `json.dumps(str)` with the default `ensure_ascii=True`
  (CPython `py_encode_basestring_ascii`), which is the only string escaper the JSON encoder uses
  (`Response.JSON._string`, and every `json()` producer that quotes peer text).
* `reprEsc` / `onelineChar` / `oneline` — `exabgp.reactor.api.response.text.oneline`:
  `c if c.isprintable() or c == ' ' else repr(c)[1:-1]`, with `str.isprintable` the *generated*
  table `Exa.Generated.Printable.nonPrintable`.  `onelineFixed` is the same function with the
  pass-through restricted to ASCII (the proposed repair of F29).
* `asciiEncodable` — what `Processes.write` accepts: `bytes(f'{string}\n', 'ascii')`.

What is specification (written from RFC 8259, not from the code):

* `J` — JSON values; numbers are kept as their literal text, strings as lists of code points.
* `parse` — a strict RFC 8259 parser: one value, nothing after it but white space, no raw
  control character inside a string, `\uXXXX` escapes with UTF-16 pairs combined (as every JSON
  consumer does), **an object with a repeated key is rejected at any depth**.
* `parseLine` — `parse` on a record that must be a single line (no code point below 0x20 at all).
* `render` — a printer in ExaBGP's spacing (`{ "k": v, "k": v }`, `[ a, b ]`) through `quote`.

Strings are `List Nat` (code points), not `String`: a Python `str` may hold lone surrogates and
Lean's `Char` cannot.
-/
namespace Exa.Json

abbrev Str := List Nat

mutual
inductive J where
  | null : J
  | bool (b : Bool) : J
  | num (lit : Str) : J
  | str (s : Str) : J
  | arr (l : JL) : J
  | obj (m : JM) : J
inductive JL where
  | nil : JL
  | cons (h : J) (t : JL) : JL
inductive JM where
  | nil : JM
  | cons (k : Str) (v : J) (t : JM) : JM
end

deriving instance DecidableEq for J, JL, JM

/-! ## json.dumps(str) — ensure_ascii escaping -/

/-- lowercase hex digit of a nibble (`'{0:04x}'.format`) -/
def hexDigit (n : Nat) : Nat := if n < 10 then 0x30 + n else 0x57 + n

/-- `\uXXXX` -/
def u4 (n : Nat) : Str :=
  [0x5C, 0x75, hexDigit (n / 4096 % 16), hexDigit (n / 256 % 16), hexDigit (n / 16 % 16), hexDigit (n % 16)]

/-- one code point through `py_encode_basestring_ascii`: the two-character escapes, printable
    ASCII as is, everything else `\uXXXX`, above the BMP as a UTF-16 pair -/
def escChar (c : Nat) : Str :=
  if c = 0x22 then [0x5C, 0x22]
  else if c = 0x5C then [0x5C, 0x5C]
  else if c = 0x0A then [0x5C, 0x6E]
  else if c = 0x0D then [0x5C, 0x72]
  else if c = 0x09 then [0x5C, 0x74]
  else if c = 0x08 then [0x5C, 0x62]
  else if c = 0x0C then [0x5C, 0x66]
  else if 0x20 ≤ c ∧ c < 0x7F then [c]
  else if c < 0x10000 then u4 c
  else u4 (0xD800 + (c - 0x10000) / 0x400 % 0x400) ++ u4 (0xDC00 + (c - 0x10000) % 0x400)

def escBody (s : Str) : Str := s.flatMap escChar

/-- `json.dumps(s)` -/
def quote (s : Str) : Str := 0x22 :: (escBody s ++ [0x22])

/-! ## RFC 8259 lexing -/

def isHigh (u : Nat) : Bool := 0xD800 ≤ u && u < 0xDC00
def isLow (u : Nat) : Bool := 0xDC00 ≤ u && u < 0xE000
def isSurr (u : Nat) : Bool := 0xD800 ≤ u && u < 0xE000

def hexVal (c : Nat) : Option Nat :=
  if 0x30 ≤ c ∧ c ≤ 0x39 then some (c - 0x30)
  else if 0x61 ≤ c ∧ c ≤ 0x66 then some (c - 0x57)
  else if 0x41 ≤ c ∧ c ≤ 0x46 then some (c - 0x37)
  else none

def hex4 (a b c d : Nat) : Option Nat :=
  match hexVal a, hexVal b, hexVal c, hexVal d with
  | some a, some b, some c, some d => some (a * 4096 + b * 256 + c * 16 + d)
  | _, _, _, _ => none

/-- the single-character escapes of RFC 8259 section 7 -/
def simpleEsc (e : Nat) : Option Nat :=
  if e = 0x22 then some 0x22
  else if e = 0x5C then some 0x5C
  else if e = 0x2F then some 0x2F
  else if e = 0x62 then some 0x08
  else if e = 0x66 then some 0x0C
  else if e = 0x6E then some 0x0A
  else if e = 0x72 then some 0x0D
  else if e = 0x74 then some 0x09
  else none

def consUnit (u : Nat) : Option (Str × List Nat) → Option (Str × List Nat)
  | some (us, r) => some (u :: us, r)
  | none => none

/-- After the opening quote: the code units of the string up to the closing quote, and what
    follows it.  A raw character must be a Unicode scalar value ≥ 0x20 other than `"` and `\`;
    `\uXXXX` yields one 16-bit unit (pairs are combined by `combine`). -/
def lexUnits : List Nat → Option (Str × List Nat)
  | [] => none
  | c :: t =>
    if c = 0x22 then some ([], t)
    else if c = 0x5C then
      match t with
      | [] => none
      | e :: t2 =>
        if e = 0x75 then
          match t2 with
          | a :: b :: c' :: d :: t3 =>
            match hex4 a b c' d with
            | some u => consUnit u (lexUnits t3)
            | none => none
          | _ => none
        else
          match simpleEsc e with
          | some u => consUnit u (lexUnits t2)
          | none => none
    else if c < 0x20 ∨ isSurr c = true ∨ 0x110000 ≤ c then none
    else consUnit c (lexUnits t)

/-- UTF-16 pairs written as two `\u` escapes are one code point -/
def combine : Str → Str
  | [] => []
  | [u] => [u]
  | u :: v :: t =>
    if isHigh u = true ∧ isLow v = true then (0x10000 + (u - 0xD800) * 0x400 + (v - 0xDC00)) :: combine t
    else u :: combine (v :: t)

/-- a whole string token after its opening quote -/
def lexStr (inp : List Nat) : Option (Str × List Nat) :=
  match lexUnits inp with
  | some (us, r) => some (combine us, r)
  | none => none

def isDigit (c : Nat) : Bool := 0x30 ≤ c && c ≤ 0x39

def isNumChar (c : Nat) : Bool :=
  isDigit c || c = 0x2D || c = 0x2B || c = 0x2E || c = 0x65 || c = 0x45

def dropDigits : Str → Str
  | [] => []
  | c :: t => if isDigit c = true then dropDigits t else c :: t

/-- `[eE][+-]?[0-9]+` or nothing, then the end -/
def expPart (l : Str) : Bool :=
  match l with
  | [] => true
  | e :: t =>
    if e = 0x65 ∨ e = 0x45 then
      let t' := match t with
        | s :: t2 => if s = 0x2B ∨ s = 0x2D then t2 else s :: t2
        | [] => []
      match t' with
      | d :: t3 => isDigit d && (dropDigits t3).isEmpty
      | [] => false
    else false

/-- `(\.[0-9]+)?` then `expPart` -/
def fracExp (l : Str) : Bool :=
  match l with
  | [] => true
  | p :: t =>
    if p = 0x2E then
      match t with
      | d :: t2 => isDigit d && expPart (dropDigits t2)
      | [] => false
    else expPart (p :: t)

/-- RFC 8259 section 6: `-?(0|[1-9][0-9]*)(\.[0-9]+)?([eE][+-]?[0-9]+)?` -/
def validNum (l : Str) : Bool :=
  let l' := match l with
    | m :: t => if m = 0x2D then t else m :: t
    | [] => []
  match l' with
  | [] => false
  | d :: t =>
    if d = 0x30 then fracExp t
    else if 0x31 ≤ d ∧ d ≤ 0x39 then fracExp (dropDigits t)
    else false

def spanNum : List Nat → Str × List Nat
  | [] => ([], [])
  | c :: t =>
    if isNumChar c = true then
      let r := spanNum t
      (c :: r.1, r.2)
    else ([], c :: t)

def isWs (c : Nat) : Bool := c = 0x20 || c = 0x09 || c = 0x0A || c = 0x0D

def skipWs : List Nat → List Nat
  | [] => []
  | c :: t => if isWs c = true then skipWs t else c :: t

/-! ## The parser -/

inductive Err where
  /-- not JSON; `rem` = number of code points left at the token where parsing stopped -/
  | bad (rem : Nat) : Err
  /-- a key occurs twice in one object; `rem` = code points left after the second occurrence -/
  | dup (key : Str) (rem : Nat) : Err
deriving DecidableEq

abbrev Res (α : Type) := Except Err (α × List Nat)

instance instDecEqExcept {ε α : Type} [DecidableEq ε] [DecidableEq α] : DecidableEq (Except ε α)
  | .ok a, .ok b => if h : a = b then isTrue (by rw [h]) else isFalse (fun e => h (by cases e; rfl))
  | .error a, .error b => if h : a = b then isTrue (by rw [h]) else isFalse (fun e => h (by cases e; rfl))
  | .ok _, .error _ => isFalse (fun e => by cases e)
  | .error _, .ok _ => isFalse (fun e => by cases e)

mutual
/-- one value; the input starts at the value (white space already skipped) -/
def pValue : Nat → List Nat → Res J
  | 0, inp => .error (.bad inp.length)
  | _ + 1, [] => .error (.bad 0)
  | f + 1, c :: t =>
    if c = 0x7B then
      match skipWs t with
      | [] => .error (.bad 0)
      | c2 :: t2 =>
        if c2 = 0x7D then .ok (.obj .nil, t2)
        else
          match pMembers f [] (c2 :: t2) with
          | .ok (m, r) => .ok (.obj m, r)
          | .error e => .error e
    else if c = 0x5B then
      match skipWs t with
      | [] => .error (.bad 0)
      | c2 :: t2 =>
        if c2 = 0x5D then .ok (.arr .nil, t2)
        else
          match pElems f (c2 :: t2) with
          | .ok (l, r) => .ok (.arr l, r)
          | .error e => .error e
    else if c = 0x22 then
      match lexStr t with
      | some (s, r) => .ok (.str s, r)
      | none => .error (.bad (t.length + 1))
    else if c = 0x74 then
      if t.take 3 = [0x72, 0x75, 0x65] then .ok (.bool true, t.drop 3) else .error (.bad (t.length + 1))
    else if c = 0x66 then
      if t.take 4 = [0x61, 0x6C, 0x73, 0x65] then .ok (.bool false, t.drop 4) else .error (.bad (t.length + 1))
    else if c = 0x6E then
      if t.take 3 = [0x75, 0x6C, 0x6C] then .ok (.null, t.drop 3) else .error (.bad (t.length + 1))
    else
      let sp := spanNum (c :: t)
      if validNum sp.1 = true then .ok (.num sp.1, sp.2)
      else .error (.bad (t.length + 1))

/-- members of an object after `{`, up to and including `}`; `seen` = keys already read in
    this object.  The input starts at the opening quote of a key. -/
def pMembers : Nat → List Str → List Nat → Res JM
  | 0, _, inp => .error (.bad inp.length)
  | _ + 1, _, [] => .error (.bad 0)
  | f + 1, seen, c :: t =>
    if c = 0x22 then
      match lexStr t with
      | none => .error (.bad (t.length + 1))
      | some (k, r) =>
        if k ∈ seen then .error (.dup k r.length)
        else
          match skipWs r with
          | [] => .error (.bad 0)
          | c2 :: t2 =>
            if c2 = 0x3A then
              match pValue f (skipWs t2) with
              | .error e => .error e
              | .ok (v, r2) =>
                match skipWs r2 with
                | [] => .error (.bad 0)
                | c3 :: t3 =>
                  if c3 = 0x2C then
                    match pMembers f (k :: seen) (skipWs t3) with
                    | .ok (m, r3) => .ok (.cons k v m, r3)
                    | .error e => .error e
                  else if c3 = 0x7D then .ok (.cons k v .nil, t3)
                  else .error (.bad (t3.length + 1))
            else .error (.bad (t2.length + 1))
    else .error (.bad (t.length + 1))

/-- elements of an array after `[`, up to and including `]` -/
def pElems : Nat → List Nat → Res JL
  | 0, inp => .error (.bad inp.length)
  | f + 1, inp =>
    match pValue f inp with
    | .error e => .error e
    | .ok (v, r) =>
      match skipWs r with
      | [] => .error (.bad 0)
      | c :: t =>
        if c = 0x2C then
          match pElems f (skipWs t) with
          | .ok (l, r2) => .ok (.cons v l, r2)
          | .error e => .error e
        else if c = 0x5D then .ok (.cons v .nil, t)
        else .error (.bad (t.length + 1))
end

/-- RFC 8259 `JSON-text = ws value ws`, nothing else -/
def parse (s : List Nat) : Except Err J :=
  match pValue (s.length + 1) (skipWs s) with
  | .error e => .error e
  | .ok (j, r) => if skipWs r = [] then .ok j else .error (.bad (skipWs r).length)

/-- number of code points before the first one below 0x20, if any -/
def firstCtl : List Nat → Option Nat
  | [] => none
  | c :: t => if c < 0x20 then some 0 else (firstCtl t).map (· + 1)

/-- one record of the pipe: a single line (no control character, hence no line break,
    anywhere) that is one JSON value -/
def parseLine (s : List Nat) : Except Err J :=
  match firstCtl s with
  | some p => .error (.bad (s.length - p))
  | none => parse s

/-! ## Rendering in ExaBGP's spacing -/

mutual
def render : J → Str
  | .null => [0x6E, 0x75, 0x6C, 0x6C]
  | .bool true => [0x74, 0x72, 0x75, 0x65]
  | .bool false => [0x66, 0x61, 0x6C, 0x73, 0x65]
  | .num lit => lit
  | .str s => quote s
  | .arr .nil => [0x5B, 0x20, 0x5D]
  | .arr (.cons h t) => [0x5B, 0x20] ++ (render h ++ (renderTL t ++ [0x20, 0x5D]))
  | .obj .nil => [0x7B, 0x20, 0x7D]
  | .obj (.cons k v t) => [0x7B, 0x20] ++ (quote k ++ ([0x3A, 0x20] ++ (render v ++ (renderTM t ++ [0x20, 0x7D]))))
/-- the elements after the first: `, e` each -/
def renderTL : JL → Str
  | .nil => []
  | .cons h t => [0x2C, 0x20] ++ (render h ++ renderTL t)
/-- the members after the first: `, "k": v` each -/
def renderTM : JM → Str
  | .nil => []
  | .cons k v t => [0x2C, 0x20] ++ (quote k ++ ([0x3A, 0x20] ++ (render v ++ renderTM t)))
end

/-! ## Well-formedness predicates (decidable, Bool) -/

def JM.keys : JM → List Str
  | .nil => []
  | .cons k _ t => k :: t.keys

/-- no high surrogate directly followed by a low surrogate (such a pair *is* the code point
    above the BMP, in Python's `json` as in every consumer) -/
def noSurrPair : Str → Bool
  | [] => true
  | [_] => true
  | u :: v :: t => !(isHigh u && isLow v) && noSurrPair (v :: t)

/-- a Python `str`: code points below 0x110000 (lone surrogates allowed) -/
def wfStr (s : Str) : Bool := s.all (· < 0x110000) && noSurrPair s

def wfNum (l : Str) : Bool := validNum l && l.all isNumChar

mutual
/-- no object, at any depth, has the same key twice -/
def J.nodup : J → Bool
  | .arr l => l.nodup
  | .obj m => decide (m.keys.Nodup) && m.nodup
  | _ => true
def JL.nodup : JL → Bool
  | .nil => true
  | .cons h t => h.nodup && t.nodup
def JM.nodup : JM → Bool
  | .nil => true
  | .cons _ v t => v.nodup && t.nodup
end

mutual
/-- numbers are number literals, strings and keys are Python strings -/
def J.wf : J → Bool
  | .num l => wfNum l
  | .str s => wfStr s
  | .arr l => l.wf
  | .obj m => m.wf
  | _ => true
def JL.wf : JL → Bool
  | .nil => true
  | .cons h t => h.wf && t.wf
def JM.wf : JM → Bool
  | .nil => true
  | .cons k v t => wfStr k && v.wf && t.wf
end

mutual
/-- the value with every string leaf and every number replaced by a constant: keys and
    structure only ("key skeleton") -/
def J.skel : J → J
  | .null => .null
  | .bool _ => .bool true
  | .num _ => .num [0x30]
  | .str _ => .str [0x78]
  | .arr l => .arr l.skel
  | .obj m => .obj m.skel
def JL.skel : JL → JL
  | .nil => .nil
  | .cons h t => .cons h.skel t.skel
def JM.skel : JM → JM
  | .nil => .nil
  | .cons k v t => .cons k v.skel t.skel
end

/-! ## text.oneline -/

open Exa.Generated.Printable in
/-- `chr(c).isprintable()` (generated table) -/
def isPrintable (c : Nat) : Bool := !(nonPrintable.any (fun r => r.1 ≤ c && c ≤ r.2))

/-- `repr(chr(c))[1:-1]` for a non-printable `c` -/
def reprEsc (c : Nat) : Str :=
  if c = 0x09 then [0x5C, 0x74]
  else if c = 0x0A then [0x5C, 0x6E]
  else if c = 0x0D then [0x5C, 0x72]
  else if c < 0x100 then [0x5C, 0x78, hexDigit (c / 16 % 16), hexDigit (c % 16)]
  else if c < 0x10000 then u4 c
  else [0x5C, 0x55, hexDigit (c / 0x10000000 % 16), hexDigit (c / 0x1000000 % 16), hexDigit (c / 0x100000 % 16),
        hexDigit (c / 0x10000 % 16), hexDigit (c / 0x1000 % 16), hexDigit (c / 0x100 % 16), hexDigit (c / 0x10 % 16),
        hexDigit (c % 16)]

/-- `c if pass(c) or c == ' ' else repr(c)[1:-1]`, character by character -/
def escWith (pass : Nat → Bool) (s : Str) : Str :=
  s.flatMap (fun c => if pass c = true ∨ c = 0x20 then [c] else reprEsc c)

/-- `exabgp.reactor.api.response.text.oneline` as it is in /repo:
    `character if character.isprintable() or character == ' ' else repr(character)[1:-1]` -/
def oneline (s : Str) : Str := escWith isPrintable s

/-- the proposed repair of F29: pass through only what is printable **and ASCII**,
    `ascii(character)[1:-1]` otherwise (same escapes: `ascii()` = `repr()` with non-ASCII escaped) -/
def onelineFixed (s : Str) : Str := escWith (fun c => isPrintable c && decide (c < 0x80)) s

/-- what `bytes(line, 'ascii')` in `Processes.write` can encode -/
def asciiEncodable (s : Str) : Bool := s.all (· < 0x80)

/-- a text record as it must arrive: printable ASCII only (the line break that ends it excluded) -/
def textLineOk (s : Str) : Bool := s.all (fun c => 0x20 ≤ c && c < 0x7F)

/-- position of the first code point of a text line that is not printable ASCII -/
def firstNonText : Str → Option Nat
  | [] => none
  | c :: t => if 0x20 ≤ c ∧ c < 0x7F then (firstNonText t).map (· + 1) else some 0

/-- inverse of `oneline` on its image (used to state injectivity): reads `\t \n \r \xHH \uHHHH
    \UHHHHHHHH`, anything else stands for itself (a truncated escape ends the reading) -/
def unOneline : Str → Str
  | [] => []
  | c :: t =>
    if c = 0x5C then
      match t with
      | [] => [c]
      | e :: t2 =>
        if e = 0x74 then 0x09 :: unOneline t2
        else if e = 0x6E then 0x0A :: unOneline t2
        else if e = 0x72 then 0x0D :: unOneline t2
        else if e = 0x78 then
          match t2 with
          | a :: b :: t3 =>
            match hexVal a, hexVal b with
            | some a, some b => (a * 16 + b) :: unOneline t3
            | _, _ => []
          | _ => []
        else if e = 0x75 then
          match t2 with
          | a :: b :: c' :: d :: t3 =>
            match hex4 a b c' d with
            | some u => u :: unOneline t3
            | none => []
          | _ => []
        else if e = 0x55 then
          match t2 with
          | a :: b :: c' :: d :: a2 :: b2 :: c2 :: d2 :: t3 =>
            match hex4 a b c' d, hex4 a2 b2 c2 d2 with
            | some u, some v => (u * 0x10000 + v) :: unOneline t3
            | _, _ => []
          | _ => []
        else c :: e :: unOneline t2
    else c :: unOneline t

end Exa.Json
