/-
  M-Wire, part 2: path attributes (RFC reference, NOT a model of ExaBGP).

  RFC 4271 §4.3 (attribute = flags, type code, 1- or 2-byte length chosen by the Extended Length
  flag, value; the four low flag bits are unused and ignored on receipt), §5 (value layouts of
  ORIGIN, AS_PATH, NEXT_HOP, MULTI_EXIT_DISC, LOCAL_PREF, ATOMIC_AGGREGATE, AGGREGATOR), RFC 1997
  (COMMUNITIES), RFC 4456 (ORIGINATOR_ID, CLUSTER_LIST), RFC 4360 (EXTENDED COMMUNITIES, 8-byte
  records), RFC 8092 (LARGE COMMUNITIES, 12-byte records), RFC 6793 (4-byte AS_PATH / AGGREGATOR,
  AS4_PATH, AS4_AGGREGATOR), RFC 4760 (MP_REACH_NLRI, MP_UNREACH_NLRI).
  Errors are the RFC 4271 §6.3 subcodes of UPDATE Message Error.

  The interface is documented at the top of `Model/Wire.lean`.
-/
import ExaModel.Model.WireNlri

namespace Exa.Wire
open Exa

/-- Attribute flags octet. `ext` is the Extended Length bit: it is part of the value so that the
    encoder can put a 2-byte length on a short attribute, as a peer may. -/
structure Flags where
  opt   : Bool
  trans : Bool
  part  : Bool
  ext   : Bool
deriving Repr, DecidableEq

def b2n (b : Bool) (n : Nat) : Nat := if b then n else 0

def Flags.byte (f : Flags) : Nat := b2n f.opt 128 + b2n f.trans 64 + b2n f.part 32 + b2n f.ext 16
def Flags.ofByte (b : Nat) : Flags :=
  { opt := b / 128 % 2 == 1, trans := b / 64 % 2 == 1, part := b / 32 % 2 == 1, ext := b / 16 % 2 == 1 }

/-- AS path segment: (type, AS numbers). Types: 1 AS_SET, 2 AS_SEQUENCE, 3 AS_CONFED_SEQUENCE, 4 AS_CONFED_SET. -/
abbrev Seg := Nat × List Nat

inductive AttrVal where
  | origin (v : Nat)                                         -- 1: 0 IGP, 1 EGP, 2 INCOMPLETE
  | asPath (segs : List Seg)                                 -- 2
  | nextHop (ip : Nat)                                       -- 3: IPv4 address as a 32-bit number
  | med (v : Nat)                                            -- 4
  | localPref (v : Nat)                                      -- 5
  | atomicAggregate                                          -- 6
  | aggregator (asn ip : Nat)                                -- 7: 2- or 4-byte AS by `Params.asn4`
  | communities (cs : List Nat)                              -- 8: 32-bit values
  | originatorId (ip : Nat)                                  -- 9
  | clusterList (ids : List Nat)                             -- 10
  | mpReach (afi safi : Nat) (nh : Bytes) (nlris : List Nlri)   -- 14, supported family
  | mpUnreach (afi safi : Nat) (nlris : List Nlri)           -- 15, supported family
  | extCommunities (cs : List (Nat × Nat))                   -- 16: 8-byte records as (high 32 bits, low 32 bits)
  | as4Path (segs : List Seg)                                -- 17
  | as4Aggregator (asn ip : Nat)                             -- 18
  | largeCommunities (cs : List (Nat × Nat × Nat))           -- 32: 12-byte records
  | mpReachRaw (afi safi : Nat) (nh : Bytes) (raw : Bytes)   -- 14, any other family: NLRI field opaque
  | mpUnreachRaw (afi safi : Nat) (raw : Bytes)              -- 15, any other family
  | unknown (code : Nat) (raw : Bytes)                       -- unrecognised type code: opaque
deriving Repr, DecidableEq

def AttrVal.code : AttrVal → Nat
  | .origin _ => 1 | .asPath _ => 2 | .nextHop _ => 3 | .med _ => 4 | .localPref _ => 5
  | .atomicAggregate => 6 | .aggregator _ _ => 7 | .communities _ => 8 | .originatorId _ => 9
  | .clusterList _ => 10 | .mpReach _ _ _ _ => 14 | .mpUnreach _ _ _ => 15 | .extCommunities _ => 16
  | .as4Path _ => 17 | .as4Aggregator _ _ => 18 | .largeCommunities _ => 32
  | .mpReachRaw _ _ _ _ => 14 | .mpUnreachRaw _ _ _ => 15 | .unknown c _ => c

structure Attr where
  flags : Flags
  val   : AttrVal
deriving Repr, DecidableEq

def Attr.code (a : Attr) : Nat := a.val.code

/-- The type codes M-Wire recognises. -/
def knownCodes : List Nat := [1, 2, 3, 4, 5, 6, 7, 8, 9, 10, 14, 15, 16, 17, 18, 32]

/-- RFC flag classes of the recognised codes: (code, optional, transitive). -/
def specTable : List (Nat × Bool × Bool) :=
  [(1, false, true), (2, false, true), (3, false, true), (4, true, false), (5, false, true),
   (6, false, true), (7, true, true), (8, true, true), (9, true, false), (10, true, false),
   (14, true, false), (15, true, false), (16, true, true), (17, true, true), (18, true, true),
   (32, true, true)]

def flagSpec (code : Nat) : Option (Bool × Bool) := specTable.lookup code

/-- RFC 4271 §6.3: flags in conflict with the type code → 3/4; an unrecognised attribute that is
    not optional → 3/2. Partial may only be set on optional transitive attributes (§4.3). -/
def flagErr (f : Flags) (code : Nat) : Option Err :=
  match flagSpec code with
  | some (o, t) =>
    if f.opt = o ∧ f.trans = t ∧ (f.part = true → o = true ∧ t = true) then none else some (3, 4)
  | none =>
    if f.opt = false then some (3, 2)
    else if f.part = true ∧ f.trans = false then some (3, 4) else none

/-! ### value encoders -/

def encAsn (w4 : Bool) (a : Nat) : Bytes := if w4 then be32 a else be16 a

def encAsns (w4 : Bool) : List Nat → Bytes
  | [] => []
  | a :: t => encAsn w4 a ++ encAsns w4 t

def encSegs (w4 : Bool) : List Seg → Bytes
  | [] => []
  | s :: t => s.1 :: s.2.length :: (encAsns w4 s.2 ++ encSegs w4 t)

def flat2 : List (Nat × Nat) → List Nat
  | [] => []
  | (a, b) :: t => a :: b :: flat2 t
def unflat2 : List Nat → List (Nat × Nat)
  | a :: b :: t => (a, b) :: unflat2 t
  | _ => []
def flat3 : List (Nat × Nat × Nat) → List Nat
  | [] => []
  | (a, b, c) :: t => a :: b :: c :: flat3 t
def unflat3 : List Nat → List (Nat × Nat × Nat)
  | a :: b :: c :: t => (a, b, c) :: unflat3 t
  | _ => []

def encVal (p : Params) : AttrVal → Bytes
  | .origin v => [v]
  | .asPath segs => encSegs p.asn4 segs
  | .nextHop ip => be32 ip
  | .med v => be32 v
  | .localPref v => be32 v
  | .atomicAggregate => []
  | .aggregator asn ip => encAsn p.asn4 asn ++ be32 ip
  | .communities cs => encAsns true cs
  | .originatorId ip => be32 ip
  | .clusterList ids => encAsns true ids
  | .mpReach afi safi nh nlris => be16 afi ++ (safi :: nh.length :: (nh ++ 0 :: encNlris safi false nlris))
  | .mpUnreach afi safi nlris => be16 afi ++ (safi :: encNlris safi true nlris)
  | .extCommunities cs => encAsns true (flat2 cs)
  | .as4Path segs => encSegs true segs
  | .as4Aggregator asn ip => be32 asn ++ be32 ip
  | .largeCommunities cs => encAsns true (flat3 cs)
  | .mpReachRaw afi safi nh raw => be16 afi ++ (safi :: nh.length :: (nh ++ 0 :: raw))
  | .mpUnreachRaw afi safi raw => be16 afi ++ (safi :: raw)
  | .unknown _ raw => raw

def encLen (ext : Bool) (n : Nat) : Bytes := if ext then be16 n else [n]

def encAttr (p : Params) (a : Attr) : Bytes :=
  a.flags.byte :: a.val.code :: (encLen a.flags.ext (encVal p a.val).length ++ encVal p a.val)

def encAttrs (p : Params) : List Attr → Bytes
  | [] => []
  | a :: t => encAttr p a ++ encAttrs p t

/-! ### value decoders -/

/-- `n` AS numbers (or 32-bit values when `w4`) from the front of `bs`. -/
def decAsns (w4 : Bool) : Nat → Bytes → Option (List Nat × Bytes)
  | 0, bs => some ([], bs)
  | n + 1, bs =>
    if bs.length < (if w4 then 4 else 2) then none
    else match decAsns w4 n (bs.drop (if w4 then 4 else 2)) with
      | some (l, r) => some ((if w4 then rd32 bs else rd16 bs) :: l, r)
      | none => none

/-- Path segments until the value is exhausted. Fuel: one unit per segment (≥ 2 bytes each). -/
def decSegs (w4 : Bool) : Nat → Bytes → Option (List Seg)
  | _, [] => some []
  | 0, _ :: _ => none
  | _ + 1, [_] => none
  | f + 1, t :: c :: r =>
    if t = 0 ∨ t > 4 ∨ c = 0 then none
    else match decAsns w4 c r with
      | none => none
      | some (as, rest) =>
        match decSegs w4 f rest with
        | none => none
        | some ss => some ((t, as) :: ss)

/-- a value made of 32-bit numbers -/
def decU32s (v : Bytes) : List Nat :=
  match decAsns true (v.length / 4) v with
  | some (l, _) => l
  | none => []

def decMpReach (p : Params) (v : Bytes) : Except Err AttrVal :=
  if v.length < 5 then .error (3, 9)
  else if v.length < 5 + v.getD 3 0 then .error (3, 9)
  else
    let afi := rd16 v
    let safi := v.getD 2 0
    let nh := (v.drop 4).take (v.getD 3 0)
    let rest := v.drop (5 + v.getD 3 0)       -- the reserved octet is ignored (RFC 4760 §3)
    if supported afi safi then
      match decNlris afi safi (p.ap afi safi) false rest.length rest with
      | .error e => .error e
      | .ok ns => .ok (.mpReach afi safi nh ns)
    else .ok (.mpReachRaw afi safi nh rest)

def decMpUnreach (p : Params) (v : Bytes) : Except Err AttrVal :=
  if v.length < 3 then .error (3, 9)
  else
    let afi := rd16 v
    let safi := v.getD 2 0
    let rest := v.drop 3
    if supported afi safi then
      match decNlris afi safi (p.ap afi safi) true rest.length rest with
      | .error e => .error e
      | .ok ns => .ok (.mpUnreach afi safi ns)
    else .ok (.mpUnreachRaw afi safi rest)

/-- Value of the attribute with type code `code`. -/
def decVal (p : Params) (code : Nat) (v : Bytes) : Except Err AttrVal :=
  if code = 1 then
    (if v.length ≠ 1 then .error (3, 5) else if v.getD 0 0 > 2 then .error (3, 6) else .ok (.origin (v.getD 0 0)))
  else if code = 2 then
    (match decSegs p.asn4 v.length v with | some s => .ok (.asPath s) | none => .error (3, 11))
  else if code = 3 then (if v.length ≠ 4 then .error (3, 5) else .ok (.nextHop (rd32 v)))
  else if code = 4 then (if v.length ≠ 4 then .error (3, 5) else .ok (.med (rd32 v)))
  else if code = 5 then (if v.length ≠ 4 then .error (3, 5) else .ok (.localPref (rd32 v)))
  else if code = 6 then (if v.length ≠ 0 then .error (3, 5) else .ok .atomicAggregate)
  else if code = 7 then
    (if p.asn4 then (if v.length ≠ 8 then .error (3, 5) else .ok (.aggregator (rd32 v) (rd32 (v.drop 4))))
     else (if v.length ≠ 6 then .error (3, 5) else .ok (.aggregator (rd16 v) (rd32 (v.drop 2)))))
  else if code = 8 then (if v.length % 4 ≠ 0 then .error (3, 5) else .ok (.communities (decU32s v)))
  else if code = 9 then (if v.length ≠ 4 then .error (3, 5) else .ok (.originatorId (rd32 v)))
  else if code = 10 then (if v.length % 4 ≠ 0 then .error (3, 5) else .ok (.clusterList (decU32s v)))
  else if code = 14 then decMpReach p v
  else if code = 15 then decMpUnreach p v
  else if code = 16 then (if v.length % 8 ≠ 0 then .error (3, 5) else .ok (.extCommunities (unflat2 (decU32s v))))
  else if code = 17 then
    (match decSegs true v.length v with | some s => .ok (.as4Path s) | none => .error (3, 11))
  else if code = 18 then (if v.length ≠ 8 then .error (3, 5) else .ok (.as4Aggregator (rd32 v) (rd32 (v.drop 4))))
  else if code = 32 then (if v.length % 12 ≠ 0 then .error (3, 5) else .ok (.largeCommunities (unflat3 (decU32s v))))
  else .ok (.unknown code v)

/-- length field: (declared length, bytes after the field) -/
def decLen (ext : Bool) (r : Bytes) : Option (Nat × Bytes) :=
  if ext then (if r.length < 2 then none else some (rd16 r, r.drop 2))
  else match r with
    | [] => none
    | l :: r' => some (l, r')

/-- One attribute (TLV) from the front of `bs`. A header or value that overruns the block is
    Malformed Attribute List (3/1). -/
def decAttr (p : Params) (bs : Bytes) : Except Err (Attr × Bytes) :=
  match bs with
  | fb :: code :: r =>
    match decLen (Flags.ofByte fb).ext r with
    | none => .error (3, 1)
    | some (len, body) =>
      if body.length < len then .error (3, 1)
      else match flagErr (Flags.ofByte fb) code with
        | some e => .error e
        | none =>
          match decVal p code (body.take len) with
          | .error e => .error e
          | .ok v => .ok ({ flags := Flags.ofByte fb, val := v }, body.drop len)
  | _ => .error (3, 1)

/-- The attribute walk. Fuel: one unit per attribute (≥ 3 bytes each); `bs.length` suffices. -/
def decAttrs (p : Params) : Nat → Bytes → Except Err (List Attr)
  | _, [] => .ok []
  | 0, _ :: _ => .error (3, 1)
  | f + 1, b :: bs =>
    match decAttr p (b :: bs) with
    | .error e => .error e
    | .ok (a, rest) =>
      match decAttrs p f rest with
      | .error e => .error e
      | .ok as => .ok (a :: as)

/-! ### well-formedness -/

def WFSeg (w4 : Bool) (s : Seg) : Prop :=
  1 ≤ s.1 ∧ s.1 ≤ 4 ∧ 1 ≤ s.2.length ∧ s.2.length ≤ 255 ∧
  ∀ a ∈ s.2, a < (if w4 then 4294967296 else 65536)

def U32s (l : List Nat) : Prop := ∀ a ∈ l, a < 4294967296

def WFVal (p : Params) : AttrVal → Prop
  | .origin v => v ≤ 2
  | .asPath segs => ∀ s ∈ segs, WFSeg p.asn4 s
  | .nextHop ip => ip < 4294967296
  | .med v => v < 4294967296
  | .localPref v => v < 4294967296
  | .atomicAggregate => True
  | .aggregator asn ip => asn < (if p.asn4 then 4294967296 else 65536) ∧ ip < 4294967296
  | .communities cs => U32s cs
  | .originatorId ip => ip < 4294967296
  | .clusterList ids => U32s ids
  | .mpReach afi safi nh nlris =>
      supported afi safi = true ∧ nh.length < 256 ∧ ∀ n ∈ nlris, WFNlri afi safi (p.ap afi safi) false n
  | .mpUnreach afi safi nlris =>
      supported afi safi = true ∧ ∀ n ∈ nlris, WFNlri afi safi (p.ap afi safi) true n
  | .extCommunities cs => U32s (flat2 cs)
  | .as4Path segs => ∀ s ∈ segs, WFSeg true s
  | .as4Aggregator asn ip => asn < 4294967296 ∧ ip < 4294967296
  | .largeCommunities cs => U32s (flat3 cs)
  | .mpReachRaw afi safi nh _ => supported afi safi = false ∧ afi < 65536 ∧ safi < 256 ∧ nh.length < 256
  | .mpUnreachRaw afi safi _ => supported afi safi = false ∧ afi < 65536 ∧ safi < 256
  | .unknown c _ => c ∉ knownCodes

/-- A well-formed attribute: flags allowed for the code, value in range, and a length that fits
    the length field the Extended Length flag selects. -/
def WFAttr (p : Params) (a : Attr) : Prop :=
  flagErr a.flags a.val.code = none ∧ WFVal p a.val ∧
  (encVal p a.val).length < (if a.flags.ext then 65536 else 256)

end Exa.Wire
