import ExaModel.Model.OpenCodec
/-!
# M-Nego — from two OPENs to the session parameters

* `Cfg`, `ourCaps`, `ourOpen`: `Capabilities.new(neighbor, restarted=False)` + `Open.make_open`.
* `negotiate`: `Negotiated._negotiate` field by field, *as the code computes it*.
* `validateOpen`: `Negotiated.validate` (the refusals with their OPEN error subcodes).
* `rfcNegotiate`, `rfcRefusals`: a second definition, written from the RFCs on the raw capability
  lists (membership, last ASN4, last ADD-PATH entry of a family) — the oracle.
-/
namespace Exa.Open

def asTrans : Nat := 23456
def initialSize : Nat := 4096
def extendedSize : Nat := 65535
def holdMin : Nat := 3

/-- `Capabilities._ADD_PATH` (spec twin of the generated table). -/
def addPathAllowed : List Family := [(1, 1), (2, 1), (1, 4), (2, 4), (1, 128), (2, 128), (1, 85), (2, 85)]
/-- `Capabilities._NEXTHOP` (spec twin of the generated table). -/
def nexthopAllowed : List Triple := [(1, 1, 2), (1, 2, 2), (1, 4, 2), (1, 128, 2)]

/-! ## Our side -/

structure Cfg where
  localAs : Nat
  peerAs : Nat := 0                    -- 0: any peer AS accepted (`neighbor.session.peer_as` falsy)
  routerId : Nat
  hold : Nat
  families : List Family               -- `neighbor.families()`
  asn4 : Bool := true
  nexthopOn : Bool := false
  nexthops : List Triple := []         -- `neighbor.nexthops()`
  addPath : Nat := 0                   -- 0 off, 1 receive, 2 send, 3 both
  addpaths : List Family := []         -- `neighbor.addpaths()`
  pathsLimit : AList Family Nat := []  -- `capability.paths_limit_per_family`
  graceful : Option Nat := none        -- configured restart time when enabled (0: the hold time is used)
  routeRefresh : Bool := false
  operational : Bool := false
  extMsg : Bool := true
  host : Bytes := []                   -- UTF-8 octets of host-name / domain-name
  domain : Bytes := []
  software : Bool := false
  swVersion : Bytes := []              -- the string `Software()` builds ('ExaBGP/<version>')
  linkLocal : Bool := false
  multiSession : Bool := false
deriving Repr

def famTriple (x : Nat) (f : Family) : Triple := (f.1, f.2, x)

/-- `_pathslimit`: the configured limits of the families we advertise ADD-PATH *receive* for. -/
def ourPathsLimit (cfg : Cfg) : List Triple :=
  let ap := addPathAllowed.filter (fun f => cfg.addpaths.contains f)
  (cfg.pathsLimit.filter (fun e => ap.contains e.1 && decide (cfg.addPath % 2 = 1) && decide (0 < e.2))).map
    (fun e => (e.1.1, e.1.2, e.2))

/-- `Neighbor.infer`: graceful restart enabled with time 0 takes the hold time. -/
def restartTime (cfg : Cfg) (t : Nat) : Nat := if t = 0 then cfg.hold else t

/-- `Capabilities.new`: the capabilities in dict insertion order = emission order. -/
def ourCaps (cfg : Cfg) : List Cap :=
  cfg.families.map (fun f => Cap.mp f.1 f.2)
  ++ (if cfg.asn4 then [Cap.asn4 cfg.localAs] else [])
  ++ (if cfg.nexthopOn then [Cap.nexthop (nexthopAllowed.filter (fun t => cfg.nexthops.contains t))] else [])
  ++ (if cfg.addPath ≠ 0 then
        [Cap.addpath ((addPathAllowed.filter (fun f => cfg.addpaths.contains f)).map (famTriple cfg.addPath))] else [])
  ++ (if cfg.addPath ≠ 0 ∧ ourPathsLimit cfg ≠ [] then [Cap.pathsLimit (ourPathsLimit cfg)] else [])
  ++ (match cfg.graceful with
      | some t => [Cap.graceful 0 (restartTime cfg t % 4096) (cfg.families.map (famTriple 128))]
      | none => [])
  ++ (if cfg.routeRefresh then [Cap.refresh, Cap.enhanced] else [])
  ++ (if cfg.operational then [Cap.operational] else [])
  ++ (if cfg.extMsg then [Cap.extMsg] else [])
  ++ (if cfg.host.isEmpty then [] else [Cap.hostname (cfg.host.take 64) (cfg.domain.take 64)])
  ++ (if cfg.software then [Cap.software cfg.swVersion] else [])
  ++ (if cfg.linkLocal then [Cap.linkLocal] else [])
  ++ (if cfg.multiSession then [Cap.multisession false [0], Cap.multisession false [1]] else [])

/-- `ASN.trans()` -/
def trans (asn : Nat) : Nat := if asn > 65535 then asTrans else asn

/-- `Open.make_open(Version(4), local_as, hold_time, router_id, Capabilities().new(neighbor, False))` -/
def ourOpen (cfg : Cfg) : OpenMsg :=
  { version := 4, myAs := trans cfg.localAs, hold := cfg.hold, bgpId := cfg.routerId, caps := ourCaps cfg }

/-- **The configurations that have an OPEN** (closed form, decidable): AS number and identifier fit 4
    octets, hold time 2; AFI/SAFI of the families fit their fields and the graceful-restart value
    (2 + 4 per family) fits one capability; the ADD-PATH direction is an octet; paths-limit values
    fit 2 octets and the capability; host/domain names are ASCII (the configuration grammar: letters,
    digits, '.', '-'; they are cut to 64 octets when sent); the software version string is UTF-8 of
    at most 252 octets.  Nothing is asked of the lists of ADD-PATH / next-hop families: what is sent
    is their intersection with the implementation's own tables. -/
def cfgOK (cfg : Cfg) : Bool :=
  decide (cfg.localAs < 4294967296) && decide (cfg.hold < 65536) && decide (cfg.routerId < 4294967296)
  && cfg.families.all (fun f => decide (f.1 < 65536) && decide (f.2 < 256)) && decide (cfg.families.length ≤ 62)
  && decide (cfg.addPath < 256)
  && cfg.pathsLimit.all (fun e => decide (e.2 < 65536)) && decide (cfg.pathsLimit.length ≤ 50)
  && cfg.host.all (fun b => decide (b < 128)) && cfg.domain.all (fun b => decide (b < 128))
  && utf8Valid cfg.swVersion && cfg.swVersion.all (fun b => decide (b < 256)) && decide (cfg.swVersion.length ≤ 252)

/-! ## `Negotiated._negotiate` -/

inductive Refresh where
  | absent | normal | enhanced
deriving DecidableEq, Repr

/-- `Negotiated.multisession`: False / True / an error tuple (`crash`, a `KeyError` out of `_negotiate`, was an outcome
    until the repair of F97; the constructor stays for the driver's vocabulary and is no longer produced). -/
inductive MS where
  | no | yes | err (code sub : Nat) | crash
deriving DecidableEq, Repr

structure Negotiated where
  hold : Nat
  asn4 : Bool
  localAs : Nat
  peerAs : Nat
  families : List Family
  nexthop : List Triple
  apSend : AList Family Bool      -- `RequirePath._send`
  apRecv : AList Family Bool      -- `RequirePath._receive`
  refresh : Refresh
  msgSize : Nat
  operational : Bool
  linkLocal : Bool
  pathsLimit : AList Family Nat
  advPathsLimit : AList Family Nat
  multisession : MS
deriving DecidableEq, Repr

/-- `sr & RequirePath.RECEIVE`, `sr & RequirePath.SEND` (the code reads the octet as a bit mask). -/
def recvBit (sr : Nat) : Bool := sr % 2 = 1
def sendBit (sr : Nat) : Bool := sr / 2 % 2 = 1

def Negotiated.send (n : Negotiated) (f : Family) : Bool := (AList.lookup f n.apSend).getD false
def Negotiated.receive (n : Negotiated) (f : Family) : Bool := (AList.lookup f n.apRecv).getD false

def negotiateSets (oursAs oursHold theirsAs theirsHold : Nat) (s r : CapSet) : Negotiated :=
  let asn4 := s.asn4.isSome && r.asn4.isSome
  let apS := s.addpath.getD []
  let apR := r.addpath.getD []
  let keys := AList.keys apS ++ (AList.keys apR).filter (fun k => !(AList.keys apS).contains k)
  let srS := fun k => (AList.lookup k apS).getD 0
  let srR := fun k => (AList.lookup k apR).getD 0
  let apSend := keys.map (fun k => (k, sendBit (srS k) && recvBit (srR k)))
  let apRecv := keys.map (fun k => (k, recvBit (srS k) && sendBit (srR k)))
  let send := fun f => (AList.lookup f apSend).getD false
  let receive := fun f => (AList.lookup f apRecv).getD false
  let bothAp := s.addpath.isSome && r.addpath.isSome
  let ms := (s.multisession && r.multisession) || (s.multisessionCisco && r.multisessionCisco)
  { hold := min oursHold theirsHold
    asn4 := asn4
    localAs := s.asn4.getD oursAs   -- the AS number of the ASN4 capability we sent, else the 2-octet field
    peerAs := if theirsAs = asTrans ∧ asn4 = true then r.asn4.getD theirsAs else theirsAs
    families := match r.mp, s.mp with
      | some rm, some sm => rm.filter (fun f => sm.contains f)
      | _, _ => []
    nexthop := match r.nexthop, s.nexthop with
      | some rn, some sn => rn.filter (fun t => sn.contains t)
      | _, _ => []
    apSend := apSend
    apRecv := apRecv
    refresh := if r.enhanced && s.enhanced then .enhanced else if r.refresh && s.refresh then .normal else .absent
    msgSize := if r.extMsg && s.extMsg then extendedSize else initialSize
    operational := s.operational && r.operational
    linkLocal := s.linkLocal && r.linkLocal
    pathsLimit := if bothAp then
        (r.pathsLimit.getD []).filter (fun e => (AList.keys apR).contains e.1 && send e.1) else []
    advPathsLimit := if bothAp then
        (s.pathsLimit.getD []).filter (fun e => (AList.keys apS).contains e.1 && receive e.1) else []
    multisession :=
      if ms then
        -- `sent_capa.get(MULTIPROTOCOL) != recv_capa.get(MULTIPROTOCOL)` (the session is identified by its
        -- MULTIPROTOCOL capability; since /repo F97 a capability the peer did not send is a mismatch, not a KeyError)
        -- (ours is the object `Capabilities.new` built: it always has a MULTIPROTOCOL entry, empty without families)
        if some (s.mp.getD []) ≠ r.mp then .err 2 8 else .yes
      else if s.multisession then .err 2 9 else .no }

def negotiate (ours theirs : OpenMsg) : Negotiated :=
  negotiateSets ours.myAs ours.hold theirs.myAs theirs.hold (capSet ours.caps) (capSet theirs.caps)

/-- `Negotiated.validate(neighbor)`: the NOTIFICATION (code, subcode) the OPEN is refused with. -/
def validateOpen (cfg : Cfg) (n : Negotiated) (theirs : OpenMsg) : Option Err :=
  if cfg.peerAs ≠ 0 ∧ n.peerAs ≠ cfg.peerAs then some ⟨2, 2⟩
  else if theirs.bgpId = 0 then some ⟨2, 3⟩
  else if n.peerAs = cfg.localAs ∧ theirs.bgpId = cfg.routerId then some ⟨2, 3⟩
  else if theirs.hold ≠ 0 ∧ theirs.hold < holdMin then some ⟨2, 6⟩
  else match n.multisession with
    | .err c s => some ⟨c, s⟩
    | _ => none

/-- What the code does with the peer's OPEN body: refuse with (code, subcode) or accept with the
    negotiated parameters. -/
def session (cfg : Cfg) (body : Bytes) : Except Err Negotiated :=
  match decodeOpen body with
  | .error e => .error e
  | .ok theirs =>
    let n := negotiate (ourOpen cfg) theirs
    match validateOpen cfg n theirs with
    | some e => .error e
    | none => .ok n

/-! ## The RFC function of the two capability lists (specification, independent of `capSet`) -/

def mpOf (caps : List Cap) : List Family :=
  caps.filterMap (fun c => match c with | .mp a s => some (a, s) | _ => none)

def nexthopOf (caps : List Cap) : List Triple :=
  caps.flatMap (fun c => match c with | .nexthop es => es | _ => [])

/-- the AS number of the last ASN4 capability (RFC 5492: a later instance overrides) -/
def asn4Of (caps : List Cap) : Option Nat :=
  caps.foldl (fun acc c => match c with | .asn4 v => some v | _ => acc) none

def addpathEntries (caps : List Cap) : List Triple :=
  caps.flatMap (fun c => match c with | .addpath es => es | _ => [])

/-- the Send/Receive octet in force for a family: its last entry over all ADD-PATH capabilities, 0 if none -/
def srOf (caps : List Cap) (f : Family) : Nat :=
  (addpathEntries caps).foldl (fun acc e => if (e.1, e.2.1) = f then e.2.2 else acc) 0

/-- RFC 7911 §4: 1 = receive, 2 = send, 3 = both; any other value is not understood and ignored. -/
def rfcRecv (sr : Nat) : Bool := sr = 1 || sr = 3
def rfcSend (sr : Nat) : Bool := sr = 2 || sr = 3

def hasCap (caps : List Cap) (c : Cap) : Bool := caps.contains c

structure RfcNegotiated where
  hold : Nat
  asn4 : Bool
  localAs : Nat
  peerAs : Nat
  families : List Family      -- as a set
  nexthop : List Triple       -- as a set
  apSend : List Family        -- as a set: families on which we send path identifiers
  apRecv : List Family        -- as a set
  refresh : Refresh
  msgSize : Nat
deriving DecidableEq, Repr

def rfcNegotiate (ours theirs : OpenMsg) : RfcNegotiated :=
  let both4 := (asn4Of ours.caps).isSome && (asn4Of theirs.caps).isSome
  let fams := (addpathEntries ours.caps).map (fun e => (e.1, e.2.1))
  { hold := if ours.hold ≤ theirs.hold then ours.hold else theirs.hold      -- RFC 4271 §4.2: the smaller
    asn4 := both4                                                           -- RFC 6793 §4: both advertise
    -- RFC 6793 §4.1: a NEW speaker carries its AS number in the capability (AS_TRANS in the field
    -- when it does not fit); between NEW speakers the capability's number is the peer's AS
    localAs := (asn4Of ours.caps).getD ours.myAs
    peerAs := if both4 then (asn4Of theirs.caps).getD theirs.myAs else theirs.myAs
    families := (mpOf ours.caps).filter (fun f => (mpOf theirs.caps).contains f)           -- RFC 4760 §8
    nexthop := (nexthopOf ours.caps).filter (fun t => (nexthopOf theirs.caps).contains t)  -- RFC 8950 §4
    apSend := fams.filter (fun f => rfcSend (srOf ours.caps f) && rfcRecv (srOf theirs.caps f))  -- RFC 7911 §4
    apRecv := fams.filter (fun f => rfcRecv (srOf ours.caps f) && rfcSend (srOf theirs.caps f))
    refresh := if hasCap ours.caps .enhanced && hasCap theirs.caps .enhanced then .enhanced     -- RFC 7313 §3
               else if hasCap ours.caps .refresh && hasCap theirs.caps .refresh then .normal    -- RFC 2918
               else .absent
    msgSize := if hasCap ours.caps .extMsg && hasCap theirs.caps .extMsg then 65535 else 4096 } -- RFC 8654 §4

/-- The faults for which the RFCs require the peer's (decodable) OPEN to be refused, each with the
    OPEN error subcode that names it.  `localAs`, `peerAs`, `routerId` are the configured values. -/
def rfcRefusals (localAs peerAs routerId : Nat) (ours theirs : OpenMsg) : List Err :=
  let truePeer := (rfcNegotiate ours theirs).peerAs
  (if peerAs ≠ 0 ∧ truePeer ≠ peerAs then [(⟨2, 2⟩ : Err)] else [])                 -- RFC 4271 §6.2 Bad Peer AS
  ++ (if theirs.bgpId = 0 then [⟨2, 3⟩] else [])                                     -- RFC 6286 §2.2 zero identifier
  ++ (if truePeer = localAs ∧ theirs.bgpId = routerId then [⟨2, 3⟩] else [])         -- RFC 6286 §2.2 internal peer, same identifier
  ++ (if theirs.hold = 1 ∨ theirs.hold = 2 then [⟨2, 6⟩] else [])                    -- RFC 4271 §4.2/§6.2 Unacceptable Hold Time

end Exa.Open
