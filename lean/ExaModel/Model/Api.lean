/-
  M-Api: model of the API command path of ExaBGP.

  (a) the line reader      reactor/api/processes.py: `_async_reader_callback` (+ `received_async`),
                           configuration/core/format.py: `formated`
  (b) the neighbor selector reactor/api/command/limit.py: `extract_neighbors`, `match_neighbor(s)`,
                           reactor/api/dispatch/common.py: `extract_selector`, `_parse_bracket_selector`,
                           `dispatch`; dispatch/v6.py: `dispatch_v6` (incl. the "no peers => all peers"
                           rule); dispatch/v4.py: `dispatch_v4`, `translate_v4_to_v6`, `_dispatch_neighbor_v4`
  (c) the command effect    reactor/api/__init__.py: `API.process` (group buffering), the handlers of
                           command/announce.py, watchdog.py, rib.py, neighbor.py (teardown), reactor.py
                           (ack, comment, api version, …), group.py; ack bookkeeping of
                           `Processes.answer_done/answer_error/_answer_sync`.

  Bytes and words are `List Nat`.  Tables (selector keys, v4 translations, the v6 tree, the
  announce/withdraw type tables, `MAX_COMMAND_SIZE`, the layout of `Neighbor.name()`) come from
  `Generated/ApiTable.lean`.  The route text grammar is NOT modelled: `Env.parse` is an
  uninterpreted function (the theorems hold for every such function; the correspondence feeds it
  with the results of the real `API.api_*` calls).  Per-peer Adj-RIB-Out is M-Rib's `Rib`.

  What the code does wrong is kept, switchable by `Quirks` (all `true` = the unchanged tree):
  F13 wildcard term short-circuits `match_neighbor`; F21 `dispatch_v6` turns "selector matched
  nobody" into "all peers"; the watchdog handlers ignore the selected peers.
-/
import ExaModel.AList
import ExaModel.Model.Rib
import ExaModel.Generated.ApiTable

namespace Exa.Api
open Exa Exa.Rib Exa.Generated.ApiTable

abbrev Tok := List Nat
abbrev Cmd := List Nat

/-! ## (a) the reader -/

/-- `str.isspace()` on ASCII: what `strip`/`rstrip`/`split()` remove. -/
def isWs (b : Nat) : Bool := (decide (9 ≤ b) && decide (b ≤ 13)) || (decide (28 ≤ b) && decide (b ≤ 32))

def lstrip (l : List Nat) : List Nat := l.dropWhile isWs
def rstrip (l : List Nat) : List Nat := (l.reverse.dropWhile isWs).reverse
def strip (l : List Nat) : List Nat := rstrip (lstrip l)

/-- the chain of `.replace` calls of `formated` (they act on disjoint characters) -/
def expand (b : Nat) : List Nat :=
  if b = 9 then [32] else if b = 93 then [32, 93] else if b = 91 then [91, 32]
  else if b = 41 then [32, 41] else if b = 40 then [40, 32] else if b = 44 then [32, 44, 32] else [b]

/-- `while changed: replace('  ', ' ')` -/
def squeeze : List Nat → List Nat
  | [] => []
  | [b] => [b]
  | a :: b :: t => if a = 32 ∧ b = 32 then squeeze (b :: t) else a :: squeeze (b :: t)

/-- `formated(line)` -/
def formated (l : List Nat) : List Nat := squeeze ((strip l).flatMap expand)

/-- `raw.split('\n', 1)` repeated: (complete lines, remainder). -/
def split : List Nat → List (List Nat) × List Nat
  | [] => ([], [])
  | b :: t =>
    let r := split t
    if b = 10 then ([] :: r.1, r.2)
    else match r.1 with
      | [] => ([], b :: r.2)
      | l :: ls => ((b :: l) :: ls, r.2)

def isDebug (l : List Nat) : Bool := Kw.debugPrefix.isPrefixOf l

/-- what the `while '\n' in raw` loop appends to `_command_queue` -/
def lineCmds (ls : List (List Nat)) : List Cmd :=
  ((ls.map rstrip).filter (fun l => !isDebug l)).map formated

/-- per-process reader state: `_buffer[process]`, "process still in `_process`", `_command_queue` -/
structure Reader where
  buf : List Nat := []
  dead : Bool := false
  queue : List Cmd := []
deriving Repr, DecidableEq

/-- one `_async_reader_callback` with `os.read` returning `chunk`.
    `strict = false` is the code as it is: only a newline-free buffer longer than `max` is fatal, so
    whether a line longer than `max` is executed depends on where the reads cut it.
    `strict = true` is the repaired reader (proposed_fixes): every line, complete or not, longer
    than `max` is fatal; the lines before it are queued. -/
def feed (strict : Bool) (max : Nat) (st : Reader) (chunk : List Nat) : Reader :=
  if st.dead then st
  else if chunk.any (fun b => decide (128 ≤ b)) then { st with dead := true, buf := [] }   -- UnicodeDecodeError
  else
    let raw := st.buf ++ chunk
    let r := split raw
    if r.1.isEmpty && decide (max < raw.length) then { st with dead := true, buf := [] }     -- oversized
    else
      let good := r.1.takeWhile (fun l => decide (l.length ≤ max))
      if strict && (decide (good.length < r.1.length) || decide (max < r.2.length)) then
        { st with dead := true, buf := [], queue := st.queue ++ lineCmds good }
      else { st with buf := r.2, queue := st.queue ++ lineCmds r.1 }

def feedAll (strict : Bool) (max : Nat) (st : Reader) (chunks : List (List Nat)) : Reader :=
  chunks.foldl (feed strict max) st

/-! ## words -/

/-- `cur` is the word being read, reversed -/
def wordsAux (cur : List Nat) : List Nat → List Tok
  | [] => if cur.isEmpty then [] else [cur.reverse]
  | b :: t =>
    if isWs b then (if cur.isEmpty then wordsAux [] t else cur.reverse :: wordsAux [] t)
    else wordsAux (b :: cur) t

/-- `str.split()` -/
def words (l : List Nat) : List Tok := wordsAux [] l

/-- `' '.join` -/
def unwords : List Tok → List Nat
  | [] => []
  | [w] => w
  | w :: ws => w ++ 32 :: unwords ws

def lower (l : List Nat) : List Nat := l.map (fun b => if 65 ≤ b ∧ b ≤ 90 then b + 32 else b)

def allDigits (t : Tok) : Bool := !t.isEmpty && t.all (fun b => decide (48 ≤ b) && decide (b ≤ 57))
def digitsVal (t : Tok) : Nat := t.foldl (fun a b => a * 10 + (b - 48)) 0

/-! ## (b) neighbors and the selector -/

structure Nbr where
  peerAddr : Tok
  localIp : Tok
  localAs : Tok
  peerAs : Tok
  routerId : Tok
  familyAllowed : Tok
  families : List Nat       -- family ids the neighbor is configured for
  attached : Bool           -- `service in neighbor.api['processes']`: member of `reactor.peers(service)`
  enhanced : Bool           -- `bool(neighbor.capability.route_refresh)` (argument of `resend`)
deriving Repr, DecidableEq

/-- `Neighbor.name().split(' ')` -/
def Nbr.name (n : Nbr) : List Tok :=
  (nameKeys.zip [n.peerAddr, n.localIp, n.localAs, n.peerAs, n.routerId, n.familyAllowed]).flatMap
    (fun p => [p.1, p.2])

abbrev Term := List Tok     -- the words of one string of a description ('peer-as 65001')
abbrev Desc := List Term    -- one description (conjunction of terms)

structure Quirks where
  wildcardShort : Bool      -- F13
  v6Fallback : Bool         -- F21
  watchdogAll : Bool        -- watchdog handlers walk `configuration.neighbors`
deriving Repr, DecidableEq

def Quirks.code : Quirks := { wildcardShort := true, v6Fallback := true, watchdogAll := true }
def Quirks.fixed : Quirks := { wildcardShort := false, v6Fallback := false, watchdogAll := false }

def isWild (t : Term) : Bool := t == [Kw.k_neighbor, Kw.k_star] || t == [Kw.k_peer, Kw.k_star]

def prefixOf : List Tok → List Tok → Bool
  | [], _ => true
  | _ :: _, [] => false
  | a :: as, b :: bs => a == b && prefixOf as bs

/-- `re.search(r'(^|\s)' + escape(term) + r'($|\s|,)', name)` on whole words: the term occurs as a
    run of consecutive words of the name. -/
def infixOf (t : List Tok) : List Tok → Bool
  | [] => t.isEmpty
  | b :: bs => prefixOf t (b :: bs) || infixOf t bs

/-- `match_neighbor(description, name)` -/
def matchNeighbor (q : Quirks) : Desc → List Tok → Bool
  | [], _ => true
  | t :: ts, name =>
    if isWild t then (if q.wildcardShort then true else matchNeighbor q ts name)
    else if infixOf t name then matchNeighbor q ts name else false

def attachedAt (nbrs : List Nbr) (i : Nat) : Bool :=
  match nbrs[i]? with
  | some n => n.attached
  | none => false

/-- indices of `reactor.peers(service)` -/
def servicePeers (nbrs : List Nbr) : List Nat := (List.range nbrs.length).filter (attachedAt nbrs)

/-- some description matches the name of neighbor `i` -/
def matchAt (q : Quirks) (nbrs : List Nbr) (descs : List Desc) (i : Nat) : Bool :=
  match nbrs[i]? with
  | some n => descs.any (fun d => matchNeighbor q d n.name)
  | none => false

/-- `match_neighbors(reactor.peers(service), descriptions)` -/
def matchNeighbors (q : Quirks) (nbrs : List Nbr) (descs : List Desc) : List Nat :=
  if descs.isEmpty then servicePeers nbrs else (servicePeers nbrs).filter (matchAt q nbrs descs)

/-- what a command says about its targets -/
inductive Sel where
  | all                       -- `*` in the v6 tree: `reactor.peers(service)`
  | descs (ds : List Desc)    -- handed to `match_neighbors`
deriving Repr, DecidableEq

def Sel.resolve (q : Quirks) (nbrs : List Nbr) : Sel → List Nat
  | .all => servicePeers nbrs
  | .descs ds => matchNeighbors q nbrs ds

/-- the descriptions a selector stands for (`*` = the single wildcard term) -/
def Sel.descs' : Sel → List Desc
  | .all => [[[Kw.k_neighbor, Kw.k_star]]]
  | .descs ds => ds

/-! ### `extract_selector` (dispatch tree) -/

def isSelectorStart (t : Tok) : Bool :=
  t == Kw.k_star || t == Kw.k_lbr || t.contains 46 || t.contains 58

/-- the `while peeked in SELECTOR_KEYS` loop: (terms, remaining words) -/
def takeKV : List Tok → List Term × List Tok
  | k :: v :: t =>
    if selectorKeysDispatch.contains k then
      let r := takeKV t
      ([k, v] :: r.1, r.2)
    else ([], k :: v :: t)
  | [k] => if selectorKeysDispatch.contains k then ([], []) else ([], [k])
  | [] => ([], [])

/-- `_parse_bracket_selector` after the `[`: (descriptions, remaining words) -/
def parseBracket (fuel : Nat) (descs : List Desc) (cur : Desc) (toks : List Tok) : List Desc × List Tok :=
  let fin := if cur.isEmpty then descs else descs ++ [cur]
  match fuel with
  | 0 => (fin, toks)
  | fuel + 1 =>
    match toks with
    | [] => (fin, [])
    | t :: rest =>
      if t == Kw.k_rbr then (fin, rest)
      else if t == Kw.k_comma then parseBracket fuel fin [] rest
      else if cur.isEmpty then parseBracket fuel descs [[Kw.k_neighbor, t]] rest
      else if selectorKeysDispatch.contains t then
        match rest with
        | [] => parseBracket fuel descs cur []
        | v :: rest' => parseBracket fuel descs (cur ++ [[t, v]]) rest'
      else parseBracket fuel descs (cur ++ [[t]]) rest

/-- `extract_selector`: (selection, remaining words) -/
def extractSelector (toks : List Tok) : Sel × List Tok :=
  match toks with
  | [] => (.descs [[[Kw.k_neighbor, []]]], [])
  | f :: rest =>
    if f == Kw.k_star then (.all, rest)
    else if f == Kw.k_lbr then
      let r := parseBracket (rest.length + 1) [] [] rest
      (.descs r.1, r.2)
    else
      let r := takeKV rest
      (.descs [[Kw.k_neighbor, f] :: r.1], r.2)

/-! ### `extract_neighbors` (v4 text) -/

def splitOnTok (sep : Tok) : List Tok → List (List Tok)
  | [] => [[]]
  | t :: rest =>
    if t == sep then [] :: splitOnTok sep rest
    else match splitOnTok sep rest with
      | [] => [[t]]
      | s :: ss => (t :: s) :: ss

/-- `_parse_single_selector` -/
def singleSelKV : List Tok → List Term
  | k :: v :: t => if selectorKeys.contains k then [k, v] :: singleSelKV t else []
  | _ => []

def singleSel (ws : List Tok) : Option Desc :=
  match ws with
  | [] => none
  | ip :: rest => some ([Kw.k_neighbor, ip] :: singleSelKV rest)

/-- words up to the first one that starts with `]`; what follows the `]` -/
def untilRbr : List Tok → Option (List Tok × List Tok)
  | [] => none
  | t :: rest =>
    match t with
    | 93 :: more => some ([], (if more.isEmpty then [] else [more]) ++ rest)
    | _ => match untilRbr rest with
      | none => none
      | some (ins, after) => some (t :: ins, after)

/-- `_extract_bracket_selectors` (words after `[`) -/
def bracketSelectors (toks : List Tok) : List Desc × List Tok :=
  match untilRbr toks with
  | none => ([], Kw.k_lbr :: toks)
  | some (ins, after) => ((splitOnTok Kw.k_comma ins).filterMap singleSel, after)

def isSelKeyV4 (k : Tok) : Bool := selectorKeys.contains k || k == Kw.k_neighbor || k == Kw.k_peer

/-- the `while True` loop of `_extract_legacy_selectors` -/
def legacyLoop (fuel : Nat) (returned : List Desc) (cur : Desc) (cmd : List Tok) : List Desc × List Tok :=
  match fuel with
  | 0 => ([cur], cmd)
  | fuel + 1 =>
    match cmd with
    | [] => ([cur], [])
    | [x] => ([cur], [x])
    | key :: value :: rest =>
      if key == Kw.k_comma then
        if value == Kw.k_neighbor || value == Kw.k_peer then
          match rest with
          | [] => (returned ++ [cur], cmd)
          | ip :: rest' => legacyLoop fuel (returned ++ [cur]) [[Kw.k_neighbor, ip]] rest'
        else (returned ++ [cur], cmd)
      else if isSelKeyV4 key then legacyLoop fuel returned (cur ++ [[key, value]]) rest
      else (returned ++ [cur], cmd)

/-- `extract_neighbors(command)` on the words of a command whose first word is `neighbor`/`peer`:
    (descriptions, remaining words) -/
def extractNeighbors (toks : List Tok) : List Desc × List Tok :=
  match toks with
  | [] => ([], [])
  | [p] => ([], [p])
  | _ :: f :: rest =>
    if f.head? == some 91 then
      -- `remaining.startswith('[')`: formated() always puts a space after '[' so the word is '['
      bracketSelectors ((if f.tail.isEmpty then [] else [f.tail]) ++ rest)
    else
      match rest with
      | [] => ([], [f])
      | [x] => ([[[Kw.k_neighbor, f]]], [x])
      | _ => legacyLoop (rest.length + 1) [] [[Kw.k_neighbor, f]] rest

/-! ## dispatch -/

inductive DispRes where
  | ok (h : Handler) (sel : Option Sel) (peers : List Nat) (rest : List Tok) (action : Nat)
  | error            -- UnknownCommand / NoMatchingPeers: `answer_error_sync`
deriving Repr, DecidableEq

abbrev Paths := List (List Elem × Handler)

def startsTok (t : Tok) (p : List Elem × Handler) : Bool :=
  match p.1 with
  | Elem.tok t' :: _ => t' == t
  | _ => false

def startsSel (p : List Elem × Handler) : Bool :=
  match p.1 with
  | Elem.sel :: _ => true
  | _ => false

def advance (ps : Paths) : Paths := ps.map (fun p => (p.1.tail, p.2))

def leafOf (ps : Paths) : Option Handler := (ps.find? (fun p => p.1.isEmpty)).map (·.2)

inductive WalkRes where
  | ok (h : Handler) (sel : Option Sel) (rest : List Tok)
  | unknown
deriving Repr, DecidableEq

/-- `dispatch(tree, tokeniser, …)` -/
def walk (fuel : Nat) (ps : Paths) (toks : List Tok) (sel : Option Sel) : WalkRes :=
  match fuel with
  | 0 => .unknown
  | fuel + 1 =>
    match toks with
    | [] => .unknown
    | t :: rest =>
      if ps.any startsSel && !(ps.any (startsTok t)) && isSelectorStart t then
        let r := extractSelector (t :: rest)
        let ps' := advance (ps.filter startsSel)
        match leafOf ps' with
        | some h => .ok h (some r.1) r.2
        | none => walk fuel ps' r.2 (some r.1)
      else
        let ps' := advance (ps.filter (startsTok t))
        if ps'.isEmpty then .unknown
        else match leafOf ps' with
          | some h => .ok h sel rest
          | none => walk fuel ps' rest sel

/-- the tail of `dispatch_v6`: "some handlers require all peers if none specified".
    `peers` is `[]` without a selector; the code does not distinguish "no selector" from
    "selector that matched nobody" (F21) — `q.v6Fallback = false` is the repaired rule. -/
def finishV6 (q : Quirks) (nbrs : List Nbr) (h : Handler) (sel : Option Sel) (rest : List Tok) : DispRes :=
  let allPeers : DispRes :=
    if (servicePeers nbrs).isEmpty then .error else .ok h sel (servicePeers nbrs) rest 0
  match sel with
  | none => if needsPeers.contains h then allPeers else .ok h none [] rest 0
  | some s =>
    if needsPeers.contains h && (s.resolve q nbrs).isEmpty then (if q.v6Fallback then allPeers else .error)
    else .ok h sel (s.resolve q nbrs) rest 0

/-- `dispatch_v6(command, …)` on the words of the command. `action` 1 = announce, 2 = withdraw is
    filled in later by `v6_announce`/`v6_withdraw`; here it is 0. -/
def dispatchV6 (q : Quirks) (nbrs : List Nbr) (cmd : Cmd) : DispRes :=
  let toks := words cmd
  if toks.isEmpty || (strip cmd).head? == some 35 then .ok Handler.reactor_comment none [] toks 0
  else match walk (toks.length + 1) v6Paths toks none with
    | .unknown => .error
    | .ok h sel rest => finishV6 q nbrs h sel rest

def lookupTok {β : Type} (k : Tok) : List (Tok × β) → Option β
  | [] => none
  | (k', v) :: t => if k' == k then some v else lookupTok k t

/-- `translate_v4_to_v6` on words -/
def translateV4 (parts : List Tok) : Option (List Tok) :=
  match parts with
  | [] => none
  | first :: rest =>
    match lookupTok first v4Simple with
    | some pre => some (pre ++ rest)
    | none =>
      if first == Kw.k_api && rest.head? == some Kw.k_version then some ([Kw.k_system, Kw.k_api, Kw.k_version] ++ rest.tail)
      else if first == Kw.k_show then
        match rest with
        | a :: d :: more =>
          if a == Kw.k_adjrib && (d == Kw.k_in || d == Kw.k_out) then some ([Kw.k_rib, Kw.k_show, d] ++ more)
          else if a == Kw.k_neighbor then some ([Kw.k_peer, Kw.k_show, d] ++ more)
          else none
        | [a] => if a == Kw.k_neighbor then some [Kw.k_peer, Kw.k_show] else none
        | [] => none
      else if first == Kw.k_flush then
        match rest with
        | a :: d :: more => if a == Kw.k_adjrib && d == Kw.k_out then some ([Kw.k_rib, Kw.k_flush, Kw.k_out] ++ more) else none
        | _ => none
      else if first == Kw.k_clear then
        match rest with
        | a :: d :: more => if a == Kw.k_adjrib && (d == Kw.k_in || d == Kw.k_out) then some ([Kw.k_rib, Kw.k_clear, d] ++ more) else none
        | _ => none
      else if first == Kw.k_create && rest.head? == some Kw.k_neighbor then some ([Kw.k_peer, Kw.k_create] ++ rest.tail)
      else if first == Kw.k_delete && rest.head? == some Kw.k_neighbor then some ([Kw.k_peer, Kw.k_delete] ++ rest.tail)
      else if first == Kw.k_teardown then some ([Kw.k_peer, Kw.k_star, Kw.k_teardown] ++ rest)
      else if first == Kw.k_announce then some ([Kw.k_peer, Kw.k_star, Kw.k_announce] ++ rest)
      else if first == Kw.k_withdraw then some ([Kw.k_peer, Kw.k_star, Kw.k_withdraw] ++ rest)
      else none

def v4Handler (ann : Bool) (ty : Tok) : Option Handler :=
  if ann then (if announceSub.contains ty then lookupTok ty v6AnnounceTypes else none)
  else (if withdrawSub.contains ty then lookupTok ty v6WithdrawTypes else none)

/-- `_dispatch_neighbor_v4` -/
def dispatchNeighborV4 (q : Quirks) (nbrs : List Nbr) (toks : List Tok) : DispRes :=
  let r := extractNeighbors toks
  let sel := Sel.descs r.1
  let peers := sel.resolve q nbrs
  match r.2 with
  | [] => .error
  | action :: args =>
    if action == Kw.k_teardown then
      if peers.isEmpty then .error else .ok Handler.neighbor_teardown (some sel) peers args 0
    else if action == Kw.k_announce || action == Kw.k_withdraw then
      if peers.isEmpty then .error
      else match args with
        | [] => .error
        | ty :: _ =>
          match v4Handler (action == Kw.k_announce) ty with
          | none => .error
          -- the handler receives "announce <type> <remaining>" and action ''
          | some h => .ok h (some sel) peers (action :: args) 0
    else .error

/-- `dispatch_v4(command, …)` -/
def dispatchV4 (q : Quirks) (nbrs : List Nbr) (cmd : Cmd) : DispRes :=
  let toks := words cmd
  match toks with
  | [] => dispatchV6 q nbrs cmd
  | first :: _ =>
    if (strip cmd).head? == some 35 then dispatchV6 q nbrs cmd
    else if [Kw.k_daemon, Kw.k_session, Kw.k_system, Kw.k_rib, Kw.k_peer].contains first then dispatchV6 q nbrs cmd
    else if first == Kw.k_neighbor then dispatchNeighborV4 q nbrs toks
    else match translateV4 toks with
      | some t => dispatchV6 q nbrs (unwords t)
      | none => .error

/-! ## (c) effects and acknowledgements -/

inductive Reply where
  | done
  | error
deriving Repr, DecidableEq

/-- a parsed route as the RIB sees it, plus the verdict of `validate_announce` -/
structure PRoute where
  route : Route
  valid : Bool
deriving Repr, DecidableEq

/-- which parser a handler calls: 0 api_route, 1 api_announce_v4, 2 api_announce_v6, 3 api_flow,
    4 api_vpls, 5 api_attributes, 6 group._parse_routes -/
structure PKey where
  fn : Nat
  action : Nat       -- 0 '', 1 'announce', 2 'withdraw'
  toks : List Tok
deriving Repr, DecidableEq

structure Env where
  q : Quirks
  nbrs : List Nbr
  parse : PKey → Option (List PRoute)     -- none: no routes / exception
  wdName : Tok → Nat                      -- watchdog name -> id used by the RIB
  service : Tok

structure St where
  version : Nat := 6
  ack : Bool := true
  group : Option (List Cmd) := none       -- `_GROUP_BUFFERS[service]`
  ribs : List Rib := []                   -- one per neighbor of `env.nbrs`

structure Out where
  replies : List Reply
  modelled : Bool := true
deriving Repr, DecidableEq

/-- apply `f` to the RIBs of the selected neighbors (`for neighbor in configuration.neighbors: if name in peers`) -/
def applyPeers (peers : List Nat) (f : Nat → Rib → Rib) (ribs : List Rib) : List Rib :=
  ribs.mapIdx (fun i r => if peers.contains i then f i r else r)

def famOk (nbrs : List Nbr) (i : Nat) (fam : Nat) : Bool :=
  match nbrs[i]? with
  | some n => n.families.contains fam
  | none => false

/-- `Configuration.announce_route(peers, route)` -/
def announceOne (nbrs : List Nbr) (peers : List Nat) (r : Route) (ribs : List Rib) : List Rib :=
  applyPeers peers (fun i rib => if famOk nbrs i r.fam then rib.add r false else rib) ribs

/-- `Configuration.withdraw_route(peers, route)` -/
def withdrawOne (nbrs : List Nbr) (peers : List Nat) (r : Route) (ribs : List Rib) : List Rib :=
  applyPeers peers (fun i rib => if famOk nbrs i r.fam then rib.del r.nlri r.fam else rib) ribs

/-- the `for route in routes` loop of `announce_route` (validate = true) and of the other announce
    handlers (validate = false): stops at the first invalid route, keeping what was done. -/
def announceRoutes (nbrs : List Nbr) (validate : Bool) (peers : List Nat) : List PRoute → List Rib → List Rib × Bool
  | [], ribs => (ribs, true)
  | r :: rs, ribs =>
    if validate && !r.valid then (ribs, false)
    else announceRoutes nbrs validate peers rs (announceOne nbrs peers r.route ribs)

def withdrawRoutes (nbrs : List Nbr) (peers : List Nat) (rs : List PRoute) (ribs : List Rib) : List Rib :=
  rs.foldl (fun ribs r => withdrawOne nbrs peers r.route ribs) ribs

/-- `parse_sync_mode`: up to two trailing words among sync/async/json/text are dropped -/
def dropTrail (ws : List Tok) : List Tok :=
  match ws.getLast? with
  | some l => if l == Kw.k_sync || l == Kw.k_async || l == Kw.k_json || l == Kw.k_text then ws.dropLast else ws
  | none => ws

def stripSync (ws : List Tok) : List Tok :=
  let a := dropTrail ws
  if a.length == ws.length then ws else dropTrail a

def St.reply (st : St) (r : Reply) : List Reply := if st.ack then [r] else []

/-- route handlers: (parser, is announce, validates) -/
def routeHandler : Handler → Option (Nat × Bool × Bool)
  | .announce_announce_route => some (0, true, true)
  | .announce_withdraw_route => some (0, false, false)
  | .announce_announce_ipv4 => some (1, true, false)
  | .announce_withdraw_ipv4 => some (1, false, false)
  | .announce_announce_ipv6 => some (2, true, false)
  | .announce_withdraw_ipv6 => some (2, false, false)
  | .announce_announce_flow => some (3, true, false)
  | .announce_withdraw_flow => some (3, false, false)
  | .announce_announce_vpls => some (4, true, false)
  | .announce_withdraw_vpls => some (4, false, false)
  | .announce_announce_attributes => some (5, true, false)
  | .announce_withdraw_attribute => some (5, false, false)
  | _ => none

/-- `_extract_watchdog_name(command, service, action)` -/
def watchdogName (service : Tok) (ws : List Tok) (action : Nat) : Tok :=
  if action != 0 then
    match ws with
    | w :: n :: _ => if w == Kw.k_watchdog then n else w
    | [w] => w
    | [] => service
  else
    let ws' := match ws with
      | a :: t => if a == Kw.k_announce || a == Kw.k_withdraw then t else ws
      | [] => ws
    match ws' with
    | w :: n :: _ => if w == Kw.k_watchdog then n else w
    | [w] => if w == Kw.k_watchdog then service else w
    | [] => service

/-- the handlers that do nothing to a RIB and answer `done` -/
def simpleDone : Handler → Bool
  | .reactor_comment | .reactor_version | .reactor_help_command | .reactor_ping | .reactor_bye
  | .reactor_reset | .reactor_status | .reactor_queue_status | .reactor_enable_sync
  | .reactor_disable_sync | .reactor_shutdown | .reactor_reload | .reactor_restart => true
  | _ => false

/-- one handler call (route kinds, watchdog, flush/clear, teardown, ack, version, simple ones) -/
def runHandler (env : Env) (st : St) (h : Handler) (peers : List Nat) (rest : List Tok) (action : Nat) : St × Out :=
  match routeHandler h with
  | some (fn, ann, validate) =>
    match env.parse { fn := fn, action := action, toks := stripSync rest } with
    | none => (st, { replies := st.reply .error })
    | some [] => (st, { replies := st.reply .error })
    | some rs =>
      if ann then
        let r := announceRoutes env.nbrs validate peers rs st.ribs
        ({ st with ribs := r.1 }, { replies := st.reply (if r.2 then .done else .error) })
      else ({ st with ribs := withdrawRoutes env.nbrs peers rs st.ribs }, { replies := st.reply .done })
  | none =>
    match h with
    | .watchdog_announce_watchdog | .watchdog_withdraw_watchdog =>
      let name := env.wdName (watchdogName env.service rest action)
      let targets := if env.q.watchdogAll then List.range env.nbrs.length else peers
      let f : Nat → Rib → Rib := fun _ rib =>
        if h == .watchdog_announce_watchdog then rib.wdogAnnounce name else rib.wdogWithdraw name
      ({ st with ribs := applyPeers targets f st.ribs }, { replies := st.reply .done })
    | .rib_flush_adj_rib_out =>
      if peers.isEmpty then (st, { replies := st.reply .error })
      else
        let f : Nat → Rib → Rib := fun i rib =>
          rib.resend (match env.nbrs[i]? with | some n => n.enhanced | none => false) none
        ({ st with ribs := applyPeers peers f st.ribs }, { replies := st.reply .done })
    | .rib_clear_adj_rib =>
      if peers.isEmpty then (st, { replies := st.reply .error })
      else if rest.contains Kw.k_in then (st, { replies := st.reply .done })
      else ({ st with ribs := applyPeers peers (fun _ rib => rib.withdrawAll []) st.ribs }, { replies := st.reply .done })
    | .neighbor_teardown =>
      -- nobody is established in the rig: nothing is torn down
      match rest with
      | [code] => (st, { replies := st.reply (if allDigits code then .done else .error) })
      | _ => (st, { replies := st.reply .error })
    | .announce_announce_eor | .announce_announce_refresh =>
      (st, { replies := st.reply .error })      -- "No established peers"
    | .reactor_enable_ack => ({ st with ack := true }, { replies := [.done] })
    | .reactor_disable_ack => ({ st with ack := false }, { replies := [.done] })     -- force=True
    | .reactor_silence_ack => ({ st with ack := false }, { replies := [] })
    | .reactor_crash => (st, { replies := st.reply .done ++ st.reply .error })      -- done, then the error handler
    | .reactor_api_version_cmd =>
      match rest with
      | [] => (st, { replies := st.reply .done })
      | v :: _ =>
        if allDigits v then
          if digitsVal v == 4 || digitsVal v == 6 then ({ st with version := digitsVal v }, { replies := st.reply .done })
          else (st, { replies := st.reply .error })
        else (st, { replies := st.reply .error, modelled := false })   -- int() accepts more than digits
    | _ =>
      if simpleDone h then (st, { replies := st.reply .done })
      else (st, { replies := [], modelled := false })

/-- `v6_announce` / `v6_withdraw`: pick the handler from the type word -/
def v6Typed (env : Env) (st : St) (ann : Bool) (peers : List Nat) (rest : List Tok) : St × Out :=
  match rest with
  | [] => (st, { replies := st.reply .error })
  | ty :: _ =>
    match lookupTok ty (if ann then v6AnnounceTypes else v6WithdrawTypes) with
    | none => (st, { replies := st.reply .error })
    | some h => runHandler env st h peers rest (if ann then 1 else 2)

/-! ### groups -/

def splitOnByte (sep : Nat) : List Nat → List (List Nat)
  | [] => [[]]
  | b :: t =>
    if b = sep then [] :: splitOnByte sep t
    else match splitOnByte sep t with
      | [] => [[b]]
      | s :: ss => (b :: s) :: ss

/-- one buffered command of `_process_group`: returns the RIBs and whether it is within the model -/
def groupOne (env : Env) (peers : List Nat) (ribs : List Rib) (cmd : Cmd) : List Rib × Bool :=
  match words cmd with
  | [] => (ribs, true)
  | a :: rest =>
    let aw := lower a
    let rem := stripSync rest
    if aw == Kw.k_attribute || aw == Kw.k_attributes then (ribs, false)
    else if aw == Kw.k_announce then
      match env.parse { fn := 6, action := 1, toks := rem } with
      | none => (ribs, true)
      | some rs =>
        (rs.foldl (fun ribs r => if r.valid then announceOne env.nbrs peers r.route ribs else ribs) ribs, true)
    else if aw == Kw.k_withdraw then
      match env.parse { fn := 6, action := 2, toks := rem } with
      | none => (ribs, true)
      | some rs => (withdrawRoutes env.nbrs peers rs ribs, true)
    else (ribs, true)

def groupAll (env : Env) (peers : List Nat) : List Cmd → List Rib → List Rib × Bool
  | [], ribs => (ribs, true)
  | c :: cs, ribs =>
    let r := groupOne env peers ribs c
    let r' := groupAll env peers cs r.1
    (r'.1, r.2 && r'.2)

/-- where `API.process` sends a command -/
inductive Routed where
  | buffer            -- group mode and the line starts with announce/withdraw: `group_add_command`
  | error             -- UnknownCommand / NoMatchingPeers
  | call (h : Handler) (sel : Option Sel) (peers : List Nat) (rest : List Tok) (action : Nat)
deriving Repr, DecidableEq

def groupEndKw : List Nat := Kw.k_group ++ 32 :: Kw.k_endw
def groupStartKw : List Nat := Kw.k_group ++ 32 :: Kw.k_start

/-- the head of `API.process`: group buffering, then `dispatch_v4` / `dispatch_v6` -/
def routeCmd (env : Env) (st : St) (cmd : Cmd) : Routed :=
  let low := lower (strip cmd)
  if st.group.isSome && !(groupEndKw.isPrefixOf low) && !(groupStartKw.isPrefixOf low)
      && (Kw.k_announce.isPrefixOf low || Kw.k_withdraw.isPrefixOf low) then .buffer
  else match (if st.version == 4 then dispatchV4 env.q env.nbrs cmd else dispatchV6 env.q env.nbrs cmd) with
    | .error => .error
    | .ok h sel peers rest action => .call h sel peers rest action

/-- the handler call and the scheduled callback run to completion (`ASYNC._run_async`) -/
def exec (env : Env) (st : St) (cmd : Cmd) : Routed → St × Out
  | .buffer => ({ st with group := st.group.map (· ++ [cmd]) }, { replies := st.reply .done })
  | .error => (st, { replies := st.reply .error })
  | .call h _ peers rest action =>
    match h with
    | .announce_v6_announce => v6Typed env st true peers rest
    | .announce_v6_withdraw => v6Typed env st false peers rest
    | .group_group_start =>
      if st.group.isSome then (st, { replies := st.reply .error })
      else ({ st with group := some [] }, { replies := st.reply .done })
    | .group_group_end =>
      match st.group with
      | none => (st, { replies := st.reply .error })
      | some cmds =>
        let r := groupAll env (servicePeers env.nbrs) cmds st.ribs
        ({ st with group := none, ribs := r.1 }, { replies := st.reply .done, modelled := r.2 })
    | .group_group_inline =>
      let parts := ((splitOnByte 59 (unwords rest)).map strip).filter (fun p => !p.isEmpty)
      if parts.isEmpty then (st, { replies := st.reply .error })
      else
        let r := groupAll env peers parts st.ribs
        ({ st with ribs := r.1 }, { replies := st.reply .done, modelled := r.2 })
    | _ => runHandler env st h peers rest action

/-- `API.process(reactor, service, command)` followed by `ASYNC._run_async()` -/
def step (env : Env) (st : St) (cmd : Cmd) : St × Out := exec env st cmd (routeCmd env st cmd)

/-- one entry of the trace: the ack state before the command, where it was routed, what came out -/
structure Entry where
  ackBefore : Bool
  routed : Routed
  out : Out
deriving Repr, DecidableEq

/-- execute a command list, in order -/
def run (env : Env) : St → List Cmd → St × List Entry
  | st, [] => (st, [])
  | st, c :: cs =>
    let r := step env st c
    let r' := run env r.1 cs
    (r'.1, { ackBefore := st.ack, routed := routeCmd env st c, out := r.2 } :: r'.2)

/-- the acknowledgement stream the helper process reads -/
def replies (tr : List Entry) : List Reply := tr.flatMap (fun e => e.out.replies)

end Exa.Api
