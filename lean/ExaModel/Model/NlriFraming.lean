/-
  M-Framing: for every registered family, how many bytes ONE NLRI takes out of the NLRI field of
  an MP_REACH / MP_UNREACH (or of the UPDATE body), what the decoded object keeps of them
  (`_packed`, the "packed-bytes-first" contract) and what `pack_nlri` gives back.

  Read from the `unpack_nlri` / `pack_nlri` of /repo/src/exabgp/bgp/message/update/nlri/:
    inet.py ipvpn.py   [path-id:4 when ADD-PATH] mask(1) then ceil(mask/8) bytes (the mask counts labels, RD, prefix)
    evpn/nlri.py mvpn/nlri.py   type(1) len(1) payload(len)                keeps the whole slice
    mup/nlri.py        arch(1) type(2) len(1) payload(len)                 keeps the whole slice
    bgpls/nlri.py      type(2) len(2) payload(len); SAFI 72 with a registered type: the 8 RD bytes are
                       kept apart (`route_d`) and `pack_nlri` puts them back, so the object keeps the
                       information of the whole slice: `stored` is the slice (a length below 8 is refused)
    flow.py            len(1), or 0xFn len(1) when the first byte has its high nibble set:
                       `((b0 & 0x0F) << FLOW_LENGTH_EXTENDED_SHIFT) + b1`; keeps the payload only and
                       re-encodes the length (`_encode_length`: one byte below `flowCompactLimit` = 240, two below
                       `flowEncodeLimit`, both probed on the live method by the table plugin)
    vpls.py            len(2) ≥ 17 and the NLRI must be ALL the remaining data; keeps 0x0011 + the 17
                       bytes it reads (a longer NLRI is re-encoded without its unknown tail)
    rtc.py             0 → 1 byte; 32..96 → always 13 bytes; keeps them with the two high bits of byte 5 cleared
    sr_policy.py       bits(1) = 96 (IPv4) / 192 (IPv6), payload(bits/8); keeps the payload, re-adds the length

  Only the framing level is modelled: the value-level decoders of the route types run after it
  and may still refuse the slice (`none` here always means the real decoder raises; `some` means
  that IF it accepts, this is what it consumed and kept). Constants come from the generated table.
-/
import ExaModel.Bytes
import ExaModel.Generated.Registry

namespace Exa.Framing
open Exa Exa.Generated.Registry

inductive Kind where
  | prefixBits      -- INET, Label, IPVPN
  | typeLen8        -- EVPN, MVPN
  | mup
  | type16Len16     -- BGP-LS
  | flow
  | vpls
  | rtc
  | srPolicy
deriving DecidableEq, Repr

/-- What the decoder is told besides the bytes. -/
structure Cfg where
  afi : Nat
  safi : Nat
  addpath : Bool     -- ADD-PATH receive negotiated for the family (only the IP families read it)
deriving DecidableEq, Repr

/-- Result of decoding one NLRI at framing level. -/
structure Cut where
  consumed : Bytes   -- the slice taken from the front of the data
  stored : Bytes     -- what the object keeps (`_packed`)
  rest : Bytes
deriving DecidableEq, Repr

def cutAt (n : Nat) (d : Bytes) : Option Cut :=
  if d.length < n then none else some ⟨d.take n, d.take n, d.drop n⟩

def splitPrefixBits (addpath : Bool) (d : Bytes) : Option Cut :=
  let off := if addpath then pathInfoSize else 0
  if addpath && decide (d.length ≤ pathInfoSize) then none
  else if d.length ≤ off then none
  else cutAt (off + 1 + (d.getD off 0 + 7) / 8) d

def splitTypeLen8 (d : Bytes) : Option Cut :=
  if d.length < 2 then none else cutAt (2 + d.getD 1 0) d

def splitMup (d : Bytes) : Option Cut :=
  if d.length < 4 then none else cutAt (4 + d.getD 3 0) d

def splitBgpls (vpn : Bool) (d : Bytes) : Option Cut :=
  if d.length < 4 then none
  else
    let code := rd16 d
    let len := rd16 (d.drop 2)
    let known := bgplsCodes.contains code
    -- (until /repo F98 a VPN NLRI was also refused when fewer than 12 octets were LEFT in the field, which counted
    --  what follows the NLRI: the same short NLRI of an unregistered type was accepted or not by its successor)
    if vpn && decide (len < 8) && known then none
    else if d.length < 4 + len then none
    else some ⟨d.take (4 + len), d.take (4 + len), d.drop (4 + len)⟩

/-- `Flow._encode_length` (none: the encoder raises) -/
def flowFrame (v : Bytes) : Option Bytes :=
  if v.length < flowCompactLimit then some (v.length :: v)
  else if v.length < flowEncodeLimit then some ((flowExtendedValue + v.length / 256) :: v.length % 256 :: v)
  else none

/-- `Flow.unpack_nlri`, with the shift as a parameter (`flowShift` in the code). -/
def splitFlowWith (shift : Nat) (d : Bytes) : Option Cut :=
  match d with
  | [] => none
  | b0 :: t =>
    if b0 / 16 % 16 = 15 then
      match t with
      | [] => none
      | b1 :: t' =>
        let len := (b0 % 16) * 2 ^ shift + b1
        if len > t'.length then none else some ⟨b0 :: b1 :: t'.take len, t'.take len, t'.drop len⟩
    else if b0 > t.length then none else some ⟨b0 :: t.take b0, t.take b0, t.drop b0⟩

def splitFlow (d : Bytes) : Option Cut := splitFlowWith flowShift d

def splitVpls (d : Bytes) : Option Cut :=
  if d.length < 2 then none
  else
    let len := rd16 d
    if len < vplsPayloadSize then none
    else if d.length ≠ len + 2 then none
    else some ⟨d, be16 vplsPayloadSize ++ (d.drop 2).take vplsPayloadSize, []⟩

/-- `RTC.resetFlags` on a byte -/
def resetFlags (b : Nat) : Nat := b % 64

def splitRtc (d : Bytes) : Option Cut :=
  match d with
  | [] => none
  | len :: t =>
    if len = 0 then some ⟨[0], [0], t⟩
    else if len < rtcMinBits ∨ len > rtcMaxBits then none
    else if d.length < rtcFullLength then none
    else some ⟨d.take 13, d.take 5 ++ [resetFlags (d.getD 5 0)] ++ (d.drop 6).take 7, d.drop 13⟩

def srPolicyBits (afi : Nat) : Nat := (if afi = 2 then srPolicyV6Size else srPolicyV4Size) * 8

def splitSrPolicy (afi : Nat) (d : Bytes) : Option Cut :=
  match d with
  | [] => none
  | bits :: t =>
    if bits ≠ srPolicyBits afi then none
    else if d.length < 1 + bits / 8 then none
    else some ⟨d.take (1 + bits / 8), t.take (bits / 8), d.drop (1 + bits / 8)⟩

/-- `NLRI.unpack_nlri` at framing level. -/
def split (k : Kind) (c : Cfg) (d : Bytes) : Option Cut :=
  match k with
  | .prefixBits => splitPrefixBits c.addpath d
  | .typeLen8 => splitTypeLen8 d
  | .mup => splitMup d
  | .type16Len16 => splitBgpls (c.safi == 72) d
  | .flow => splitFlow d
  | .vpls => splitVpls d
  | .rtc => splitRtc d
  | .srPolicy => splitSrPolicy c.afi d

/-- `pack_nlri` from what the object keeps (`none`: the encoder raises). ADD-PATH is the same in
    both directions here. -/
def pack (k : Kind) (stored : Bytes) : Option Bytes :=
  match k with
  | .flow => flowFrame stored
  | .srPolicy => some ((stored.length * 8) :: stored)
  | _ => some stored

/-! ### One framed NLRI, as header fields and payload (the canonical encoder) -/

inductive Nlri where
  | pfx (path : Option Bytes) (mask : Nat) (v : Bytes)
  | typeLen8 (ty : Nat) (v : Bytes)
  | mup (arch code : Nat) (v : Bytes)
  | bgpls (code : Nat) (v : Bytes)
  | flow (v : Bytes)
  | vpls (v : Bytes)
  | rtcWild
  | rtc (bits : Nat) (v : Bytes)
  | srPolicy (v : Bytes)
deriving Repr

def Nlri.kind : Nlri → Kind
  | .pfx .. => .prefixBits
  | .typeLen8 .. => .typeLen8
  | .mup .. => .mup
  | .bgpls .. => .type16Len16
  | .flow .. => .flow
  | .vpls .. => .vpls
  | .rtcWild => .rtc
  | .rtc .. => .rtc
  | .srPolicy .. => .srPolicy

def Nlri.frame : Nlri → Bytes
  | .pfx none mask v => mask :: v
  | .pfx (some p) mask v => p ++ mask :: v
  | .typeLen8 ty v => ty :: v.length :: v
  | .mup arch code v => arch :: (be16 code ++ v.length :: v)
  | .bgpls code v => be16 code ++ be16 v.length ++ v
  | .flow v => (flowFrame v).getD []
  | .vpls v => be16 v.length ++ v
  | .rtcWild => [0]
  | .rtc bits v => bits :: v
  | .srPolicy v => (v.length * 8) :: v

/-- The header fields fit their wire fields and agree with the payload, for the session `c`. -/
def Nlri.ok (c : Cfg) : Nlri → Prop
  | .pfx path mask v => v.length = (mask + 7) / 8 ∧ mask < 256 ∧
      (match path with | none => c.addpath = false | some p => c.addpath = true ∧ p.length = 4)
  | .typeLen8 _ v => v.length < 256
  | .mup _ code v => v.length < 256 ∧ code < 65536
  | .bgpls code v => v.length < 65536 ∧ code < 65536 ∧ (c.safi = 72 → 8 ≤ v.length)
  | .flow v => v.length < 256          -- see `flow_frame_256_refused` for what happens above
  | .vpls v => v.length = 17
  | .rtcWild => True
  | .rtc bits v => 32 ≤ bits ∧ bits ≤ 96 ∧ v.length = 12
  | .srPolicy v => v.length * 8 = srPolicyBits c.afi

/-- What the object keeps of a canonical NLRI. -/
def Nlri.stored (_c : Cfg) : Nlri → Bytes
  | .flow v => v
  | .srPolicy v => v
  | .rtc bits v => bits :: (v.take 4 ++ [resetFlags (v.getD 4 0)] ++ (v.drop 5).take 7)
  | n => n.frame

/-- The registered decoder class → its framing kind (hand-written; the generated registry must be
    covered by it: `Props.C15.registry_families_framed`). -/
def kindOfClass : String → Option Kind
  | "INET" => some .prefixBits
  | "Label" => some .prefixBits
  | "IPVPN" => some .prefixBits
  | "EVPN" => some .typeLen8
  | "MVPN" => some .typeLen8
  | "MUP" => some .mup
  | "BGPLS" => some .type16Len16
  | "Flow" => some .flow
  | "VPLS" => some .vpls
  | "RTC" => some .rtc
  | "SRPolicyNLRI" => some .srPolicy
  | _ => none

/-- The framing kind the registry assigns to a family. -/
def kindOfFamily (afi safi : Nat) : Option Kind :=
  match families.find? (fun r => r.1 == afi && r.2.1 == safi) with
  | some (_, _, cls) => kindOfClass cls
  | none => none

end Exa.Framing
