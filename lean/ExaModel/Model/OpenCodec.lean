import ExaModel.Bytes
import ExaModel.AList
/-!
# M-OpenCodec — the OPEN message on the wire

* `Cap`, `OpenMsg`: typed capabilities (unknown ones opaque) and the fixed fields.
* `encodeOpenG`: the RFC reference encoder (RFC 4271 §4.2 fixed part, RFC 5492 capability TLVs
  inside "Capabilities" optional parameters — any grouping of the capabilities into parameters —
  and both the one-octet and the RFC 9072 extended optional-parameter formats).
  `encodeOpen` is the layout ExaBGP emits (one capability per parameter, extended format as soon
  as the one-octet form of the parameters is not `< 255` octets long).
* `decodeOpen`: decoder, following `Open.unpack_message` / `Capabilities.unpack` /
  `<Capability>.unpack_capability` of /repo branch by branch (same acceptance, same NOTIFICATION
  code/subcode, same order of checks).  It returns the capabilities in wire order.
* `capSet`: what `Capabilities.unpack` leaves in its dict after the capabilities were stored one
  by one (accumulation of MP / ADD-PATH / next-hop entries, last-wins for the others).

No Mathlib.  Total functions; recursion structural or by fuel.
-/
namespace Exa.Open

structure Err where
  code : Nat
  sub : Nat
deriving DecidableEq, Repr

abbrev Res (α : Type) := Except Err α

/-- OPEN Message Error / Unspecific: what the code raises for every malformed length. -/
def malformed : Err := ⟨2, 0⟩

abbrev Family := Nat × Nat
abbrev Triple := Nat × Nat × Nat

inductive Cap where
  | mp (afi safi : Nat)                                  -- RFC 4760, code 1
  | asn4 (asn : Nat)                                     -- RFC 6793, code 65
  | addpath (es : List Triple)                           -- RFC 7911, code 69: (afi, safi, send/receive)
  | nexthop (es : List Triple)                           -- RFC 8950, code 5: (afi, safi, next-hop afi)
  | refresh                                              -- RFC 2918, code 2
  | refreshCisco                                         -- code 128
  | enhanced                                             -- RFC 7313, code 70
  | extMsg                                               -- RFC 8654, code 6
  | operational                                          -- code 185
  | linkLocal                                            -- code 77
  | graceful (flags time : Nat) (fams : List Triple)     -- RFC 4724, code 64: (afi, safi, flags octet)
  | hostname (host domain : Bytes)                       -- code 73
  | software (ver : Bytes)                               -- code 75
  | multisession (cisco : Bool) (value : Bytes)          -- code 68 / 131
  | pathsLimit (es : List Triple)                        -- code 76: (afi, safi, limit)
  | unknown (code : Nat) (value : Bytes)
deriving DecidableEq, Repr

/-- The capability codes that have a decoder (hand-written from the IANA registry / drafts; the
    generated `CapTable.registered` is proved equal in `Props/C07`). -/
def knownCodes : List Nat := [1, 2, 5, 6, 64, 65, 68, 69, 70, 73, 75, 76, 77, 128, 131, 185]

def Cap.code : Cap → Nat
  | .mp _ _ => 1
  | .asn4 _ => 65
  | .addpath _ => 69
  | .nexthop _ => 5
  | .refresh => 2
  | .refreshCisco => 128
  | .enhanced => 70
  | .extMsg => 6
  | .operational => 185
  | .linkLocal => 77
  | .graceful _ _ _ => 64
  | .hostname _ _ => 73
  | .software _ => 75
  | .multisession c _ => if c then 131 else 68
  | .pathsLimit _ => 76
  | .unknown c _ => c

/-! ## UTF-8 (what `bytes.decode('utf-8')` accepts: RFC 3629, no surrogates, no overlong forms) -/

def isCont (b : Nat) : Bool := 128 ≤ b && b ≤ 191

def utf8Valid : Bytes → Bool
  | [] => true
  | b0 :: rest =>
    if b0 < 128 then utf8Valid rest
    else if 194 ≤ b0 && b0 ≤ 223 then
      match rest with
      | b1 :: r => isCont b1 && utf8Valid r
      | _ => false
    else if 224 ≤ b0 && b0 ≤ 239 then
      match rest with
      | b1 :: b2 :: r =>
        (if b0 = 224 then 160 ≤ b1 && b1 ≤ 191 else if b0 = 237 then 128 ≤ b1 && b1 ≤ 159 else isCont b1)
          && isCont b2 && utf8Valid r
      | _ => false
    else if 240 ≤ b0 && b0 ≤ 244 then
      match rest with
      | b1 :: b2 :: b3 :: r =>
        (if b0 = 240 then 144 ≤ b1 && b1 ≤ 191 else if b0 = 244 then 128 ≤ b1 && b1 ≤ 143 else isCont b1)
          && isCont b2 && isCont b3 && utf8Valid r
      | _ => false
    else false

/-! ## Capability values -/

def encAddPathEntry (e : Triple) : Bytes := be16 e.1 ++ [e.2.1, e.2.2]
def encNextHopEntry (e : Triple) : Bytes := be16 e.1 ++ [0, e.2.1] ++ be16 e.2.2
def encPathsLimitEntry (e : Triple) : Bytes := be16 e.1 ++ [e.2.1] ++ be16 e.2.2

def Cap.value : Cap → Bytes
  | .mp a s => be16 a ++ [0, s]
  | .asn4 v => be32 v
  | .addpath es => es.flatMap encAddPathEntry
  | .nexthop es => es.flatMap encNextHopEntry
  | .refresh => []
  | .refreshCisco => []
  | .enhanced => []
  | .extMsg => []
  | .operational => []
  | .linkLocal => []
  | .graceful fl t fams => be16 (fl * 4096 + t) ++ fams.flatMap encAddPathEntry
  | .hostname h d => [h.length] ++ h ++ [d.length] ++ d
  | .software v => [v.length] ++ v
  | .multisession _ v => v
  | .pathsLimit es => es.flatMap encPathsLimitEntry
  | .unknown _ v => v

/-- 4-octet entries: AFI(2) SAFI(1) octet(1) (ADD-PATH, Graceful Restart families). -/
def dec4 : Bytes → Option (List Triple)
  | [] => some []
  | a1 :: a2 :: s :: v :: rest =>
    match dec4 rest with
    | some r => some ((a1 * 256 + a2, s, v) :: r)
    | none => none
  | _ => none

/-- 6-octet entries: AFI(2) reserved(1) SAFI(1) next-hop AFI(2). -/
def dec6 : Bytes → Option (List Triple)
  | [] => some []
  | a1 :: a2 :: _ :: s :: n1 :: n2 :: rest =>
    match dec6 rest with
    | some r => some ((a1 * 256 + a2, s, n1 * 256 + n2) :: r)
    | none => none
  | _ => none

/-- 5-octet entries: AFI(2) SAFI(1) limit(2). -/
def dec5 : Bytes → Option (List Triple)
  | [] => some []
  | a1 :: a2 :: s :: l1 :: l2 :: rest =>
    match dec5 rest with
    | some r => some ((a1 * 256 + a2, s, l1 * 256 + l2) :: r)
    | none => none
  | _ => none

def optList (o : Option (List Triple)) (k : List Triple → Cap) : Res Cap :=
  match o with
  | some es => .ok (k es)
  | none => .error malformed

/-- `Capability.unpack` → `<class>.unpack_capability`, value checks only (the accumulation into the
    instance already stored under the same code is `CapSet.add`). -/
def decodeCap (code : Nat) (v : Bytes) : Res Cap :=
  if code = 1 then
    if v.length < 4 then .error malformed else .ok (.mp (rd16 v) (v.getD 3 0))
  else if code = 65 then
    if v.length = 4 then .ok (.asn4 (rd32 v))
    else if v.length = 2 then .ok (.asn4 (rd16 v))
    else .error malformed
  else if code = 69 then optList (dec4 v) .addpath
  else if code = 5 then optList (dec6 v) .nexthop
  else if code = 2 then .ok .refresh
  else if code = 128 then .ok .refreshCisco
  else if code = 70 then .ok .enhanced
  else if code = 6 then .ok .extMsg
  else if code = 185 then .ok .operational
  else if code = 77 then .ok .linkLocal
  else if code = 64 then
    if v.length < 2 then .error malformed
    else optList (dec4 (v.drop 2)) (.graceful (rd16 v / 4096) (rd16 v % 4096))
  else if code = 73 then
    if v.length < 1 then .error malformed else
    let l1 := v.getD 0 0
    if v.length < l1 + 2 then .error malformed else
    let h := (v.drop 1).take l1
    if utf8Valid h = false then .error malformed else
    let l2 := v.getD (l1 + 1) 0
    if v.length < l1 + 2 + l2 then .error malformed else
    let d := (v.drop (l1 + 2)).take l2
    if utf8Valid d = false then .error malformed else
    .ok (.hostname h d)
  else if code = 75 then
    if v.length < 1 then .error malformed else
    let l1 := v.getD 0 0
    if v.length < l1 + 1 then .error malformed else
    let s := (v.drop 1).take l1
    if utf8Valid s = false then .error malformed else .ok (.software s)
  else if code = 68 then .ok (.multisession false v)
  else if code = 131 then .ok (.multisession true v)
  else if code = 76 then optList (dec5 v) .pathsLimit
  else .ok (.unknown code v)

/-! ## Messages -/

structure OpenMsg where
  version : Nat
  myAs : Nat          -- the 2-octet "My Autonomous System" field
  hold : Nat
  bgpId : Nat
  caps : List Cap     -- capabilities in wire order
deriving DecidableEq, Repr

def encCapTLV (c : Cap) : Bytes := [c.code, c.value.length] ++ c.value

/-- One "Capabilities" optional parameter (type 2) holding the capabilities of `g`. -/
def encGroup (ext : Bool) (g : List Cap) : Bytes :=
  let body := g.flatMap encCapTLV
  (if ext then [2] ++ be16 body.length else [2, body.length]) ++ body

def encParams (ext : Bool) (gs : List (List Cap)) : Bytes := gs.flatMap (encGroup ext)

/-- Optional Parameters Length + Optional Parameters (RFC 4271), or the RFC 9072 form
    `255 255 <length:2>` with 2-octet parameter lengths. -/
def encOptional (ext : Bool) (gs : List (List Cap)) : Bytes :=
  let p := encParams ext gs
  if ext then [255, 255] ++ be16 p.length ++ p else [p.length] ++ p

def encFixed (version myAs hold bgpId : Nat) : Bytes :=
  [version] ++ be16 myAs ++ be16 hold ++ be32 bgpId

/-- RFC reference encoder: body of an OPEN (without the 19-octet header) for a chosen format and a
    chosen grouping of the capabilities into parameters. -/
def encodeOpenG (ext : Bool) (version myAs hold bgpId : Nat) (gs : List (List Cap)) : Bytes :=
  encFixed version myAs hold bgpId ++ encOptional ext gs

/-- the switch point of `Capabilities.pack_capabilities`: one-octet form iff `len(parameters) < 255` -/
def useExtended (caps : List Cap) : Bool :=
  !(decide ((encParams false (caps.map (fun c => [c]))).length < 255))

/-- The layout ExaBGP emits: one capability per parameter. -/
def encodeOpen (o : OpenMsg) : Bytes :=
  encodeOpenG (useExtended o.caps) o.version o.myAs o.hold o.bgpId (o.caps.map (fun c => [c]))

def walkCaps (fuel : Nat) (data : Bytes) : Res (List Cap) :=
  match fuel with
  | 0 => if data.isEmpty then .ok [] else .error malformed
  | fuel + 1 =>
    if data.isEmpty then .ok [] else
    if data.length < 2 then .error malformed else
    let ld := data.getD 1 0
    if data.length < ld + 2 then .error malformed else
    match decodeCap (data.getD 0 0) ((data.drop 2).take ld) with
    | .error e => .error e
    | .ok c =>
      match walkCaps fuel (data.drop (ld + 2)) with
      | .error e => .error e
      | .ok r => .ok (c :: r)

def walkParams (ext : Bool) (fuel : Nat) (data : Bytes) : Res (List Cap) :=
  match fuel with
  | 0 => if data.isEmpty then .ok [] else .error malformed
  | fuel + 1 =>
    if data.isEmpty then .ok [] else
    let hdr := if ext then 3 else 2
    if data.length < hdr then .error malformed else
    let ld := if ext then rd16 (data.drop 1) else data.getD 1 0
    if data.length < ld + hdr then .error malformed else
    let key := data.getD 0 0
    let value := (data.drop hdr).take ld
    if key = 1 then .error ⟨2, 5⟩            -- Authentication Information (deprecated)
    else if key = 2 then
      match walkCaps (value.length + 1) value with
      | .error e => .error e
      | .ok cs =>
        match walkParams ext fuel (data.drop (ld + hdr)) with
        | .error e => .error e
        | .ok r => .ok (cs ++ r)
    else .error ⟨2, 4⟩                       -- 'Unknow OPEN parameter': Unsupported Optional Parameters

/-- `Capabilities.unpack(data)` with `data = body[9:]`. -/
def decodeOptional (data : Bytes) : Res (List Cap) :=
  if data.isEmpty then .ok [] else
  let optLen := data.getD 0 0
  if optLen = 255 then
    if data.length < 4 then .error malformed
    else if data.getD 1 0 = 255 then
      let l := rd16 (data.drop 2)
      if data.length < l + 4 then .error malformed
      else walkParams true (l + 1) ((data.drop 4).take l)
    else
      if data.length < 256 then .error malformed
      else walkParams false 256 ((data.drop 1).take 255)
  else
    if data.length < optLen + 1 then .error malformed
    else walkParams false (optLen + 1) ((data.drop 1).take optLen)

/-- `Open.unpack_message(body)`: 1/2 when shorter than the fixed part, 2/1 for a version other
    than 4, then the optional parameters. -/
def decodeOpen (body : Bytes) : Res OpenMsg :=
  if body.length < 10 then .error ⟨1, 2⟩
  else if body.getD 0 0 ≠ 4 then .error ⟨2, 1⟩
  else
    match decodeOptional (body.drop 9) with
    | .error e => .error e
    | .ok caps =>
      .ok { version := 4, myAs := rd16 (body.drop 1), hold := rd16 (body.drop 3),
            bgpId := rd32 (body.drop 5), caps := caps }

/-! ## Well-formedness (what fits the wire fields) -/

def wfTriple (m : Nat) (e : Triple) : Bool := decide (e.1 < 65536) && decide (e.2.1 < 256) && decide (e.2.2 < m)

def wfCapFields : Cap → Bool
  | .mp a s => decide (a < 65536) && decide (s < 256)
  | .asn4 v => decide (v < 4294967296)
  | .addpath es => es.all (wfTriple 256)
  | .nexthop es => es.all (wfTriple 65536)
  | .graceful fl t fams => decide (fl < 16) && decide (t < 4096) && fams.all (wfTriple 256)
  | .hostname h d => utf8Valid h && utf8Valid d && decide (h.length < 256) && decide (d.length < 256)
  | .software v => utf8Valid v && decide (v.length < 256)
  | .pathsLimit es => es.all (wfTriple 65536)
  | .unknown c _ => decide (c < 256) && !(knownCodes.contains c)
  | _ => true

/-- A capability that has a wire form: fields in range, value octets are octets, value < 256 long. -/
def wfCap (c : Cap) : Bool :=
  wfCapFields c && decide (WFBytes c.value) && decide (c.value.length < 256)

def groupLen (g : List Cap) : Nat := (g.flatMap encCapTLV).length

/-- A grouping that fits format `ext`: every parameter and the whole block fit their length fields. -/
def wfGroups (ext : Bool) (gs : List (List Cap)) : Bool :=
  gs.all (fun g => g.all wfCap && decide (groupLen g < (if ext then 65536 else 256)))
    && decide ((encParams ext gs).length < (if ext then 65536 else 256))

def wfFixed (myAs hold bgpId : Nat) : Bool :=
  decide (myAs < 65536) && decide (hold < 65536) && decide (bgpId < 4294967296)

/-- one parameter = one well-formed group that fits the length field of the format -/
def wfGroup (ext : Bool) (g : List Cap) : Bool :=
  g.all wfCap && decide (groupLen g < (if ext then 65536 else 256))

/-- an OPEN that has a wire form in ExaBGP's layout -/
def wfOpen (o : OpenMsg) : Bool :=
  decide (o.version = 4) && wfFixed o.myAs o.hold o.bgpId
    && wfGroups (useExtended o.caps) (o.caps.map (fun c => [c]))

/-! ## The dict `Capabilities.unpack` builds -/

structure CapSet where
  mp : Option (List Family) := none
  asn4 : Option Nat := none
  addpath : Option (AList Family Nat) := none
  nexthop : Option (List Triple) := none
  refresh : Bool := false
  refreshCisco : Bool := false
  enhanced : Bool := false
  extMsg : Bool := false
  operational : Bool := false
  linkLocal : Bool := false
  graceful : Option (Nat × Nat × AList Family Nat) := none
  hostname : Option (Bytes × Bytes) := none
  software : Option Bytes := none
  multisession : Bool := false
  multisessionCisco : Bool := false
  pathsLimit : Option (AList Family Nat) := none
  unknown : AList Nat Bytes := []
deriving DecidableEq, Repr

def addUnique {α : Type} [DecidableEq α] (l : List α) (x : α) : List α := if x ∈ l then l else l ++ [x]

def insertEntry (d : AList Family Nat) (e : Triple) : AList Family Nat := AList.insert (e.1, e.2.1) e.2.2 d

/-- PathsLimit merge: zero limits skipped, the first entry of a family is kept. -/
def limitEntry (d : AList Family Nat) (e : Triple) : AList Family Nat :=
  if e.2.2 = 0 then d else if (AList.lookup (e.1, e.2.1) d).isSome then d else d ++ [((e.1, e.2.1), e.2.2)]

/-- Graceful.set keeps only the forwarding bit of the per-family flags. -/
def fwdBit (e : Triple) : Triple := (e.1, e.2.1, e.2.2 / 128 % 2 * 128)

/-- `capabilities[code] = Capability.unpack(code, capabilities, value)`: the instance already
    stored under the code is reused by MP / ADD-PATH / next-hop / paths-limit (entries accumulate;
    a repeated ADD-PATH family takes the later value), replaced by the others (last wins). -/
def CapSet.add (s : CapSet) : Cap → CapSet
  | .mp a f => { s with mp := some (addUnique (s.mp.getD []) (a, f)) }
  | .asn4 v => { s with asn4 := some v }
  | .addpath es => { s with addpath := some (es.foldl insertEntry (s.addpath.getD [])) }
  | .nexthop es => { s with nexthop := some (es.foldl addUnique (s.nexthop.getD [])) }
  | .refresh => { s with refresh := true }
  | .refreshCisco => { s with refreshCisco := true }
  | .enhanced => { s with enhanced := true }
  | .extMsg => { s with extMsg := true }
  | .operational => { s with operational := true }
  | .linkLocal => { s with linkLocal := true }
  | .graceful fl t fams => { s with graceful := some (fl, t % 4096, (fams.map fwdBit).foldl insertEntry []) }
  | .hostname h d => { s with hostname := some (h, d) }
  | .software v => { s with software := some v }
  | .multisession c _ => if c then { s with multisessionCisco := true } else { s with multisession := true }
  | .pathsLimit es => { s with pathsLimit := some (es.foldl limitEntry (s.pathsLimit.getD [])) }
  | .unknown c v => { s with unknown := AList.insert c v s.unknown }

def capSet (caps : List Cap) : CapSet := caps.foldl CapSet.add {}

end Exa.Open
