/-
  M-Index: model of `index()`, `__eq__`, `__hash__` of the IP-family NLRI classes and of
  `Route.index()`, as they are in /repo after commit 202850b ("NLRI index cannot be spelled two
  ways; hash follows equality").

  Code modelled (read in /repo/src/exabgp):
    protocol/family.py            Family.index            f'{afi:02x}{safi:02x}'.encode()
    bgp/message/update/nlri/nlri.py   NLRI.__eq__         self.index() == other.index()
    bgp/message/update/nlri/inet.py   INETBase.index      Family.index + (b'path' + _packed | b'disabled' + _packed)
                                      INETBase.__hash__   hash(_packed | b'disabled' + _packed)
    bgp/message/update/nlri/label.py  LabelBase.index     Family.index + (b'no-pi' | b'disabled' | b'path' + path) + [mask] + cidr.pack_ip()
                                      LabelBase.__hash__  hash(self.index())
    bgp/message/update/nlri/ipvpn.py  IPVPNBase.index     Family.index + tag + [rd_bits + mask] + (b'\x01' | b'\x00') + rd + cidr.pack_ip()
                                      IPVPNBase.__hash__  hash(self.index())
    rib/route.py                      Route.index         b'%02x%02x' % (afi, safi) + nlri.index()

  An NLRI is the abstract record of what its `_packed` holds. `path = none` is
  `PathInfo.DISABLED` (`_has_addpath = False`); `path = some p` are the four bytes stored in front
  of the mask (`p = [0,0,0,0]` is what `path_info` turns into the `NOPATH` singleton).
  Python's `hash` of a `bytes` object is a function of the bytes: the model exposes the byte string
  that is hashed (`hashKey`), so "equal hashes" is modelled by "equal hash keys".

  Guard (stated by `wf`): afi, safi < 256 (then `{:02x}` is exactly two digits; every IP family
  has afi 1 or 2), a path-id is 4 bytes, an RD is 8 bytes, the prefix has `ceil(mask/8)` bytes,
  mask ≤ 128, and INET carries no labels / RD, Label no RD. Outside the guard the real code raises
  (`bytes([mask])` with mask > 255, `CIDR.pack_ip` assertion) or cannot build the object.

  `indexOld` / `hashKeyOld` are the encoding before that commit (finding F15): kept so that the
  collisions it had stay on record as examples in `Props/C15.lean`.
-/
import ExaModel.Bytes

namespace Exa.Index
open Exa

inductive Kind where
  | inet | label | vpn
deriving DecidableEq, Repr

structure IpNlri where
  kind   : Kind
  afi    : Nat
  safi   : Nat
  path   : Option Bytes     -- none: no ADD-PATH; some p: the 4 path-id bytes kept in `_packed`
  labels : Bytes            -- raw label stack bytes kept in `_packed` (3 per label)
  rd     : Option Bytes     -- the 8 RD bytes when `_has_rd`
  mask   : Nat              -- prefix length in bits (`cidr.mask`)
  pfx    : Bytes            -- `cidr.pack_ip()`
deriving DecidableEq, Repr

/-- `b'disabled'` -/
def disabled : Bytes := [100, 105, 115, 97, 98, 108, 101, 100]
/-- `b'no-pi'` -/
def nopi : Bytes := [110, 111, 45, 112, 105]
/-- `b'path'` -/
def pathWord : Bytes := [112, 97, 116, 104]

def hexDigit (n : Nat) : Nat := if n < 10 then 48 + n else 87 + n

/-- `'{:02x}'.format(n).encode()` for n < 256 -/
def fmt02x (n : Nat) : Bytes := [hexDigit (n / 16 % 16), hexDigit (n % 16)]

/-- `Family.index()` -/
def famIndex (afi safi : Nat) : Bytes := fmt02x afi ++ fmt02x safi

/-- `CIDR.size(mask)` -/
def cidrSize (mask : Nat) : Nat := (mask + 7) / 8

def optBytes : Option Bytes → Bytes
  | none => []
  | some b => b

def rdBits (a : IpNlri) : Nat := if a.rd.isSome then 64 else 0

/-- What `_packed` holds: `[path:4?][mask:1][labels:3n][rd:8?][prefix]`, the mask byte counting
    labels, RD and prefix bits (`from_cidr` of the three classes). -/
def packed (a : IpNlri) : Bytes :=
  optBytes a.path ++ [a.labels.length * 8 + rdBits a + a.mask] ++ a.labels ++ optBytes a.rd ++ a.pfx

/-- The ADD-PATH tag of the index. The three tags start with different bytes (`d`, `n`, `p`) and
    each has a fixed length once its first byte is known: a prefix-free code. INET has no `no-pi`
    form (its `_packed` simply starts with the four zero bytes). -/
def pathTag (k : Kind) : Option Bytes → Bytes
  | none => disabled
  | some p => if k ≠ .inet ∧ p = [0, 0, 0, 0] then nopi else pathWord ++ p

/-- `IPVPN.index`: one byte after the mask says whether an RD follows. -/
def rdFlag (a : IpNlri) : Bytes :=
  match a.kind with
  | .vpn => [if a.rd.isSome then 1 else 0]
  | _ => []

/-- The index in one formula for the three classes (equal to `index` under the guard:
    `Lemmas/Index.lean: index_eq_uniform`). -/
def indexU (a : IpNlri) : Bytes :=
  famIndex a.afi a.safi ++ pathTag a.kind a.path ++ [rdBits a + a.mask] ++ rdFlag a ++ optBytes a.rd ++ a.pfx

/-- `nlri.index()` (dynamic dispatch on the class), as each class writes it. -/
def index (a : IpNlri) : Bytes :=
  match a.kind with
  | .inet => famIndex a.afi a.safi ++ (if a.path.isSome then pathWord ++ packed a else disabled ++ packed a)
  | .label => famIndex a.afi a.safi ++ pathTag .label a.path ++ [a.mask] ++ a.pfx
  | .vpn => famIndex a.afi a.safi ++ pathTag .vpn a.path ++ [rdBits a + a.mask]
              ++ [if a.rd.isSome then 1 else 0] ++ optBytes a.rd ++ a.pfx

/-- The bytes `__hash__` hashes: INET its `_packed` (with the sentinel when there is no path-id),
    Label and IPVPN their index. -/
def hashKey (a : IpNlri) : Bytes :=
  match a.kind with
  | .inet => if a.path.isSome then packed a else disabled ++ packed a
  | _ => index a

/-- `NLRI.__eq__` -/
def nlriEq (a b : IpNlri) : Bool := index a == index b

/-- `Route.index()` -/
def routeIndex (a : IpNlri) : Bytes := famIndex a.afi a.safi ++ index a

def optLenIs (n : Nat) : Option Bytes → Bool
  | none => true
  | some b => b.length == n

/-- The objects the classes can hold (see the header). -/
def wf (a : IpNlri) : Bool :=
  decide (a.afi < 256) && decide (a.safi < 256) && optLenIs 4 a.path && optLenIs 8 a.rd
  && (a.pfx.length == cidrSize a.mask) && decide (a.mask ≤ 128)
  && (match a.kind with
      | .inet => a.labels.isEmpty && a.rd.isNone
      | .label => a.rd.isNone
      | .vpn => true)

/-- What the property says an index must tell apart: family, path identifier, prefix, RD.
    (The label stack is not in the list, and `Label.index` / `IPVPN.index` leave it out.) -/
structure Key where
  afi : Nat
  safi : Nat
  path : Option Bytes
  mask : Nat
  pfx : Bytes
  rd : Option Bytes
deriving DecidableEq, Repr

def key (a : IpNlri) : Key := ⟨a.afi, a.safi, a.path, a.mask, a.pfx, a.rd⟩

/-! ### The encoding before commit 202850b (finding F15), for the record -/

/-- `b'disa'`, `b'no-p'`: the two path identifiers that made the sentinels ambiguous. -/
def disa : Bytes := [100, 105, 115, 97]
def nop : Bytes := [110, 111, 45, 112]

def pathTagOld : Option Bytes → Bytes
  | none => disabled
  | some p => if p = [0, 0, 0, 0] then nopi else p

def indexOld (a : IpNlri) : Bytes :=
  match a.kind with
  | .inet => famIndex a.afi a.safi ++ (if a.path.isSome then packed a else disabled ++ packed a)
  | .label => famIndex a.afi a.safi ++ pathTagOld a.path ++ [a.mask] ++ a.pfx
  | .vpn => famIndex a.afi a.safi ++ pathTagOld a.path ++ [rdBits a + a.mask] ++ optBytes a.rd ++ a.pfx

def hashKeyOld (a : IpNlri) : Bytes :=
  if a.path.isSome then packed a else disabled ++ packed a

end Exa.Index
