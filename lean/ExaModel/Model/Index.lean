/-
  M-Index: model of `index()`, `__eq__`, `__hash__` of the IP-family NLRI classes and of
  `Route.index()`.

  Code modelled (read in /repo/src/exabgp):
    protocol/family.py            Family.index            f'{afi:02x}{safi:02x}'.encode()
    bgp/message/update/nlri/nlri.py   NLRI.__eq__         self.index() == other.index()
    bgp/message/update/nlri/inet.py   INETBase.index      Family.index + (_packed | b'disabled' + _packed)
                                      INETBase.__hash__   hash(_packed | b'disabled' + _packed)
    bgp/message/update/nlri/label.py  LabelBase.index     Family.index + (b'no-pi' | b'disabled' | path) + [mask] + cidr.pack_ip()
                                      LabelBase.__hash__  as INET (labels ARE in _packed)
    bgp/message/update/nlri/ipvpn.py  IPVPNBase.index     Family.index + tag + [rd_bits + mask] + rd + cidr.pack_ip()
                                      IPVPNBase.__hash__  as INET
    rib/route.py                      Route.index         b'%02x%02x' % (afi, safi) + nlri.index()

  An NLRI is the abstract record of what its `_packed` holds. `path = none` is
  `PathInfo.DISABLED` (`_has_addpath = False`); `path = some p` are the four bytes stored in front
  of the mask (`p = [0,0,0,0]` is what `path_info` turns into the `NOPATH` singleton).
  Python's `hash` of a `bytes` object is a function of the bytes: the model exposes the byte string
  that is hashed (`hashKey`), so "equal hashes" is modelled by "equal hash keys".

  Guard (stated by `wf`): afi, safi < 256 (then `{:02x}` is exactly two digits; every IP family
  has afi 1 or 2), a path-id is 4 bytes, an RD is 8 bytes, the prefix has `ceil(mask/8)` bytes,
  mask ≤ 128, and INET carries no labels / RD, Label no RD. Outside the guard the real code raises
  (`bytes([mask])` with mask > 255, `CIDR.pack_ip` assertion) or cannot build the object.
-/
import ExaModel.Bytes

namespace Exa.Index
open Exa

inductive Kind where
  | inet | label | vpn
deriving DecidableEq, Repr

structure IpNlri where
  kind   : Kind
  afi    : Nat
  safi   : Nat
  path   : Option Bytes     -- none: no ADD-PATH; some p: the 4 path-id bytes kept in `_packed`
  labels : Bytes            -- raw label stack bytes kept in `_packed` (3 per label)
  rd     : Option Bytes     -- the 8 RD bytes when `_has_rd`
  mask   : Nat              -- prefix length in bits (`cidr.mask`)
  pfx    : Bytes            -- `cidr.pack_ip()`
deriving DecidableEq, Repr

/-- `b'disabled'` -/
def disabled : Bytes := [100, 105, 115, 97, 98, 108, 101, 100]
/-- `b'no-pi'` -/
def nopi : Bytes := [110, 111, 45, 112, 105]

def hexDigit (n : Nat) : Nat := if n < 10 then 48 + n else 87 + n

/-- `'{:02x}'.format(n).encode()` for n < 256 -/
def fmt02x (n : Nat) : Bytes := [hexDigit (n / 16 % 16), hexDigit (n % 16)]

/-- `Family.index()` -/
def famIndex (afi safi : Nat) : Bytes := fmt02x afi ++ fmt02x safi

/-- `CIDR.size(mask)` -/
def cidrSize (mask : Nat) : Nat := (mask + 7) / 8

def optBytes : Option Bytes → Bytes
  | none => []
  | some b => b

def rdBits (a : IpNlri) : Nat := if a.rd.isSome then 64 else 0

/-- What `_packed` holds: `[path:4?][mask:1][labels:3n][rd:8?][prefix]`, the mask byte counting
    labels, RD and prefix bits (`from_cidr` of the three classes). -/
def packed (a : IpNlri) : Bytes :=
  optBytes a.path ++ [a.labels.length * 8 + rdBits a + a.mask] ++ a.labels ++ optBytes a.rd ++ a.pfx

/-- The ADD-PATH part of `Label.index` / `IPVPN.index`. -/
def pathTag : Option Bytes → Bytes
  | none => disabled
  | some p => if p = [0, 0, 0, 0] then nopi else p

/-- `nlri.index()` (dynamic dispatch on the class). -/
def index (a : IpNlri) : Bytes :=
  match a.kind with
  | .inet => famIndex a.afi a.safi ++ (if a.path.isSome then packed a else disabled ++ packed a)
  | .label => famIndex a.afi a.safi ++ pathTag a.path ++ [a.mask] ++ a.pfx
  | .vpn => famIndex a.afi a.safi ++ pathTag a.path ++ [rdBits a + a.mask] ++ optBytes a.rd ++ a.pfx

/-- The bytes `__hash__` hashes (the same code in the three classes). -/
def hashKey (a : IpNlri) : Bytes :=
  if a.path.isSome then packed a else disabled ++ packed a

/-- `NLRI.__eq__` -/
def nlriEq (a b : IpNlri) : Bool := index a == index b

/-- `Route.index()` -/
def routeIndex (a : IpNlri) : Bytes := famIndex a.afi a.safi ++ index a

def optLenIs (n : Nat) : Option Bytes → Bool
  | none => true
  | some b => b.length == n

/-- The objects the classes can hold (see the header). -/
def wf (a : IpNlri) : Bool :=
  decide (a.afi < 256) && decide (a.safi < 256) && optLenIs 4 a.path && optLenIs 8 a.rd
  && (a.pfx.length == cidrSize a.mask) && decide (a.mask ≤ 128)
  && (match a.kind with
      | .inet => a.labels.isEmpty && a.rd.isNone
      | .label => a.rd.isNone
      | .vpn => true)

/-- What the property says an index must tell apart: family, path identifier, prefix, RD.
    (The label stack is not in the list, and `Label.index` / `IPVPN.index` leave it out.) -/
structure Key where
  afi : Nat
  safi : Nat
  path : Option Bytes
  mask : Nat
  pfx : Bytes
  rd : Option Bytes
deriving DecidableEq, Repr

def key (a : IpNlri) : Key := ⟨a.afi, a.safi, a.path, a.mask, a.pfx, a.rd⟩

/-- `b'disa'`, `b'no-p'`: the two path identifiers that make the sentinel ambiguous. -/
def disa : Bytes := [100, 105, 115, 97]
def nop : Bytes := [110, 111, 45, 112]

/-! ### The repaired encoding (proposed_fixes/F15-index-collision.md)

  The ASCII sentinels are kept (`b'disabled'`, `b'no-pi'`) and an explicit path identifier is
  introduced by `b'path'`: the three tags start with different bytes (`d`, `n`, `p`) and each has a
  fixed length once its first byte is known, so they form a prefix-free code. IPVPN adds one byte
  after the mask saying whether an RD follows. Labels stay out of the index, as today. -/
def pathWord : Bytes := [112, 97, 116, 104]

def tagFix (k : Kind) : Option Bytes → Bytes
  | none => disabled
  | some p => if k ≠ .inet ∧ p = [0, 0, 0, 0] then nopi else pathWord ++ p

def rdFlag (a : IpNlri) : Bytes :=
  match a.kind with
  | .vpn => [if a.rd.isSome then 1 else 0]
  | _ => []

def indexFix (a : IpNlri) : Bytes :=
  famIndex a.afi a.safi ++ tagFix a.kind a.path ++ [rdBits a + a.mask] ++ rdFlag a ++ optBytes a.rd ++ a.pfx

/-- The repaired `__hash__` of Label / IPVPN: `hash(self.index())`. -/
def hashKeyFix (a : IpNlri) : Bytes := indexFix a

end Exa.Index
