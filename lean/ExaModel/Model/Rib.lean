/-
  M-Rib: model of src/exabgp/rib/outgoing.py + cache.py (Adj-RIB-Out queues and cache) and of
  the consumption of `OutgoingRIB.updates()` by `Peer._send_route_updates` /
  `Protocol.new_update_generator` (snapshot, one item per `next`, `include_withdraw`).

  Routes are abstract: (nlri id, family id, attribute-set id, next-hop id).  The nlri id stands
  for `Route.index()` (family prefix + nlri index), so two routes with the same nlri id are
  "the same prefix" for the RIB.

  What is kept from the code: dict insertion order of the queues (AList), dedupe through
  `in_cache` (attributes AND next hop), announce does not cancel a queued withdraw, a delete
  cancels the queued announce, refresh routes are emitted before withdraws before announces,
  the snapshot taken by `updates()` is immutable, the first generator of a session runs with
  `include_withdraw = False`.

  What is abstracted: the grouping of announces by (attribute index, family) inside one
  snapshot — after the F1 repair every queued NLRI sits in exactly one group, so the model keeps
  one ordered map nlri → route; the order of emission *between different NLRIs* inside the
  announce section is therefore not claimed by the model and the correspondence compares
  per-NLRI subsequences (DESIGN 4.2).  `paths_limit` is not modelled.
-/
import ExaModel.AList

namespace Exa.Rib
open Exa

structure Route where
  nlri : Nat
  fam  : Nat
  attr : Nat
  nh   : Nat
  grp  : Nat := attr     -- id of `attributes.index()`: the group the route is queued in
deriving DecidableEq, Repr, Inhabited

inductive Ev where
  | ann (r : Route)
  | wd (nlri : Nat) (fam : Nat)
  | rrStart (fam : Nat)
  | rrEnd (fam : Nat)
  | eor (fam : Nat)                -- End-of-RIB marker
deriving DecidableEq, Repr

/-- `OutgoingRIB` (enabled). -/
structure Rib where
  cacheOn   : Bool
  families  : List Nat
  cache     : AList Nat Route            -- Cache._seen (flattened: the key contains the family)
  newAnn    : AList Nat Route            -- _new_nlri: the latest route queued per NLRI
  stale     : AList Nat (List Route)     -- older announces of the NLRI still queued in _new_attr_af_nlri,
                                         --   in the order updates() will send them (all before the latest)
  grpOrder  : List Nat                   -- keys of _new_attr_af_nlri in dict order
  newWd     : AList Nat Nat              -- _pending_withdraws: nlri ↦ family
  refFams   : List Nat                   -- _refresh_families
  refRoutes : List Route                 -- _refresh_routes
  wdPlus    : AList Nat (AList Nat Route)  -- _watchdog[name]['+']
  wdMinus   : AList Nat (AList Nat Route)  -- _watchdog[name]['-']
deriving Repr

def Rib.init (cacheOn : Bool) (families : List Nat) : Rib :=
  { cacheOn, families, cache := [], newAnn := [], stale := [], grpOrder := [], newWd := [], refFams := [],
    refRoutes := [], wdPlus := [], wdMinus := [] }

/-- `Cache.in_cache` -/
def Rib.inCache (s : Rib) (r : Route) : Bool :=
  s.cacheOn && match AList.lookup r.nlri s.cache with
    | some c => c.attr == r.attr && c.nh == r.nh
    | none => false

/-- `g` is sent before `h` by `updates()`: its key comes first in `_new_attr_af_nlri`
    (a key not yet present will be appended, so everything present comes before it). -/
def sentBefore (order : List Nat) (g h : Nat) : Bool := order.idxOf g < order.idxOf h

/-- `_update_rib` (after the F1 repair): an older announce of the NLRI stays queued only if it is
    sent before the new one; the entry under the same attributes is replaced in place. -/
def Rib.updateRib (s : Rib) (r : Route) : Rib :=
  let chain := (AList.lookup r.nlri s.stale).getD []
  let chain' := match AList.lookup r.nlri s.newAnn with
    | none => []
    | some p => if p.grp = r.grp then chain
                else (chain ++ [p]).filter (fun x => sentBefore s.grpOrder x.grp r.grp)
  { s with newAnn := AList.insert r.nlri r s.newAnn,
           stale := AList.insert r.nlri chain' s.stale,
           grpOrder := if s.grpOrder.contains r.grp then s.grpOrder else s.grpOrder ++ [r.grp],
           cache := if s.cacheOn then AList.insert r.nlri r s.cache else s.cache }

/-- `add_to_rib(route, force)` -/
def Rib.add (s : Rib) (r : Route) (force : Bool) : Rib :=
  if !force && s.inCache r then s else s.updateRib r

/-- `_del_from_rib_impl` (after the F2 repair: every queued announce of the NLRI is dropped; after
    the F33 repair: a pending refresh of that NLRI is dropped) -/
def Rib.del (s : Rib) (nlri fam : Nat) : Rib :=
  { s with newAnn := AList.erase nlri s.newAnn,
           stale := AList.erase nlri s.stale,
           newWd := AList.insert nlri fam s.newWd,
           refRoutes := s.refRoutes.filter (fun r => r.nlri != nlri),
           cache := if s.cacheOn then AList.erase nlri s.cache else s.cache }

/-- `cached_routes(families)`: routes of the requested families that the RIB serves. -/
def Rib.cachedRoutes (s : Rib) (fams : List Nat) : List Route :=
  (AList.values s.cache).filter (fun r => fams.contains r.fam && s.families.contains r.fam)

def addFams (acc : List Nat) (fs : List Nat) : List Nat :=
  fs.foldl (fun a f => if a.contains f then a else a ++ [f]) acc

/-- `resend(enhanced, family)` -/
def Rib.resend (s : Rib) (enhanced : Bool) (fam : Option Nat) : Rib :=
  let req := match fam with
    | none => s.families
    | some f => s.families.filter (· == f)
  { s with refFams := if enhanced then addFams s.refFams req else s.refFams,
           refRoutes := s.refRoutes ++ s.cachedRoutes req }

def Rib.delRoutes (s : Rib) (rs : List Route) : Rib :=
  rs.foldl (fun s r => s.del r.nlri r.fam) s

/-- `withdraw(families)`; `[]` means all. -/
def Rib.withdrawAll (s : Rib) (fams : List Nat) : Rib :=
  let req := if fams.isEmpty then s.families else fams
  s.delRoutes (s.cachedRoutes req)

/-- `add_to_rib_watchdog(route)` for a route carrying watchdog `name`, `withdraw` flag `w`. -/
def Rib.wdogAdd (s : Rib) (r : Route) (name : Nat) (w : Bool) : Rib :=
  if w then
    let m := AList.insert r.nlri r ((AList.lookup name s.wdMinus).getD [])
    { s with wdMinus := AList.insert name m s.wdMinus }
  else
    let p := AList.insert r.nlri r ((AList.lookup name s.wdPlus).getD [])
    let s' := { s with wdPlus := AList.insert name p s.wdPlus }
    s'.add r false

/-- `announce_watchdog(name)` -/
def Rib.wdogAnnounce (s : Rib) (name : Nat) : Rib :=
  match AList.lookup name s.wdMinus with
  | none => s
  | some minus =>
    let rs := AList.values minus
    let s1 := rs.foldl (fun s r => s.add r false) s
    let plus' := rs.foldl (fun p r => AList.insert r.nlri r p) ((AList.lookup name s.wdPlus).getD [])
    { s1 with wdPlus := AList.insert name plus' s1.wdPlus,
              wdMinus := AList.insert name [] s1.wdMinus }

/-- `withdraw_watchdog(name)` -/
def Rib.wdogWithdraw (s : Rib) (name : Nat) : Rib :=
  match AList.lookup name s.wdPlus with
  | none => s
  | some plus =>
    let rs := AList.values plus
    let s1 := s.delRoutes rs
    let minus' := rs.foldl (fun p r => AList.insert r.nlri r p) ((AList.lookup name s.wdMinus).getD [])
    { s1 with wdMinus := AList.insert name minus' s1.wdMinus,
              wdPlus := AList.insert name [] s1.wdPlus }

/-- `pending()` -/
def Rib.pending (s : Rib) : Bool :=
  !s.newAnn.isEmpty || !s.refRoutes.isEmpty || !s.newWd.isEmpty

/-- The announce section, NLRI by NLRI: the older announces still queued, then the latest. -/
def annSection (stale : AList Nat (List Route)) (newAnn : AList Nat Route) : List Ev :=
  newAnn.flatMap (fun p => ((AList.lookup p.1 stale).getD []).map Ev.ann ++ [Ev.ann p.2])

/-- What `updates()` yields for the current queues, in order. -/
def Rib.snapshotEvents (s : Rib) : List Ev :=
  s.refFams.map Ev.rrStart ++ s.refRoutes.map Ev.ann ++ s.refFams.map Ev.rrEnd
    ++ s.newWd.map (fun p => Ev.wd p.1 p.2) ++ annSection s.stale s.newAnn

/-- The queues after `updates()` took its snapshot. -/
def Rib.flushed (s : Rib) : Rib :=
  { s with newAnn := [], stale := [], grpOrder := [], newWd := [], refFams := [], refRoutes := [] }

/-- `reset()`: drop everything queued, keep the cache. -/
def Rib.reset (s : Rib) : Rib := s.flushed

/-- `clear()`: cache and queues emptied. -/
def Rib.clear (s : Rib) : Rib := { s.flushed with cache := [] }

/-- routes of `prev` whose index is not in `new` (the `indexed` dict of replace_restart/reload) -/
def staleOf (prev new : List Route) : AList Nat Route :=
  let idx := prev.foldl (fun d r => AList.insert r.nlri r d) ([] : AList Nat Route)
  new.foldl (fun d r => AList.erase r.nlri d) idx

/-- `replace_restart(previous, new)` -/
def Rib.replaceRestart (s : Rib) (prev new : List Route) : Rib :=
  let s1 := (s.cachedRoutes s.families).foldl (fun s r => s.add r true) s
  s1.delRoutes (AList.values (staleOf prev new))

/-- `replace_reload(previous, new)` -/
def Rib.replaceReload (s : Rib) (prev new : List Route) : Rib :=
  let idx := prev.foldl (fun d r => AList.insert r.nlri r d) ([] : AList Nat Route)
  let step := fun (acc : Rib × AList Nat Route) (r : Route) =>
    match AList.lookup r.nlri acc.2 with
    | some _ => (acc.1, AList.erase r.nlri acc.2)
    | none => (acc.1.add r true, acc.2)
  let (s1, rest) := new.foldl step (s, idx)
  s1.delRoutes (AList.values rest)

/-! ### The session on top of the RIB: generator in flight, include_withdraw, what was sent -/

structure Sess where
  rib      : Rib
  inflight : Option (List Ev)   -- the rest of the generator held by `_main` (None: no generator)
  inclWd   : Bool               -- `include_withdraw` of `_main`
deriving Repr

inductive Op where
  | add (r : Route) (force : Bool)
  | del (nlri fam : Nat)
  | resend (enhanced : Bool) (fam : Option Nat)
  | withdrawAll (fams : List Nat)
  | wdogAdd (r : Route) (name : Nat) (w : Bool)
  | wdogAnnounce (name : Nat)
  | wdogWithdraw (name : Nat)
  | start                        -- `_send_route_updates` creates the generator (first `next()`)
  | next                         -- one `__anext__()`: one item sent, or exhaustion noticed
  | lost                         -- session lost: `_reset` → `reset_rib`
  | established (prev new : List Route)  -- `_main` prologue: `replace_restart`
  | reload (prev new : List Route)       -- `replace_reload` from `_main` or `reconfigure`
deriving Repr

def Sess.init (cacheOn : Bool) (families : List Nat) : Sess :=
  { rib := Rib.init cacheOn families, inflight := none, inclWd := false }

def keepEv (inclWd : Bool) : Ev → Bool
  | .wd _ _ => inclWd
  | _ => true

/-- One step; the second component is what is put on the wire by this step. -/
def Sess.step (s : Sess) : Op → Sess × List Ev
  | .add r f => ({ s with rib := s.rib.add r f }, [])
  | .del n f => ({ s with rib := s.rib.del n f }, [])
  | .resend e f => ({ s with rib := s.rib.resend e f }, [])
  | .withdrawAll fs => ({ s with rib := s.rib.withdrawAll fs }, [])
  | .wdogAdd r n w => ({ s with rib := s.rib.wdogAdd r n w }, [])
  | .wdogAnnounce n => ({ s with rib := s.rib.wdogAnnounce n }, [])
  | .wdogWithdraw n => ({ s with rib := s.rib.wdogWithdraw n }, [])
  | .start =>
    match s.inflight with
    | some _ => (s, [])
    | none =>
      if s.rib.pending then
        ({ s with rib := s.rib.flushed,
                  inflight := some (s.rib.snapshotEvents.filter (keepEv s.inclWd)) }, [])
      else (s, [])
  | .next =>
    match s.inflight with
    | none => (s, [])
    | some [] => ({ s with inflight := none, inclWd := true }, [])
    | some (e :: rest) => ({ s with inflight := some rest }, [e])
  | .lost => ({ rib := s.rib.reset, inflight := none, inclWd := false }, [])
  | .established prev new => ({ s with rib := s.rib.replaceRestart prev new }, [])
  | .reload prev new => ({ s with rib := s.rib.replaceReload prev new }, [])

def Sess.run (s : Sess) : List Op → Sess × List Ev
  | [] => (s, [])
  | op :: ops =>
    let (s1, o1) := s.step op
    let (s2, o2) := s1.run ops
    (s2, o1 ++ o2)

/-- Consume the generator in flight to exhaustion. -/
def Sess.finish (s : Sess) : Sess × List Ev :=
  match s.inflight with
  | none => (s, [])
  | some evs => ({ s with inflight := none, inclWd := true }, evs)

/-- Drain: finish what is in flight, then (if something is queued) one more generator. -/
def Sess.drain (s : Sess) : Sess × List Ev :=
  let (s1, o1) := s.finish
  let (s2, _) := s1.step .start
  let (s3, o3) := s2.finish
  (s3, o1 ++ o3)

/-! ### The peer's table -/

abbrev Table := AList Nat (Nat × Nat)   -- nlri ↦ (attr, nh)

def applyEv (t : Table) : Ev → Table
  | .ann r => AList.insert r.nlri (r.attr, r.nh) t
  | .wd n _ => AList.erase n t
  | _ => t

def applyEvs (t : Table) (evs : List Ev) : Table := evs.foldl applyEv t

def Rib.cacheView (s : Rib) (n : Nat) : Option (Nat × Nat) :=
  (AList.lookup n s.cache).map (fun r => (r.attr, r.nh))

/-! ### End-of-RIB: `Peer._send_eor_messages`, called in every main-loop iteration right after
    `_send_route_updates` -/

structure ESess where
  core    : Sess
  sendEor : Bool        -- `send_eor` of `_main` (true at session start unless manual-eor)
deriving Repr

inductive EOp where
  | op (o : Op)
  | eor                 -- one call of `_send_eor_messages`
deriving Repr

def ESess.step (s : ESess) : EOp → ESess × List Ev
  | .op (.established p n) => ({ core := (s.core.step (.established p n)).1, sendEor := true }, [])
  | .op o => ({ s with core := (s.core.step o).1 }, (s.core.step o).2)
  | .eor =>
    if s.core.inflight.isNone && s.sendEor then
      ({ s with sendEor := false }, s.core.rib.families.map Ev.eor)
    else (s, [])

def ESess.run (s : ESess) : List EOp → ESess × List Ev
  | [] => (s, [])
  | o :: os =>
    let (s1, o1) := s.step o
    let (s2, o2) := s1.run os
    (s2, o1 ++ o2)

end Exa.Rib
