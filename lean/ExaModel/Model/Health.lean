/-!
# M-Health — the healthcheck helper (`src/exabgp/application/healthcheck.py`, function `loop`)

What is modelled, reading the Python:

* `one(checks, state)`           → `one`      (the state function; `trigger` shortcuts inside)
* `trigger(target)`              → `trigger`  (RISING→UP when rise ≤ 1, FALLING→DOWN when fall ≤ 1;
                                               the `--execute` commands are reported as `Step.trig`)
* `exabgp(target)`               → `exabgpLines` (which targets write, one line per ip with the
                                               running `metric += increase`, the text of each line)
* the `while True` loop          → `mainLoop`  (fast / normal sleep, `--interval 0` → END, exit event)
* `main()`'s `deque.rotate(-start_ip)` → `rotateIps`

Inputs of one iteration: `Inp.file` = `os.path.exists(options.disable)`, `Inp.ok` = `check(...)`.
Python `int` options (`--rise`, `--fall`, metrics) are `Int` (argparse accepts 0 and negatives).
Strings are opaque; a line is the space-join of the tokens the f-strings put together.

Not modelled: the subprocess run by `check`, ip address setup/removal (reported as two flags so
the correspondence can compare when they are called), logging, privileges, the config file reader.
-/
namespace Exa.Health

/-- `class States(str, Enum)` -/
inductive St where
  | init | disabled | rising | falling | up | down | exit | end_
deriving DecidableEq, Repr, Inhabited

def St.name : St → String
  | .init => "INIT" | .disabled => "DISABLED" | .rising => "RISING" | .falling => "FALLING"
  | .up => "UP" | .down => "DOWN" | .exit => "EXIT" | .end_ => "END"

def St.all : List St := [.init, .disabled, .rising, .falling, .up, .down, .exit, .end_]

/-- The options `loop` reads (an `argparse.Namespace`). `none` = Python `None`. -/
structure Cfg where
  rise : Int := 3
  fall : Int := 3
  hasDisable : Bool := false          -- options.disable is not None
  debounce : Bool := false
  withdrawOnDown : Bool := false
  intervalZero : Bool := false        -- options.interval == 0
  noAck : Bool := false
  tty : Bool := false                 -- sys.stdout.isatty()
  ipDynamic : Bool := false
  ipSetup : Bool := false
  ips : List String := []             -- str(ip) of options.ips, in order
  nextHop : Option String := none
  upMetric : Int := 100
  downMetric : Int := 1000
  disabledMetric : Int := 500
  increase : Int := 1
  localPref : Int := -1
  community : Option String := none
  disabledCommunity : Option String := none
  extCommunity : Option String := none
  largeCommunity : Option String := none
  asPath : Option String := none
  upAsPath : Option String := none
  downAsPath : Option String := none
  disabledAsPath : Option String := none
  pathId : Option Int := none
  neighbors : List String := []       -- str(n) of options.neighbors ([] = None or empty)
deriving Repr

/-- Python truthiness of `str | None` -/
def truthy : Option String → Bool
  | some s => s != ""
  | none => false

/-! ## `exabgp(target)` -/

/-- targets for which `exabgp` writes lines: in (UP, DOWN, DISABLED, EXIT, END) and not END -/
def St.writes : St → Bool
  | .up | .down | .disabled | .exit => true
  | _ => false

/-- `vars(options).get(f'{target.value.lower()}_metric', 0)` -/
def metricOf (c : Cfg) : St → Int
  | .up => c.upMetric | .down => c.downMetric | .disabled => c.disabledMetric | _ => 0

/-- `vars(options).get(f'{target}_as_path', None)`, then `if as_path is None: as_path = options.as_path` -/
def asPathOf (c : Cfg) (t : St) : Option String :=
  let own := match t with
    | .up => c.upAsPath | .down => c.downAsPath | .disabled => c.disabledAsPath | _ => none
  match own with
  | none => c.asPath
  | some p => some p

/-- the selector part: `peer <n>`, `peer [ a , b ]` for several neighbors, or `peer *` -/
def selector (c : Cfg) : String :=
  if !c.neighbors.isEmpty && !c.neighbors.any (· == "*") then
    match c.neighbors with
    | [n] => "peer " ++ n
    | ns => "peer [ " ++ " , ".intercalate ns ++ " ]"
  else "peer *"

/-- `action == 'announce'` for this target -/
def announces (c : Cfg) (t : St) : Bool :=
  if c.withdrawOnDown || t == .exit then t == .up else true

/-- the community announced for this target, if any -/
def communityOf (c : Cfg) (t : St) : Option String :=
  if truthy c.community || truthy c.disabledCommunity then
    let community :=
      if (t == .down || t == .disabled) && truthy c.disabledCommunity then c.disabledCommunity else c.community
    if truthy community then community else none
  else none

/-- python `if options.path_id:` -/
def pathIdOf (c : Cfg) : Option Int :=
  match c.pathId with
  | some p => if p != 0 then some p else none
  | none => none

/-- The tokens of one written line, built in the order the f-strings append them. -/
def lineTokens (c : Cfg) (t : St) (metric : Int) (ip : String) : List String :=
  let action := if announces c t then "announce" else "withdraw"
  let command := [selector c, action]
  let announce := ["route", ip, "next-hop", c.nextHop.getD "self"]
  let announce :=
    if announces c t then
      let a := announce ++ ["med", toString metric]
      let a := if c.localPref ≥ 0 then a ++ ["local-preference", toString c.localPref] else a
      let a := match communityOf c t with
        | some x => a ++ ["community", "[", x, "]"]
        | none => a
      let a := if truthy c.extCommunity then a ++ ["extended-community", "[", c.extCommunity.getD "", "]"] else a
      let a := if truthy c.largeCommunity then a ++ ["large-community", "[", c.largeCommunity.getD "", "]"] else a
      let a := if truthy (asPathOf c t) then a ++ ["as-path", "[", (asPathOf c t).getD "", "]"] else a
      a
    else announce
  let announce := match pathIdOf c with
    | some p => announce ++ ["path-information", toString p]
    | none => announce
  command ++ announce

def line (c : Cfg) (t : St) (metric : Int) (ip : String) : String :=
  " ".intercalate (lineTokens c t metric ip)

/-- `for ip in options.ips: … ; metric += options.increase` -/
def exabgpLoop (c : Cfg) (t : St) : Int → List String → List String
  | _, [] => []
  | m, ip :: rest => line c t m ip :: exabgpLoop c t (m + c.increase) rest

/-- everything `exabgp(target)` writes on stdout -/
def exabgpLines (c : Cfg) (t : St) : List String :=
  if t.writes then exabgpLoop c t (metricOf c t) c.ips else []

/-- `setup_ips` is called before the lines -/
def setupBefore (c : Cfg) (t : St) : Bool := t.writes && t == .up && c.ipDynamic
/-- `remove_ips` is called after the lines -/
def removeAfter (c : Cfg) (t : St) : Bool :=
  t.writes && ((t == .exit && (c.ipDynamic || c.ipSetup)) || ((t == .down || t == .disabled) && c.ipDynamic))
/-- number of `sys.stdin.readline()` acknowledgements consumed -/
def acksFor (c : Cfg) (n : Nat) : Nat := if c.noAck || c.tty then 0 else n

/-! ## `trigger` and `one` -/

def trigger (c : Cfg) (t : St) : St :=
  if t == .rising && c.rise ≤ 1 then .up
  else if t == .falling && c.fall ≤ 1 then .down
  else t

structure Inp where
  file : Bool   -- os.path.exists(options.disable)
  ok : Bool     -- check(options.command, options.timeout)
deriving DecidableEq, Repr

/-- `disabled = options.disable is not None and os.path.exists(options.disable)` -/
def Inp.disabled (c : Cfg) (i : Inp) : Bool := c.hasDisable && i.file
/-- `successful = disabled or check(...)` -/
def Inp.successful (c : Cfg) (i : Inp) : Bool := i.disabled c || i.ok

/-- a successful check result that counts towards `rise`: not disabled and the check passed -/
def Inp.good (c : Cfg) (i : Inp) : Bool := !i.disabled c && i.ok
/-- a failed check result that counts towards `fall`: not disabled and the check failed -/
def Inp.bad (c : Cfg) (i : Inp) : Bool := !i.disabled c && !i.ok

/-- number of inputs at the END of a history that all satisfy `p` (the current streak) -/
def trailing {α : Type} (p : α → Bool) (l : List α) : Nat := (l.reverse.takeWhile p).length

/-- the loop variables `checks, state` -/
structure Loop where
  checks : Int := 0
  st : St := .init
deriving DecidableEq, Repr

/-- The FSM part of `one`. Third component: the value `trigger` returned if it was called.
    Fourth: `true` when Python raises `ValueError('Unhandled state')` (states EXIT/END, never
    reached: see `Lemmas/Health`), in which case the loop variables are returned unchanged. -/
def fsm (c : Cfg) (l : Loop) (i : Inp) : Loop × Option St × Bool :=
  let disabled := i.disabled c
  let successful := i.successful c
  if l.st != .disabled && disabled then
    let t := trigger c .disabled
    ({ l with st := t }, some t, false)
  else match l.st with
  | .init =>
    if successful && c.rise ≤ 1 then
      let t := trigger c .up
      ({ l with st := t }, some t, false)
    else if successful then
      let t := trigger c .rising
      ({ checks := 1, st := t }, some t, false)
    else
      let t := trigger c .falling
      ({ checks := 1, st := t }, some t, false)
  | .disabled =>
    if !disabled then
      let t := trigger c .init
      ({ l with st := t }, some t, false)
    else (l, none, false)
  | .rising =>
    if successful then
      let checks := l.checks + 1
      if checks ≥ c.rise then
        let t := trigger c .up
        ({ checks := checks, st := t }, some t, false)
      else ({ checks := checks, st := .rising }, none, false)
    else
      let t := trigger c .falling
      ({ checks := 1, st := t }, some t, false)
  | .falling =>
    if !successful then
      let checks := l.checks + 1
      if checks ≥ c.fall then
        let t := trigger c .down
        ({ checks := checks, st := t }, some t, false)
      else ({ checks := checks, st := .falling }, none, false)
    else
      let t := trigger c .rising
      ({ checks := 1, st := t }, some t, false)
  | .up =>
    if !successful then
      let t := trigger c .falling
      ({ checks := 1, st := t }, some t, false)
    else (l, none, false)
  | .down =>
    if successful then
      let t := trigger c .rising
      ({ checks := 1, st := t }, some t, false)
    else (l, none, false)
  | .exit | .end_ => (l, none, true)

/-- `checks, state = one(checks, state)` -/
def one (c : Cfg) (l : Loop) (i : Inp) : Loop := (fsm c l i).1

/-- the target `one` hands to `exabgp`: `if not options.debounce or state != state_before_iteration` -/
def handed (c : Cfg) (l : Loop) (i : Inp) : Option St :=
  let l' := one c l i
  if !c.debounce || l'.st != l.st then some l'.st else none

/-- what one iteration writes -/
def stepLines (c : Cfg) (l : Loop) (i : Inp) : List String :=
  match handed c l i with
  | some t => exabgpLines c t
  | none => []

/-- `if state in (States.FALLING, States.RISING): time.sleep(options.fast)` -/
def St.fastSleep : St → Bool
  | .rising | .falling => true
  | _ => false

/-! ## What is being announced

`announced` is the last target among UP / DOWN / DISABLED handed to `exabgp` — what the daemon
was last told (the only other writing target, EXIT, ends the program). -/

def St.isAnnounce : St → Bool
  | .up | .down | .disabled => true
  | _ => false

structure Run where
  loop : Loop := {}
  ann : Option St := none
deriving DecidableEq, Repr

def Run.step (c : Cfg) (r : Run) (i : Inp) : Run :=
  { loop := one c r.loop i
    ann := match handed c r.loop i with
      | some t => if t.isAnnounce then some t else r.ann
      | none => r.ann }

def Run.from (c : Cfg) (r : Run) (inputs : List Inp) : Run := inputs.foldl (Run.step c) r

/-- the state after a whole history of iterations, from program start -/
def run (c : Cfg) (inputs : List Inp) : Run := Run.from c {} inputs

/-- everything written during the iterations of a history -/
def linesFrom (c : Cfg) : Loop → List Inp → List String
  | _, [] => []
  | l, i :: rest => stepLines c l i ++ linesFrom c (one c l i) rest

/-! ## The `while True` loop with its exits

The script is a list of iteration inputs; when it is exhausted the exit event happens
(`KeyboardInterrupt` inside `time.sleep`, or SIGTERM: both call `exabgp(States.EXIT)`).
With `--interval 0` the loop ends by itself (`exabgp(States.END)`: nothing written) at the
first iteration that leaves the state outside RISING/FALLING. -/
def mainLoop (c : Cfg) : Loop → List Inp → List String
  | _, [] => exabgpLines c .exit
  | l, i :: rest =>
    let l' := one c l i
    if !l'.st.fastSleep && c.intervalZero then stepLines c l i
    else stepLines c l i ++ mainLoop c l' rest

/-- number of iterations `mainLoop` executes on a script -/
def mainLoopIters (c : Cfg) : Loop → List Inp → Nat
  | _, [] => 0
  | l, i :: rest =>
    let l' := one c l i
    if !l'.st.fastSleep && c.intervalZero then 1 else 1 + mainLoopIters c l' rest

/-- `options.ips = deque(options.ips); options.ips.rotate(-options.start_ip)` -/
def rotateIps (start : Int) (ips : List String) : List String :=
  if ips.isEmpty then ips else ips.rotateLeft (start % (ips.length : Int)).toNat

end Exa.Health
