import ExaModel.Bytes
import ExaModel.AList
/-!
# M-DecodeCache — the process-wide caches and class-level registers on the decode path

Modelled code (all of it *class-level*, i.e. shared by every session of the process):

* `AttributeCollection.unpack` (`bgp/message/update/attribute/collection.py`), with the class
  attributes `cached` / `previous`:

  ```
  if cls.cached and data == cls.previous:  return cls.cached          -- served
  attributes = cls().parse(data, negotiated)                           -- may raise
  if INTERNAL_TREAT_AS_WITHDRAW in attributes:  return attributes      -- state untouched
  if AS_PATH in attributes and AS4_PATH in attributes: attributes.merge_attributes()
  if MP_REACH_NLRI not in attributes and MP_UNREACH_NLRI not in attributes:
      cls.previous = data ; cls.cached = attributes                    -- stored
  else:
      cls.previous = b'' ; cls.cached = None                           -- reset
  return attributes
  ```

  `parse` + `merge_attributes` is the *pure parse function* and is a **parameter** of the model
  (`Parser.parse : Params → Bytes → ρ`): every theorem holds for every parse function.
  What the cache code looks at in a result is its `Kind`.  `cls.cached` is tested for
  *truthiness*: an `AttributeCollection` is a `MutableMapping`, an empty one is falsy, so a
  stored empty collection is never served (`Kind.empty`).
  The key of the unchanged code is the attribute bytes only; the key function is a parameter
  (`keyOf`) so that the repaired cache (bytes + what parsing reads) is the same definition.

* dict caches keyed by the complete input of a pure constructor: `Community.cache`,
  `LargeCommunity._instance_cache` (packed bytes ↦ instance), `UpdateCollection._EOR_CACHE`
  ((afi, safi) ↦ empty update), `CapabilityCode._cache` (int ↦ int object): `Policy.dict`.
  `Attribute.cache` (per attribute id) is never consulted on the decode path
  (`Attribute.unpack` is always called on the base class whose `CACHING` is `False`;
  `merge_attributes` only looks up and nothing stores under its key): no model needed, the
  correspondence observes that no object is ever shared through it.

* class attributes rewritten during dispatch: `Attribute.klass` and `Capability.klass` execute
  `kls.ID = <code being dispatched>` on the *class* registered for the code; instances read
  `self.ID` through the class.  `Reg` is that register, `dispatch` the rewrite.

Not modelled: the content of a parse result (opaque `ρ`), mutation of Python objects (values
are immutable here: what the model can say about sharing is said by `Reg`, the rest is checked on
the implementation by re-rendering every returned object).
-/
namespace Exa.DecodeCache

/-- What `AttributeCollection.unpack` looks at in the result of `parse`. -/
inductive Kind where
  /-- `parse` raised (a `Notify`, or an exception of a value decoder that is neither
      treat-as-withdraw nor discard): nothing is returned, the class state is untouched -/
  | error
  /-- `INTERNAL_TREAT_AS_WITHDRAW` is in the collection: returned, class state untouched -/
  | taw
  /-- `MP_REACH_NLRI` or `MP_UNREACH_NLRI` is in the collection: returned, cache reset -/
  | mp
  /-- no attribute at all: stored, but falsy, hence never served -/
  | empty
  /-- anything else: stored and served -/
  | plain
deriving DecidableEq, Repr

/-- What an access that was not served does to the store. -/
inductive Effect where
  | keep | reset | put
deriving DecidableEq, Repr

def Kind.effect : Kind → Effect
  | .error => .keep
  | .taw => .keep
  | .mp => .reset
  | .empty => .put
  | .plain => .put

/-- `bool(collection)` -/
def Kind.truthy : Kind → Bool
  | .empty => false
  | _ => true

/-- The negotiated parameters a decoder can read (`Negotiated`): the fields read anywhere under
    `bgp/message/update/attribute/` on the decode side (generated table `DecodeCacheTable.reads`). -/
structure Params where
  asn4 : Bool
  aigp : Bool
  /-- families for which a path identifier is expected (`negotiated.required`) -/
  addpath : List (Nat × Nat)
  families : List (Nat × Nat)
  /-- extended next hop negotiated (`negotiated.nexthop` non-empty) -/
  nexthop : Bool
deriving DecidableEq, Repr

/-- What the non-MP attribute decoders read: `negotiated.asn4` (AS_PATH, AGGREGATOR) and
    `negotiated.aigp` (AIGP).  The repaired key. -/
def Params.attrKey (p : Params) : Bool × Bool := (p.asn4, p.aigp)

/-- The pure parse function and the classification of its results: parameters of the model. -/
structure Parser (ρ : Type) where
  parse : Params → Bytes → ρ
  kind : ρ → Kind

/-- How one keyed cache behaves. -/
structure Policy (ρ : Type) where
  /-- one slot (`cached`/`previous`) or a dict -/
  single : Bool
  effect : ρ → Effect
  /-- the extra condition under which a stored value is served -/
  servable : ρ → Bool

/-- A keyed cache: association list, as a Python dict (a single-slot cache holds ≤ 1 entry). -/
abbrev Store (κ ρ : Type) := AList κ ρ

section
variable {κ ρ ι : Type} [DecidableEq κ]

/-- What an access that was not served leaves behind. -/
def Store.after (pol : Policy ρ) (st : Store κ ρ) (k : κ) (fresh : ρ) : Store κ ρ :=
  match pol.effect fresh with
  | .keep => st
  | .reset => []
  | .put => if pol.single then [(k, fresh)] else AList.insert k fresh st

/-- One access with key `k`, `fresh` being what computing from scratch yields
    (the computation is pure, so evaluating it eagerly changes nothing).
    Returns the new store, the value handed to the caller, and whether it came from the store. -/
def access (pol : Policy ρ) (st : Store κ ρ) (k : κ) (fresh : ρ) : Store κ ρ × ρ × Bool :=
  match AList.lookup k st with
  | some r => if pol.servable r then (st, r, true) else (Store.after pol st k fresh, fresh, false)
  | none => (Store.after pol st k fresh, fresh, false)

/-- A whole history of accesses; outputs in order. -/
def run (pol : Policy ρ) (keyOf : ι → κ) (compute : ι → ρ) : Store κ ρ → List ι → Store κ ρ × List ρ
  | st, [] => (st, [])
  | st, i :: is =>
    let a := access pol st (keyOf i) (compute i)
    let r := run pol keyOf compute a.1 is
    (r.1, a.2.1 :: r.2)

/-- The same, keeping the served/parsed flag of every step (what the driver prints). -/
def runHits (pol : Policy ρ) (keyOf : ι → κ) (compute : ι → ρ) : Store κ ρ → List ι → List Bool
  | _, [] => []
  | st, i :: is =>
    let a := access pol st (keyOf i) (compute i)
    a.2.2 :: runHits pol keyOf compute a.1 is

end

/-- Dict caches keyed by the whole input of a pure constructor. -/
def Policy.dict (ρ : Type) : Policy ρ := { single := false, effect := fun _ => .put, servable := fun _ => true }

section
variable {ρ : Type}

/-- The policy of `AttributeCollection.cached` / `previous`. -/
def Parser.policy (P : Parser ρ) : Policy ρ :=
  { single := true, effect := fun r => (P.kind r).effect, servable := fun r => (P.kind r).truthy }

/-- The single slot as the code holds it: `(previous, cached)`. -/
abbrev State (κ ρ : Type) := Store κ ρ

def State.slot {κ : Type} (st : State κ ρ) : Option (κ × ρ) := st.head?

/-- `AttributeCollection.unpack(data, negotiated)` with an explicit key function. -/
def unpackCachedK {κ : Type} [DecidableEq κ] (P : Parser ρ) (keyOf : Params × Bytes → κ)
    (st : State κ ρ) (x : Params × Bytes) : State κ ρ × ρ × Bool :=
  access P.policy st (keyOf x) (P.parse x.1 x.2)

/-- The key of the unchanged code: the attribute bytes, nothing else. -/
def keyBytes (x : Params × Bytes) : Bytes := x.2

/-- The key of the repaired code: the bytes and what the cached parse depends on. -/
def keyFull (x : Params × Bytes) : Bytes × (Bool × Bool) := (x.2, x.1.attrKey)

/-- **The code as it is.** -/
def unpackCached (P : Parser ρ) (st : State Bytes ρ) (x : Params × Bytes) : State Bytes ρ × ρ × Bool :=
  unpackCachedK P keyBytes st x

/-- **The code with the repaired key.** -/
def unpackCachedFixed (P : Parser ρ) (st : State (Bytes × (Bool × Bool)) ρ) (x : Params × Bytes) :
    State (Bytes × (Bool × Bool)) ρ × ρ × Bool :=
  unpackCachedK P keyFull st x

/-- What each message of a history yields, from an empty cache (a process that just started). -/
def decodeAll (P : Parser ρ) (h : List (Params × Bytes)) : List ρ :=
  (run P.policy keyBytes (fun x => P.parse x.1 x.2) [] h).2

def decodeAllFixed (P : Parser ρ) (h : List (Params × Bytes)) : List ρ :=
  (run P.policy keyFull (fun x => P.parse x.1 x.2) [] h).2

/-- What each message yields in a fresh process. -/
def decodeFresh (P : Parser ρ) (h : List (Params × Bytes)) : List ρ :=
  h.map (fun x => P.parse x.1 x.2)

end

/-! ## Class attributes rewritten during dispatch -/

/-- class ↦ current value of its `ID` class attribute -/
abbrev Reg := AList Nat Nat

/-- an object returned by a decoder: its class, and the code it was decoded from -/
structure Inst where
  cls : Nat
  code : Nat
deriving DecidableEq, Repr

/-- `klass(what)`: look the code up in the registry (code ↦ class), execute `kls.ID = what`,
    instantiate.  An unregistered code touches nothing (`None`: fallback class or `Notify`). -/
def dispatch (table : AList Nat Nat) (r : Reg) (code : Nat) : Reg × Option Inst :=
  match AList.lookup code table with
  | some cls => (AList.insert cls code r, some { cls := cls, code := code })
  | none => (r, none)

/-- `self.ID` evaluated now (instances do not store it; `dflt` = the value in the class body). -/
def Inst.currentID (r : Reg) (dflt : Nat) (i : Inst) : Nat := (AList.lookup i.cls r).getD dflt

/-- A history of dispatches: final register and the instances returned, in order. -/
def dispatchAll (table : AList Nat Nat) : Reg → List Nat → Reg × List (Option Inst)
  | r, [] => (r, [])
  | r, c :: cs =>
    let d := dispatch table r c
    let rest := dispatchAll table d.1 cs
    (rest.1, d.2 :: rest.2)

/-- No class is registered under two codes. -/
def SingleCode (table : AList Nat Nat) : Prop :=
  ∀ c c' k, AList.lookup c table = some k → AList.lookup c' table = some k → c = c'

end Exa.DecodeCache
