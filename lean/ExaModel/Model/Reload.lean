/-
  M-Reload: model of a configuration reload AS THE CODE PERFORMS IT, composed with M-Rib.

  Code modelled (src/exabgp):
    configuration/configuration.py   Configuration.reload / _reload / _clear / _rollback_reload /
                                     _abort_reload / _commit_reload
    configuration/neighbor/__init__.py  ParseNeighbor.post (records the neighbor) and attach_ribs
                                     (make_rib + `add_to_rib_watchdog` of every configured route on
                                     the LIVE rib), called from _commit_reload
    rib/__init__.py                  RIB.enable: the RIB is shared by neighbor name through `RIB._cache`
                                     (families replaced, `delete_cached_family`, `clear()` if adj-rib-out off)
    reactor/loop.py                  Reactor.reload: remove / new peer / reestablish / reconfigure
    reactor/peer/peer.py             Peer.reconfigure, Peer.reestablish, Peer._reset (neighbor swap),
                                     the `if self._neighbor:` block at the top of the `_main` loop
                                     (`replace_reload`), the `_main` prologue (`replace_restart`)
    bgp/neighbor/neighbor.py         Neighbor.__eq__ (restart or reconfigure), `.previous`, `.routes`

  A configuration is a list of process names and a list of neighbor records.  A neighbor record
  is (name = `Neighbor.name()`, key = abstract id of the fields `__eq__` compares besides the ones
  in the name / the families / adj-rib-out, families, adj-rib-out, configured routes).  A configured
  route is an M-Rib `Route` plus its optional watchdog (name, `withdraw`).

  The world is: `configuration.processes`, `configuration.neighbors` (a dict, by name), the RIBs of
  `RIB._cache` by name together with the transmission state of the session consuming them (an
  M-Rib `Sess`), the peers of `reactor._peers`, and `pending` = `ParseNeighbor._attach`, the
  neighbor sections parsed and not yet bound to their RIB (it outlives a reload only if nobody
  empties it: `ParseNeighbor.clear()`, called by `_cleanup()`, and `attach_ribs()` do).  (Before f9a9367 a failed reload left the parser
  uncleaned and the world carried a `dirty` flag; `_abort_reload` cleans it on every path now.)

  Stages of a reload (as of /repo commits f9a9367 and 1a8ae65):
    (0) the source is opened; a missing / empty / unreadable file returns False before anything
        is touched
    (a) `_clear`      processes := {}, neighbors := {}, both saved
    (b) parsing       neighbor by neighbor: builds Neighbor objects only (`post()` records the
                      neighbor in `ParseNeighbor._attach`); a fault can occur after any prefix
    (c) rollback      on EVERY failure path (`_abort_reload` = `_rollback_reload` + `_cleanup`):
                      neighbors and processes restored, parser cleaned
        or commit     `attach_ribs()`: for every neighbor `attach` (RIB.enable on the live RIB of
                      that name) and insertion of its routes into that RIB; then neighbors := new,
                      `previous` links, `_cleanup()`
    (d) Reactor.reload's choice per peer; `replace_reload` immediately (session down) or at the top
        of the next `_main` iteration (session up); `replace_restart` at the next establishment

  Not modelled: the text grammar (the correspondence goes through it), templates, the listener,
  process respawning, multi-session neighbors (one RIB per family), `paths_limit`.
-/
import ExaModel.Model.Rib

namespace Exa.Reload
open Exa Exa.Rib

deriving instance DecidableEq for Rib
deriving instance DecidableEq for Sess

/-- A route of the configuration: the route and its watchdog (name, `withdraw` flag). -/
structure CRoute where
  r  : Route
  wd : Option (Nat × Bool) := none
deriving DecidableEq, Repr

/-- A neighbor section of the configuration. -/
structure Nbr where
  name   : Nat            -- Neighbor.name(): peer address, local ip, local as, peer as, router id
  key    : Nat            -- the other session parameters compared by Neighbor.__eq__ (hold-time, …)
  fams   : List Nat
  adjOut : Bool
  routes : List CRoute
deriving DecidableEq, Repr

/-- `neighbor.routes` -/
def Nbr.plain (n : Nbr) : List Route := n.routes.map (·.r)

/-- `Neighbor.__eq__` for two neighbors of the same name ("compares the neighbor BUT NOT ITS ROUTES") -/
def Nbr.sameSession (a b : Nbr) : Bool := a.key == b.key && a.fams == b.fams && a.adjOut == b.adjOut

structure Config where
  procs : List Nat
  nbrs  : List Nbr
deriving DecidableEq, Repr

/-- A `Neighbor` object as a peer holds it: the record and its `.previous.routes` link. -/
structure NObj where
  nbr  : Nbr
  prev : Option (List Route)
deriving DecidableEq, Repr

structure PeerSt where
  cur      : NObj           -- peer.neighbor
  next     : Option NObj    -- peer._neighbor
  up       : Bool           -- fsm == ESTABLISHED
  teardown : Bool           -- peer._teardown set by reestablish()
deriving DecidableEq, Repr

structure World where
  procs : List Nat            -- configuration.processes
  nbrs  : AList Nat Nbr       -- configuration.neighbors
  ribs  : AList Nat Sess      -- RIB._cache by neighbor name (+ the session transmitting it)
  peers : AList Nat PeerSt    -- reactor._peers
  pending : List Nbr := []    -- ParseNeighbor._attach
deriving DecidableEq, Repr

def World.init : World := { procs := [], nbrs := [], ribs := [], peers := [], pending := [] }

/-! ### commit stage: `attach_ribs()` for one neighbor -/

/-- `make_rib()` → `RIB.enable(name, …)`: a RIB of that name in `RIB._cache` is re-used. -/
def attach (s : Option Sess) (n : Nbr) : Sess :=
  match s with
  | none => Sess.init n.adjOut n.fams
  | some s =>
    let rib1 : Rib := { s.rib with families := n.fams,
                                   cache := s.rib.cache.filter (fun p => n.fams.contains p.2.fam) }
    { s with rib := if n.adjOut then rib1 else rib1.clear }

/-- `add_to_rib_watchdog(route)` as an M-Rib operation. -/
def insertOp (cr : CRoute) : Op :=
  match cr.wd with
  | none => .add cr.r false
  | some (name, w) => .wdogAdd cr.r name w

/-- `_init_neighbor`: every configured route of a family of the neighbor, in file order. -/
def insertOps (n : Nbr) : List Op :=
  (n.routes.filter (fun cr => n.fams.contains cr.r.fam)).map insertOp

/-- What committing neighbor `n` does to the RIB of its name. -/
def parseSess (s : Option Sess) (n : Nbr) : Sess := ((attach s n).run (insertOps n)).1

def parseNbr (w : World) (n : Nbr) : World :=
  { w with ribs := AList.insert n.name (parseSess (AList.lookup n.name w.ribs) n) w.ribs }

/-! ### stages (0)–(c): `Configuration.reload()` -/

inductive Fault where
  | firstLine             -- the very first statement of the file is refused
  | syntax (k : Nat)      -- `parse_section` returns False after `k` neighbors were completed
  | exception (k : Nat)   -- a value parser raises something else than ValueError after `k` neighbors:
                          --   caught by `reload()`
  | missingFile           -- the source cannot be read (vanished, empty): refused before `_clear()`
  -- (a `validate()` error after the commit is NOT a failure path: `_reload` ends with
  --  `check = self.validate(); if check: return check; return True`, i.e. True either way)
deriving DecidableEq, Repr

def toDict (ns : List Nbr) : AList Nat Nbr := ns.foldl (fun d n => AList.insert n.name n d) []

/-- Binding a list of neighbor sections to their RIBs, in order. -/
def parseAll (w : World) (ns : List Nbr) : World := ns.foldl parseNbr w

/-- `attach_ribs()`: everything in `_attach` — the sections of this file, preceded by whatever an
    earlier parse left there — is bound to its RIB and the list is emptied. -/
def attachRibs (w : World) : World := { parseAll w w.pending with pending := [] }

/-- `_clear()`: what is saved is the first component.  (`_attach` is not touched.) -/
def clearStage (w : World) : (AList Nat Nbr × List Nat) × World :=
  ((w.nbrs, w.procs), { w with procs := [], nbrs := [] })

/-- Parsing neighbor sections: Neighbor objects are built and recorded in `_attach`
    (`post()` → `_init_neighbor`); RIBs are not touched. -/
def parseStage (w : World) (parsed : List Nbr) : World := { w with pending := w.pending ++ parsed }

/-- `_abort_reload()`: `_rollback_reload` (neighbors and processes as saved) + `_cleanup`
    (`ParseNeighbor.clear()` forgets the sections of the file that failed). -/
def abortStage (saved : AList Nat Nbr × List Nat) (w : World) : World :=
  { w with nbrs := saved.1, procs := saved.2, pending := [] }

/-- `Configuration.reload()`: the new world and the verdict. -/
def cfgReload (w : World) (c : Config) (f : Option Fault) : World × Bool :=
  match f with
  | some .missingFile => (w, false)
  | some .firstLine =>
    let r := clearStage w
    (abortStage r.1 (parseStage r.2 []), false)
  | some (.syntax k) =>
    let r := clearStage w
    (abortStage r.1 (parseStage r.2 (c.nbrs.take k)), false)
  | some (.exception k) =>
    let r := clearStage w
    (abortStage r.1 (parseStage r.2 (c.nbrs.take k)), false)
  | none =>
    let r := clearStage w
    ({ attachRibs (parseStage r.2 c.nbrs) with procs := c.procs, nbrs := toDict c.nbrs }, true)

/-! ### stage (d): `Reactor.reload()` -/

/-- `peer.remove()` for every peer whose key is not configured any more (`stop()` uncaches the RIB;
    the reactor drops the peer when its task has ended). -/
def removePeers (w : World) : World :=
  let gone := (AList.keys w.peers).filter (fun k => (AList.lookup k w.nbrs).isNone)
  { w with peers := w.peers.filter (fun p => (AList.lookup p.1 w.nbrs).isSome),
           ribs := w.ribs.filter (fun p => !gone.contains p.1) }

/-- The per-peer decision, as a function of what exists under that name.
    Returns the peer and, when the RIB is touched now (`reconfigure` of a peer that is not
    established), the RIB. -/
def decidePeer (prev : Option (List Route)) (n : Nbr) (p : Option PeerSt) (s : Option Sess) :
    PeerSt × Option Sess :=
  match p with
  | none => ({ cur := { nbr := n, prev := prev }, next := none, up := false, teardown := false }, none)  -- Peer(neighbor, self)
  | some p =>
    -- `Peer._replaced_routes` (/repo F106): the definition being replaced may never have reached the RIB (a
    -- re-establishment is pending for it, or a reload is waiting for the loop top): the RIB still reflects the
    -- one IT replaced — plus the routes the parser queued for the one being replaced — and the new definition
    -- inherits both, oldest first
    let held := p.next.getD p.cur
    let prev := match held.prev with | some x => some (x ++ prev.getD []) | none => prev
    let obj : NObj := { nbr := n, prev := prev }
    if !(p.cur.nbr.sameSession n) then
      ({ p with teardown := true, next := some obj }, none)                             -- reestablish
    else if p.up then
      ({ p with cur := obj, next := some obj }, none)                                   -- reconfigure, established
    else
      ({ p with cur := { obj with prev := none }, next := none },                       -- reconfigure, not established
       s.map (fun s => { s with rib := s.rib.replaceReload (prev.getD []) n.plain }))

def decideOne (prevs : AList Nat Nbr) (w : World) (n : Nbr) : World :=
  let r := decidePeer ((AList.lookup n.name prevs).map Nbr.plain) n
             (AList.lookup n.name w.peers) (AList.lookup n.name w.ribs)
  { w with peers := AList.insert n.name r.1 w.peers,
           ribs := match r.2 with
                   | some s => AList.insert n.name s w.ribs
                   | none => w.ribs }

/-- `Reactor.reload()` -/
def reactorReload (w : World) (c : Config) (f : Option Fault) : World × Bool :=
  let r := cfgReload w c f
  if r.2 then
    let w2 := removePeers r.1
    ((AList.values w2.nbrs).foldl (decideOne w.nbrs) w2, true)
  else (r.1, false)

/-! ### what happens to one peer afterwards -/

def World.setRib (w : World) (a : Nat) (s : Sess) : World := { w with ribs := AList.insert a s w.ribs }
def World.setPeer (w : World) (a : Nat) (p : PeerSt) : World := { w with peers := AList.insert a p w.peers }

/-- top of the `_main` loop: `if self._neighbor: replace_reload(previous, current)` -/
def World.loopTop (w : World) (a : Nat) : World :=
  match AList.lookup a w.peers, AList.lookup a w.ribs with
  | some p, some s =>
    if p.up && !p.teardown then
      match p.next with
      | some o =>
        (w.setRib a (s.step (.reload (o.prev.getD []) o.nbr.plain)).1).setPeer a
          { p with cur := { o with prev := none }, next := none }
      | none => w
    else w
  | _, _ => w

/-- `_reset`: session lost (network error, or the NOTIFICATION 6/3 a reestablish() asks for):
    queues dropped, cache kept, the pending neighbor definition takes over. -/
def World.lost (w : World) (a : Nat) : World :=
  match AList.lookup a w.peers, AList.lookup a w.ribs with
  | some p, some s =>
    (w.setRib a (s.step .lost).1).setPeer a
      { p with up := false, teardown := false, cur := p.next.getD p.cur, next := none }
  | _, _ => w

/-- `_establish` succeeded, prologue of `_main`: `replace_restart(previous, current)`.
    With `_teardown` pending the session is closed at once (`raise Notify(6, 3)` → `_reset`). -/
def World.establish (w : World) (a : Nat) : World :=
  match AList.lookup a w.peers, AList.lookup a w.ribs with
  | some p, some s =>
    if p.up then w
    else if p.teardown then w.lost a
    else
      (w.setRib a (s.step (.established (p.cur.prev.getD []) p.cur.nbr.plain)).1).setPeer a
        { p with up := true, cur := { p.cur with prev := none } }
  | _, _ => w

/-- An API command (or any M-Rib operation) on the RIB of a configured neighbor that has a peer:
    `reactor.peers()` ∩ `configuration.neighbors`. -/
def World.api (w : World) (a : Nat) (op : Op) : World :=
  match AList.lookup a w.nbrs, AList.lookup a w.peers, AList.lookup a w.ribs with
  | some _, some _, some s => w.setRib a (s.step op).1
  | _, _, _ => w

/-- One transmission step of an established peer (`_send_route_updates`, one message). -/
def World.tick (w : World) (a : Nat) : World × List Ev :=
  match AList.lookup a w.peers, AList.lookup a w.ribs with
  | some p, some s =>
    if p.up then
      let s1 := (s.step .start).1
      let r := s1.step .next
      (w.setRib a r.1, r.2)
    else (w, [])
  | _, _ => (w, [])

/-- Transmission steps of an established peer (`start` / `next` of M-Rib), e.g. the rest of the
    `_main` iteration a reload interrupted. -/
def World.xmit (w : World) (a : Nat) (ops : List Op) : World × List Ev :=
  match AList.lookup a w.peers, AList.lookup a w.ribs with
  | some p, some s => if p.up then (w.setRib a (s.run ops).1, (s.run ops).2) else (w, [])
  | _, _ => (w, [])

/-- Everything an established peer still sends. -/
def World.drain (w : World) (a : Nat) : World × List Ev :=
  match AList.lookup a w.peers, AList.lookup a w.ribs with
  | some p, some s => if p.up then (w.setRib a s.drain.1, s.drain.2) else (w, [])
  | _, _ => (w, [])

/-! ### the intended result -/

/-- The last route the configuration lists for prefix `m`. -/
def lastOf : List Route → Nat → Option Route
  | [], _ => none
  | r :: t, m => (lastOf t m).orElse (fun _ => if r.nlri = m then some r else none)

def hasNlri (rs : List Route) (m : Nat) : Bool := rs.any (fun r => r.nlri == m)

/-- What the peer must hold for prefix `m` after the reload, given what the Adj-RIB-Out said
    before (`cv`, i.e. configured + API routes), the routes of the old and of the new section:
    the new configuration's route; nothing if the prefix was configured and is not any more;
    otherwise what was there (a route announced through the API). -/
def deltaView (cv : Nat → Option (Nat × Nat)) (prev new : List Route) (m : Nat) : Option (Nat × Nat) :=
  match lastOf new m with
  | some r => some (r.attr, r.nh)
  | none => if hasNlri prev m then none else cv m

end Exa.Reload
