import ExaModel.Bytes
/-!
# M-Flow — FlowSpec NLRI (RFC 8955 / RFC 8956) reference codec, and a model of ExaBGP's codec

Three layers, all executable and import-free:

* **Raw layer** (`RawComp`, `encodeRaw`, `decodeRaw`): the byte grammar of a FlowSpec NLRI payload —
  a sequence of components, each either a prefix (type, length[, offset], pattern bytes) or a
  list of `{operator byte, value bytes}` pairs closed by the end-of-list bit.  Nothing is
  interpreted here, so `decodeRaw` has an exact inverse (`encodeRaw`).
* **Rule layer** (`Rule = List Comp`, `encodeFlow`, `decodeFlow`, `encodeNlri`, `decodeNlri`):
  the RFC meaning.  Operator byte `e|a|len(2)|0|lt|gt|eq` (numeric) / `e|a|len(2)|0|0|not|m`
  (bitmask); value in `1 <<< len` bytes big-endian; reserved bits and the AND bit of the first
  operator are ignored on decoding (RFC 8955 §4.2.1.1/§4.2.1.2); prefixes carry
  `length - offset` pattern bits padded to an octet (RFC 8956 §3.1; offset = 0 for IPv4);
  NLRI length in one octet below 240 and `0xFnnn` otherwise (RFC 8955 §4.1); for flow-vpn the
  8-byte route distinguisher comes first (RFC 8955 §8).
* **ExaBGP layer** (`exaPack`, `exaDecode`): what `/repo/src/exabgp/bgp/message/update/nlri/flow.py`
  does, where its mechanism differs: rules are collected in a dict by component ID (`Flow.add`),
  the family is settled once all rules are known (`Flow.settle_family`), emitted by `sorted(ID)`, the
  end-of-list bit is cleared on every operator and set on the last one, the value width is
  chosen by the `IOperationByte/ByteShort/ByteShortLong.encode` family, IPv6 prefixes are
  written with `ceil(length/8)` bytes of the *address* whatever the offset; the decoder keeps
  components in a dict by ID (no order check) and stores operator bytes masked to their meaning.
  Traffic actions are the 8-byte extended communities of `traffic.py`.
-/
namespace Exa.Flow

/-! ## Big-endian fields of n bytes -/

/-- `n` bytes, big-endian, of `v` (truncating). -/
def beN : Nat → Nat → Bytes
  | 0, _ => []
  | n + 1, v => (v / 256 ^ n % 256) :: beN n v

/-- big-endian value of a byte string -/
def rdN (bs : Bytes) : Nat := bs.foldl (fun acc b => acc * 256 + b) 0

/-! ## Abstract rules -/

/-- One `{operator, value}` pair.  Numeric operators use `lt gt eq`; bitmask operators use
    `gt` as NOT and `eq` as MATCH (`lt` is then a reserved bit and is `false`). -/
structure Term where
  andBit : Bool
  lt : Bool
  gt : Bool
  eq : Bool
  value : Nat
deriving DecidableEq, Repr

/-- A component.  `pat` is the matched bit pattern as a number (`len - off` bits). -/
inductive Comp where
  | prefix4 (ty len pat : Nat)
  | prefix6 (ty len off pat : Nat)
  | ops (ty : Nat) (terms : List Term)
deriving DecidableEq, Repr

abbrev Rule := List Comp

def Comp.ty : Comp → Nat
  | .prefix4 t _ _ => t
  | .prefix6 t _ _ _ => t
  | .ops t _ => t

inductive Kind where
  | prefix | numeric | bitmask
deriving DecidableEq, Repr

/-- RFC 8955 §4.2.2 (types 1–12) and RFC 8956 §3 (type 13, IPv6 only). -/
def kindOf (v6 : Bool) (t : Nat) : Option Kind :=
  if t = 1 ∨ t = 2 then some .prefix
  else if t = 9 ∨ t = 12 then some .bitmask
  else if 3 ≤ t ∧ t ≤ 11 then some .numeric
  else if t = 13 ∧ v6 = true then some .numeric
  else none

/-- Largest value width (bytes) the RFCs allow for a component type: 3 protocol 1; 4,5,6 ports
    1–2; 7,8 ICMP 1; 9 TCP flags 1–2; 10 packet length 1–2; 11 DSCP 1; 12 fragment 1;
    13 flow label 1–4. -/
def maxWidth (t : Nat) : Nat :=
  if t = 4 ∨ t = 5 ∨ t = 6 ∨ t = 9 ∨ t = 10 then 2
  else if t = 13 then 4
  else 1

/-- The RFC component table as data: (type, kind code 0 prefix / 1 numeric / 2 bitmask, allowed widths). -/
def specTable (v6 : Bool) : List (Nat × Nat × List Nat) :=
  [(1, 0, []), (2, 0, []), (3, 1, [1]), (4, 1, [1, 2]), (5, 1, [1, 2]), (6, 1, [1, 2]),
   (7, 1, [1]), (8, 1, [1]), (9, 2, [1, 2]), (10, 1, [1, 2]), (11, 1, [1]), (12, 2, [1])]
  ++ (if v6 then [(13, 1, [1, 2, 4])] else [])

def Kind.code : Kind → Nat
  | .prefix => 0
  | .numeric => 1
  | .bitmask => 2

/-- widths `1,2,4,8` not above `m` -/
def widthsUpTo (m : Nat) : List Nat := [1, 2, 4, 8].filter (· ≤ m)

/-! ## Raw layer -/

structure RawTerm where
  op : Nat
  val : Bytes
deriving DecidableEq, Repr

inductive RawComp where
  | prefix4 (ty len : Nat) (bytes : Bytes)
  | prefix6 (ty len off : Nat) (bytes : Bytes)
  | ops (ty : Nat) (terms : List RawTerm)
deriving DecidableEq, Repr

def RawComp.ty : RawComp → Nat
  | .prefix4 t _ _ => t
  | .prefix6 t _ _ _ => t
  | .ops t _ => t

def encodeRawTerm (t : RawTerm) : Bytes := t.op :: t.val

def encodeRawComp : RawComp → Bytes
  | .prefix4 ty len bs => ty :: len :: bs
  | .prefix6 ty len off bs => ty :: len :: off :: bs
  | .ops ty ts => ty :: ts.flatMap encodeRawTerm

def encodeRaw (cs : List RawComp) : Bytes := cs.flatMap encodeRawComp

/-- operator byte fields -/
def opEol (b : Nat) : Bool := b / 128 % 2 = 1
def opAnd (b : Nat) : Bool := b / 64 % 2 = 1
def opWidth (b : Nat) : Nat := 2 ^ (b / 16 % 4)
def opLt (b : Nat) : Bool := b / 4 % 2 = 1
def opGt (b : Nat) : Bool := b / 2 % 2 = 1
def opEq (b : Nat) : Bool := b % 2 = 1

inductive Err where
  | fuel | empty | lengthShort | rdShort | undefinedType | prefixLen | prefixShort
  | noEol | valueShort | order
deriving DecidableEq, Repr

/-- number of pattern bytes for `bits` pattern bits -/
def patBytes (bits : Nat) : Nat := (bits + 7) / 8

/-- `{op, value}+` up to and including the pair carrying the end-of-list bit. -/
def decodeOps : Nat → Bytes → Except Err (List RawTerm × Bytes)
  | 0, _ => .error .fuel
  | _ + 1, [] => .error .noEol
  | f + 1, b :: rest =>
    if rest.length < opWidth b then .error .valueShort
    else
      let t : RawTerm := ⟨b, rest.take (opWidth b)⟩
      if opEol b then .ok ([t], rest.drop (opWidth b))
      else
        match decodeOps f (rest.drop (opWidth b)) with
        | .ok (ts, r) => .ok (t :: ts, r)
        | .error e => .error e

/-- RFC 8956 §3.1: `length = 0 ∧ offset = 0`, or `offset < length < 129`. -/
def p6ok (len off : Nat) : Bool := (len = 0 ∧ off = 0) ∨ (off < len ∧ len ≤ 128)

/-- The component sequence of an NLRI payload. `p6bits len off` is the number of pattern bits
    carried by an IPv6 prefix (`none` = malformed): the RFC reading is `rfcP6`. -/
def decodeComps (v6 : Bool) (p6bits : Nat → Nat → Option Nat) : Nat → Bytes → Except Err (List RawComp)
  | 0, _ => .error .fuel
  | _ + 1, [] => .ok []
  | f + 1, t :: rest =>
    match kindOf v6 t with
    | none => .error .undefinedType
    | some .prefix =>
      if v6 then
        match rest with
        | len :: off :: r2 =>
          match p6bits len off with
          | none => .error .prefixLen
          | some bits =>
            if r2.length < patBytes bits then .error .prefixShort
            else
              match decodeComps v6 p6bits f (r2.drop (patBytes bits)) with
              | .ok cs => .ok (.prefix6 t len off (r2.take (patBytes bits)) :: cs)
              | .error e => .error e
        | _ => .error .prefixShort
      else
        match rest with
        | len :: r2 =>
          if 32 < len then .error .prefixLen
          else if r2.length < patBytes len then .error .prefixShort
          else
            match decodeComps v6 p6bits f (r2.drop (patBytes len)) with
            | .ok cs => .ok (.prefix4 t len (r2.take (patBytes len)) :: cs)
            | .error e => .error e
        | _ => .error .prefixShort
    | some _ =>
      match decodeOps f rest with
      | .error e => .error e
      | .ok (ts, r) =>
        match decodeComps v6 p6bits f r with
        | .ok cs => .ok (.ops t ts :: cs)
        | .error e => .error e

def rfcP6 (len off : Nat) : Option Nat := if p6ok len off then some (len - off) else none

def decodeRaw (v6 : Bool) (bs : Bytes) : Except Err (List RawComp) :=
  decodeComps v6 rfcP6 (bs.length + 1) bs

/-! ## Rule layer: RFC meaning of the raw components -/

def b2n (b : Bool) : Nat := if b then 1 else 0

/-- operator byte `e|a|len|0|lt|gt|eq` -/
def opByte (eol and : Bool) (code : Nat) (lt gt eq : Bool) : Nat :=
  b2n eol * 128 + b2n and * 64 + code * 16 + b2n lt * 4 + b2n gt * 2 + b2n eq

/-- length code of the shortest of 1, 2, 4, 8 bytes holding `v` -/
def widthCode (v : Nat) : Nat :=
  if v < 256 then 0 else if v < 65536 then 1 else if v < 4294967296 then 2 else 3

def toRawTerm (last : Bool) (t : Term) : RawTerm :=
  ⟨opByte last t.andBit (widthCode t.value) t.lt t.gt t.eq, beN (2 ^ widthCode t.value) t.value⟩

def toRawTerms : List Term → List RawTerm
  | [] => []
  | [t] => [toRawTerm true t]
  | t :: t' :: ts => toRawTerm false t :: toRawTerms (t' :: ts)

/-- pattern bytes: `bits` bits of `pat`, left-aligned, zero padding -/
def patEncode (bits pat : Nat) : Bytes := beN (patBytes bits) (pat * 2 ^ (patBytes bits * 8 - bits))

/-- padding bits are ignored on decoding -/
def patDecode (bits : Nat) (bs : Bytes) : Nat := rdN bs / 2 ^ (patBytes bits * 8 - bits)

def toRaw : Comp → RawComp
  | .prefix4 ty len pat => .prefix4 ty len (patEncode len pat)
  | .prefix6 ty len off pat => .prefix6 ty len off (patEncode (len - off) pat)
  | .ops ty ts => .ops ty (toRawTerms ts)

/-- the RFC reference encoder of a rule (components in the order given: a well-formed rule is ascending) -/
def encodeFlow (r : Rule) : Bytes := encodeRaw (r.map toRaw)

/-- Meaning of one operator: reserved bits ignored (`lt` is reserved for bitmask components). -/
def interpTerm (numeric : Bool) (first : Bool) (rt : RawTerm) : Term :=
  ⟨if first then false else opAnd rt.op, if numeric then opLt rt.op else false, opGt rt.op, opEq rt.op, rdN rt.val⟩

def interpTerms (numeric : Bool) : List RawTerm → List Term
  | [] => []
  | t :: ts => interpTerm numeric true t :: ts.map (interpTerm numeric false)

def interp (v6 : Bool) : RawComp → Comp
  | .prefix4 ty len bs => .prefix4 ty len (patDecode len bs)
  | .prefix6 ty len off bs => .prefix6 ty len off (patDecode (len - off) bs)
  | .ops ty ts => .ops ty (interpTerms (kindOf v6 ty == some .numeric) ts)

/-- strictly ascending -/
def ascending : List Nat → Bool
  | [] => true
  | [_] => true
  | a :: b :: t => a < b && ascending (b :: t)

/-- RFC reference decoder of an NLRI payload (after length and route distinguisher). -/
def decodeFlow (v6 : Bool) (bs : Bytes) : Except Err Rule :=
  match decodeRaw v6 bs with
  | .error e => .error e
  | .ok rc => if ascending (rc.map RawComp.ty) then .ok (rc.map (interp v6)) else .error .order

/-! ### Well-formed rules -/

def WFTerm (ty : Nat) (numeric : Bool) (t : Term) : Prop :=
  t.value < 256 ^ maxWidth ty ∧ (numeric = false → t.lt = false)

def WFComp (v6 : Bool) : Comp → Prop
  | .prefix4 ty len pat => v6 = false ∧ (ty = 1 ∨ ty = 2) ∧ len ≤ 32 ∧ pat < 2 ^ len
  | .prefix6 ty len off pat => v6 = true ∧ (ty = 1 ∨ ty = 2) ∧ p6ok len off = true ∧ pat < 2 ^ (len - off)
  | .ops ty ts =>
    (kindOf v6 ty = some .numeric ∨ kindOf v6 ty = some .bitmask) ∧ ts ≠ [] ∧
    (∀ t ∈ ts, WFTerm ty (kindOf v6 ty == some .numeric) t) ∧
    (∀ t ∈ ts.take 1, t.andBit = false)

instance (ty : Nat) (n : Bool) (t : Term) : Decidable (WFTerm ty n t) := by unfold WFTerm; exact inferInstance

instance (v6 : Bool) (c : Comp) : Decidable (WFComp v6 c) := by
  cases c <;> simp only [WFComp] <;> exact inferInstance

def WFRule (v6 : Bool) (r : Rule) : Prop :=
  (∀ c ∈ r, WFComp v6 c) ∧ ascending (r.map Comp.ty) = true

/-! ### NLRI: length prefix and route distinguisher -/

/-- RFC 8955 §4.1 -/
def lengthPrefix (n : Nat) : Bytes := if n < 240 then [n] else [240 + n / 256, n % 256]

structure Nlri where
  rd : Option Bytes
  rule : Rule
deriving DecidableEq, Repr

def nlriPayload (x : Nlri) : Bytes := x.rd.getD [] ++ encodeFlow x.rule

def encodeNlri (x : Nlri) : Bytes := lengthPrefix (nlriPayload x).length ++ nlriPayload x

/-- Split `length ++ payload ++ rest`. `hi n` is the contribution of the low nibble `n` of the first
    octet of the two-octet form (`n * 256` in the RFC). -/
def splitNlri (hi : Nat → Nat) : Bytes → Except Err (Bytes × Bytes)
  | [] => .error .empty
  | b :: t =>
    if b / 16 % 16 = 15 then
      match t with
      | [] => .error .lengthShort
      | c :: t2 =>
        let n := hi (b % 16) + c
        if t2.length < n then .error .lengthShort else .ok (t2.take n, t2.drop n)
    else if t.length < b then .error .lengthShort else .ok (t.take b, t.drop b)

def rfcHi (n : Nat) : Nat := n * 256

/-- RFC reference decoder of one NLRI at the head of `bs`; returns what follows it. -/
def decodeNlri (v6 vpn : Bool) (bs : Bytes) : Except Err (Nlri × Bytes) :=
  match splitNlri rfcHi bs with
  | .error e => .error e
  | .ok (payload, rest) =>
    if vpn then
      if payload.length < 8 then .error .rdShort
      else
        match decodeFlow v6 (payload.drop 8) with
        | .error e => .error e
        | .ok r => .ok (⟨some (payload.take 8), r⟩, rest)
    else
      match decodeFlow v6 payload with
      | .error e => .error e
      | .ok r => .ok (⟨none, r⟩, rest)

instance (v6 : Bool) (r : Rule) : Decidable (WFRule v6 r) := by unfold WFRule; exact inferInstance

def WFNlri (v6 vpn : Bool) (x : Nlri) : Prop :=
  WFRule v6 x.rule ∧ (nlriPayload x).length < 4096 ∧
  (if vpn then ∃ rd, x.rd = some rd ∧ rd.length = 8 else x.rd = none)

/-! ## Traffic actions (RFC 8955 §7, RFC 7674, RFC 8956 §6 keep the same 8-byte layout) -/

/-- IEEE 754 binary32 bit pattern of a natural number, round to nearest even (what C `(float)n`
    and `struct.pack('!f', n)` produce).  Values ≥ 2^128 are outside the model's domain. -/
def f32OfNat (n : Nat) : Nat :=
  if n = 0 then 0
  else
    let e := Nat.log2 n
    if e ≤ 23 then (e + 127) * 8388608 + (n * 2 ^ (23 - e) - 8388608)
    else
      let sh := e - 23
      let q := n / 2 ^ sh
      let r := n % 2 ^ sh
      let half := 2 ^ (sh - 1)
      let q' := if r > half ∨ (r = half ∧ q % 2 = 1) then q + 1 else q
      (e + 127) * 8388608 + (q' - 8388608)

inductive Action where
  /-- traffic-rate-bytes: 2-byte AS, IEEE float (as its 32-bit pattern) -/
  | rateBytes (asn f32 : Nat)
  | ratePackets (asn f32 : Nat)
  /-- traffic-action: S (sample, bit 46), T (terminal, bit 47) -/
  | trafficAction (sample terminal : Bool)
  /-- rt-redirect, 2-byte AS : 4-byte value -/
  | redirectAS2 (asn nn : Nat)
  /-- rt-redirect, IPv4 : 2-byte value -/
  | redirectIP4 (ip nn : Nat)
  /-- rt-redirect, 4-byte AS : 2-byte value -/
  | redirectAS4 (asn nn : Nat)
  /-- traffic-marking: DSCP in the six low bits of the last octet -/
  | mark (dscp : Nat)
  /-- draft-simpson-idr-flowspec-redirect (0x0800): use the UPDATE's next hop; C = copy -/
  | nexthopSimpson (copy : Bool)
  /-- draft-ietf-idr-flowspec-redirect-ip (0x010c): IPv4 next hop, C bit -/
  | nexthopIetf4 (ip : Nat) (copy : Bool)
deriving DecidableEq, Repr

def encodeAction : Action → Bytes
  | .rateBytes asn f => [0x80, 0x06] ++ beN 2 asn ++ beN 4 f
  | .ratePackets asn f => [0x80, 0x0c] ++ beN 2 asn ++ beN 4 f
  | .trafficAction s t => [0x80, 0x07, 0, 0, 0, 0, 0, b2n s * 2 + b2n t]
  | .redirectAS2 asn nn => [0x80, 0x08] ++ beN 2 asn ++ beN 4 nn
  | .redirectIP4 ip nn => [0x81, 0x08] ++ beN 4 ip ++ beN 2 nn
  | .redirectAS4 asn nn => [0x82, 0x08] ++ beN 4 asn ++ beN 2 nn
  | .mark d => [0x80, 0x09, 0, 0, 0, 0, 0, d]
  | .nexthopSimpson c => [0x08, 0x00, 0, 0, 0, 0, 0, b2n c]
  | .nexthopIetf4 ip c => [0x01, 0x0c] ++ beN 4 ip ++ [0, b2n c]

def WFAction : Action → Prop
  | .rateBytes asn f => asn < 65536 ∧ f < 4294967296
  | .ratePackets asn f => asn < 65536 ∧ f < 4294967296
  | .trafficAction _ _ => True
  | .redirectAS2 asn nn => asn < 65536 ∧ nn < 4294967296
  | .redirectIP4 ip nn => ip < 4294967296 ∧ nn < 65536
  | .redirectAS4 asn nn => asn < 4294967296 ∧ nn < 65536
  | .mark d => d < 64
  | .nexthopSimpson _ => True
  | .nexthopIetf4 ip _ => ip < 4294967296

/-- reference reading of an 8-byte extended community as a traffic action -/
def decodeAction (bs : Bytes) : Option Action :=
  match bs with
  | [t, s, a, b, c, d, e, f] =>
    if t = 0x80 ∧ s = 0x06 then some (.rateBytes (rdN [a, b]) (rdN [c, d, e, f]))
    else if t = 0x80 ∧ s = 0x0c then some (.ratePackets (rdN [a, b]) (rdN [c, d, e, f]))
    else if t = 0x80 ∧ s = 0x07 then some (.trafficAction (f / 2 % 2 = 1) (f % 2 = 1))
    else if t = 0x80 ∧ s = 0x08 then some (.redirectAS2 (rdN [a, b]) (rdN [c, d, e, f]))
    else if t = 0x81 ∧ s = 0x08 then some (.redirectIP4 (rdN [a, b, c, d]) (rdN [e, f]))
    else if t = 0x82 ∧ s = 0x08 then some (.redirectAS4 (rdN [a, b, c, d]) (rdN [e, f]))
    else if t = 0x80 ∧ s = 0x09 then some (.mark (f % 64))
    else if t = 0x08 ∧ s = 0x00 then some (.nexthopSimpson (f % 2 = 1))
    else if t = 0x01 ∧ s = 0x0c then some (.nexthopIetf4 (rdN [a, b, c, d]) (f % 2 = 1))
    else none
  | _ => none

/-- Text actions as `configuration/flow/parser.py` maps them. -/
inductive TAction where
  | discard
  | rateLimitBytes (n : Nat)
  | rateLimitPackets (n : Nat)
  | redirect (asn nn : Nat)
  | markDscp (d : Nat)
  | action (sample terminal : Bool)
  | redirectToNexthop
  | redirectIp (ip : Nat)      -- `redirect 1.2.3.4`: simpson community + next hop (next hop not modelled here)
  | copyIp (ip : Nat)
  | redirectNexthopIetf (ip : Nat)
deriving DecidableEq, Repr

def maxRateBps : Nat := 1000000000000

/-- `none` = the parser refuses the text. -/
def exaAction : TAction → Option Action
  | .discard => some (.rateBytes 0 0)
  | .rateLimitBytes n => some (.rateBytes 0 (f32OfNat (if n > maxRateBps then maxRateBps else n)))
  | .rateLimitPackets n => some (.ratePackets 0 (f32OfNat n))
  | .redirect asn nn =>
    if asn ≥ 4294967296 then none
    else if asn > 65535 then (if nn ≥ 65536 then none else some (.redirectAS4 asn nn))
    else if nn ≥ 4294967296 then none else some (.redirectAS2 asn nn)
  | .markDscp d => if d > 63 then none else some (.mark d)
  | .action s t => if s || t then some (.trafficAction s t) else none
  | .redirectToNexthop => some (.nexthopSimpson false)
  | .redirectIp _ => some (.nexthopSimpson false)
  | .copyIp _ => some (.nexthopSimpson true)
  | .redirectNexthopIetf ip => some (.nexthopIetf4 ip false)

/-! ## ExaBGP layer: encoder -/

/-- A component as the text parser builds it (`configuration/flow/parser.py`), in text order.
    Prefixes keep the whole address: `make_prefix4/6` slice `raw[:ceil(len/8)]` without masking.
    `flags` is `IOperation.operations` (AND 0x40 and the operator bits), `value` the converter's result. -/
inductive TComp where
  | prefix4 (ty addr len : Nat)
  | prefix6 (ty addr len off : Nat)
  | op (ty flags : Nat) (value : Int)
deriving DecidableEq, Repr

def TComp.ty : TComp → Nat
  | .prefix4 t _ _ => t
  | .prefix6 t _ _ _ => t
  | .op t _ _ => t

def TComp.isV6 : TComp → Bool
  | .prefix6 _ _ _ _ => true
  | _ => false

def TComp.isPrefix : TComp → Bool
  | .op _ _ _ => false
  | _ => true

inductive ExaErr where
  | valueError    -- `bytes([v])` with v outside 0..255
  | structError   -- `pack('!H'/'!L', v)` out of range
  | notifyMask    -- CIDR.decode: mask above the family's width (raised from IPrefix6.pack)
  | tooLong       -- `_encode_length`: Notify(3, 0)
deriving DecidableEq, Repr

/-- `Flow.settle_family`: the prefixes decide (destination list first, then source); without a
    prefix the route is IPv6 iff some component's class exists for IPv6 only (`hint6`: next-header,
    traffic-class, flow-label).  A prefix of the other family (`Flow.add` returns False and the
    callers refuse) and components the family does not define are refused while parsing and never
    reach `pack_nlri`. -/
def exaFamily (hint6 : Bool) (text : List TComp) : Bool :=
  match (text.filter (fun c => c.isPrefix && c.ty == 1) ++ text.filter (fun c => c.isPrefix && c.ty == 2)).head? with
  | some p => p.isV6
  | none => hint6

/-- `IOperationByte/ByteShort/ByteShortLong.encode` by the class's largest size. -/
def exaEncodeValue (maxW : Nat) (v : Int) : Except ExaErr (Nat × Bytes) :=
  if maxW = 1 then
    (if 0 ≤ v ∧ v < 256 then .ok (0, [v.toNat]) else .error .valueError)
  else if v < 256 then
    (if 0 ≤ v then .ok (0, [v.toNat]) else .error .valueError)
  else if maxW = 2 then
    (if v < 65536 then .ok (1, beN 2 v.toNat) else .error .structError)
  else if v < 65536 then .ok (1, beN 2 v.toNat)
  else if v < 4294967296 then .ok (2, beN 4 v.toNat) else .error .structError

/-- one operation: `bytes([operations | len bits]) + value`.  `flags` from the text parser carry only
    the AND bit (0x40) and the four operator bits; `_pack_from_rules` clears EOL everywhere and sets
    it on the last operation. -/
def exaPackOp (maxW : Nat) (last : Bool) (flags : Nat) (v : Int) : Except ExaErr Bytes :=
  match exaEncodeValue maxW v with
  | .error e => .error e
  | .ok (code, bs) =>
    .ok ((b2n last * 128 + flags / 64 % 2 * 64 + code * 16 + flags % 16) :: bs)

def exaPackOps (maxW : Nat) : List (Nat × Int) → Except ExaErr Bytes
  | [] => .ok []
  | (f, v) :: rest =>
    match exaPackOp maxW rest.isEmpty f v, exaPackOps maxW rest with
    | .ok a, .ok b => .ok (a ++ b)
    | .error e, _ => .error e
    | _, .error e => .error e

/-- `IPrefix4.pack`: `[ID] + [netmask] + raw[:size(netmask)]` with `CIDR.size(m) = ceil(m/8)` for
    m ≤ 128 and 0 above; `raw` has 4 bytes, so the slice stops there. -/
def cidrSize (m : Nat) : Nat := if m ≤ 128 then (m + 7) / 8 else 0

def exaPackPrefix : TComp → Except ExaErr Bytes
  | .prefix4 ty addr len => .ok (ty :: len :: (beN 4 addr).take (cidrSize len))
  | .prefix6 ty addr len off =>
    -- `bytes([ID, cidr.mask, offset]) + cidr.pack_ip()`; `self.cidr` decodes `_packed` first
    if len > 128 then .error .notifyMask
    else if off ≥ 256 then .error .valueError
    else .ok (ty :: len :: off :: (beN 16 addr).take (cidrSize len))
  | .op _ _ _ => .ok []

def exaPackPrefixes : List TComp → Except ExaErr Bytes
  | [] => .ok []
  | c :: cs =>
    match exaPackPrefix c, exaPackPrefixes cs with
    | .ok a, .ok b => .ok (a ++ b)
    | .error e, _ => .error e
    | _, .error e => .error e

def opPairs : List TComp → List (Nat × Int)
  | [] => []
  | .op _ f v :: cs => (f, v) :: opPairs cs
  | _ :: cs => opPairs cs

/-- the bytes of one ID's group (`_pack_from_rules` loop body) -/
def exaPackGroup (sizeOf : Nat → Nat) (id : Nat) (group : List TComp) : Except ExaErr Bytes :=
  if group.isEmpty then .ok []
  else if id = 1 ∨ id = 2 then exaPackPrefixes group
  else
    match exaPackOps (sizeOf id) (opPairs group) with
    | .ok b => .ok (id :: b)
    | .error e => .error e

def exaPackIds (sizeOf : Nat → Nat) (kept : List TComp) : List Nat → Except ExaErr Bytes
  | [] => .ok []
  | id :: ids =>
    match exaPackGroup sizeOf id (kept.filter (fun c => c.ty == id)), exaPackIds sizeOf kept ids with
    | .ok a, .ok b => .ok (a ++ b)
    | .error e, _ => .error e
    | _, .error e => .error e

/-- `_encode_length` -/
def exaEncodeLength (n : Nat) : Except ExaErr Bytes :=
  if n < 240 then .ok [n]
  else if n ≤ 4095 then .ok [240 + n / 256, n % 256]
  else .error .tooLong

/-- every component ID the code defines lies in 1..13, so `sorted(rules.keys())` is this list filtered -/
def allIds : List Nat := [1, 2, 3, 4, 5, 6, 7, 8, 9, 10, 11, 12, 13]

/-- `Flow.pack_nlri` of the NLRI the text parser built: (AFI is IPv6, bytes). -/
def exaPack (sizeOf : Nat → Nat) (hint6 : Bool) (rd : Option Bytes) (text : List TComp) : Except ExaErr (Bool × Bytes) :=
  let v6 := exaFamily hint6 text
  let kept := text
  match exaPackIds sizeOf kept allIds with
  | .error e => .error e
  | .ok comps =>
    let payload := rd.getD [] ++ comps
    match exaEncodeLength payload.length with
    | .error e => .error e
    | .ok lp => .ok (v6, lp ++ payload)

/-! ### Meaning of a text rule (what the operator wrote), as an abstract `Rule` -/

def termOfFlags (numeric : Bool) (first : Bool) (flags : Nat) (v : Int) : Term :=
  ⟨if first then false else opAnd flags, if numeric then opLt flags else false, opGt flags, opEq flags, v.toNat⟩

def termsOf (numeric : Bool) : List (Nat × Int) → List Term
  | [] => []
  | (f, v) :: rest => termOfFlags numeric true f v :: rest.map (fun p => termOfFlags numeric false p.1 p.2)

/-- the pattern a text prefix denotes: bits `off .. len` of the address (`width` = 32 or 128) -/
def patOf (width addr len off : Nat) : Nat := addr / 2 ^ (width - len) % 2 ^ (len - off)

def compOfGroup (v6 : Bool) (id : Nat) (group : List TComp) : List Comp :=
  match group with
  | [] => []
  | .prefix4 ty addr len :: _ => [.prefix4 ty len (patOf 32 addr len 0)]
  | .prefix6 ty addr len off :: _ => [.prefix6 ty len off (patOf 128 addr len off)]
  | .op _ _ _ :: _ => [.ops id (termsOf (kindOf v6 id == some .numeric) (opPairs group))]

/-- the rule a text denotes: one component per ID, operator lists of a repeated keyword concatenated -/
def toRule (v6 : Bool) (text : List TComp) : Rule :=
  allIds.flatMap (fun id => compOfGroup v6 id (text.filter (fun c => c.ty == id)))

/-! ## ExaBGP layer: decoder (`Flow.unpack_nlri` + `_parse_rules`) -/

/-- ExaBGP reads `ceil(len/8)` bytes after the offset, for any offset; `CIDR.decode` checks `len ≤ 128`. -/
def exaP6 (len _off : Nat) : Option Nat := if len ≤ 128 then some len else none

/-- `((length & 0x0F) << FLOW_LENGTH_EXTENDED_SHIFT) + extra` -/
def exaHi (n : Nat) : Nat := n * 256

/-- what `_parse_operations` stores as `operations`: the bits that mean something for the operator
    family (AND | lt gt eq, or AND | not match), the AND of the first operator cleared -/
def exaStoredOp (numeric first : Bool) (op : Nat) : Nat :=
  (if first then 0 else op / 64 % 2 * 64) + (if numeric then op % 8 else op % 4)

inductive ExaDec where
  | raise                                   -- Notify escapes `unpack_nlri`
  | invalid (rest : Bytes)                  -- `NLRI.INVALID, over`
  | ok (rd : Option Bytes) (comps : List RawComp) (rest : Bytes)
deriving DecidableEq, Repr

/-- group by ID in first-appearance order is a dict; every consumer iterates `sorted(rules)`,
    so the model returns the components regrouped by ascending ID (stable inside an ID).
    Operator groups of one ID are merged into one list (`rules.setdefault(what, []).append`). -/
def opsOf (id : Nat) (c : RawComp) : List RawTerm :=
  match c with | .ops t ts => if t = id then ts else [] | _ => []

/-- `_parse_operations` clears the AND bit of the first operator of every component it parses -/
def clearAnd (t : RawTerm) : RawTerm := { t with op := t.op - t.op / 64 % 2 * 64 }
def clearHead : List RawTerm → List RawTerm
  | [] => []
  | t :: ts => clearAnd t :: ts

/-- the operators stored under `id`: those of its first occurrence (whose head `exaStoredOp … first`
    clears at delivery), then those of every later occurrence — an NLRI that repeats a component
    type is not RFC 8955, but the code merges it — each with the AND bit of ITS first operator
    cleared as well. -/
def regroupOps (id : Nat) : List RawComp → List RawTerm
  | [] => []
  | c :: cs =>
    if (opsOf id c).isEmpty then regroupOps id cs
    else opsOf id c ++ cs.flatMap (fun d => clearHead (opsOf id d))

def regroup (cs : List RawComp) : List RawComp :=
  allIds.flatMap (fun id =>
    if id = 1 ∨ id = 2 then cs.filter (fun c => c.ty == id)
    else
      let ts := regroupOps id cs
      if ts.isEmpty then [] else [.ops id ts])

def exaDecode (v6 vpn : Bool) (bs : Bytes) : ExaDec :=
  match bs with
  | [] => .raise
  | _ =>
  match splitNlri exaHi bs with
  | .error _ => .raise
  | .ok (payload, rest) =>
    -- a flow-vpn payload too short for its route distinguisher: Notify inside `_parse_rules` -> INVALID
    if vpn && decide (payload.length < 8) then .invalid rest
    else
      let body := if vpn then payload.drop 8 else payload
      match decodeComps v6 exaP6 (body.length + 1) body with
      | .error _ => .invalid rest
      | .ok cs => .ok (if vpn then some (payload.take 8) else none) (regroup cs) rest

end Exa.Flow
