import ExaModel.Bytes
import ExaModel.Generated.FieldLimits
/-!
# M-Fields — the numeric and length fields of the route / flow / vpls / attribute grammar

What a value written in route text becomes on the wire, field by field (DESIGN section 6,
M-Fields; property C18).  This is the *capacity* side: for every field of the text grammar
`fits f v` says whether the wire format can hold `v`, `encodeField f v` are the bytes the field
takes on the wire, `decodeField f bs` is what a receiver reads back from them.  The parser's
*accepted* range is the behaviour of /repo and is compared with `fits` on every run by the
acceptance sweep (`harness/props/C18.py`); the constants the parser compares against are
re-extracted into `Generated/FieldLimits.lean`.

Every field except an AS number on a 2-byte session is an instance of one `Layout`:
the value `v` is stored as the big-endian integer `v * mul + add` in `width` bytes
(`mul = 16, add = 1` is an MPLS label with the bottom-of-stack bit, `mul = 4` is a number of
communities stored as an attribute length, `mul = 1, add = 0` a plain unsigned integer), the
value bits can tell `modulus` values apart, and `limit ≤ modulus` is the semantic bound
(a prefix length is one byte but must be ≤ 32).

Field values shorter on the wire than `width` (FlowSpec numeric values take 1, 2 or 4 bytes
depending on the value; an RD or a route-target switches between the 2-byte-AS and 4-byte-AS form)
are compared left-padded with zero bytes: the integer is the same.

Imports `ExaModel.Bytes` and the generated `FieldLimits` (plain data); no Mathlib (the driver links).
-/
namespace Exa.Fields
open Exa

/-- big-endian, `n` bytes (the low `n` bytes of `v`: what `struct.pack` would refuse, and what
    shifting-and-masking code silently produces, when `v` does not fit) -/
def beN : Nat → Nat → Bytes
  | 0, _ => []
  | n + 1, v => beN n (v / 256) ++ [v % 256]

/-- big-endian integer of a byte string -/
def rdN (bs : Bytes) : Nat := bs.foldl (fun acc b => acc * 256 + b) 0

structure Layout where
  width : Nat
  mul : Nat
  add : Nat
  modulus : Nat
  limit : Nat
deriving Repr, DecidableEq

namespace Layout

/-- plain unsigned integer of `w` bytes -/
def uint (w : Nat) : Layout := { width := w, mul := 1, add := 0, modulus := 256 ^ w, limit := 256 ^ w }
/-- one byte holding a value below `lim` (prefix lengths, DSCP) -/
def bounded (w lim : Nat) : Layout := { width := w, mul := 1, add := 0, modulus := 256 ^ w, limit := lim }
/-- 20-bit label in 3 bytes: label, 3 bits of traffic class (0), bottom-of-stack bit `bos` -/
def label (bos : Nat) : Layout := { width := 3, mul := 16, add := bos, modulus := 1048576, limit := 1048576 }
/-- a number of `unit`-byte records stored as a 2-byte attribute length -/
def count (unit : Nat) : Layout :=
  { width := 2, mul := unit, add := 0, modulus := 65535 / unit + 1, limit := 65535 / unit + 1 }

/-- the constraints under which the layout is a bijection between `[0, limit)` and valid wire values -/
def wf (l : Layout) : Bool :=
  decide (0 < l.mul) && decide (l.add < l.mul) && decide (0 < l.limit) && decide (l.limit ≤ l.modulus)
    && decide ((l.limit - 1) * l.mul + l.add < 256 ^ l.width)

/-- every byte string of the right width decodes to an allowed value (no semantic bound below
    the capacity of the value bits) -/
def full (l : Layout) : Bool :=
  decide (l.modulus ≤ l.limit) || decide ((256 ^ l.width - 1) / l.mul < l.limit)

def fits (l : Layout) (v : Nat) : Bool := decide (v < l.limit)
def encode (l : Layout) (v : Nat) : Bytes := beN l.width (v * l.mul + l.add)
def decode (l : Layout) (bs : Bytes) : Nat := (rdN bs / l.mul) % l.modulus
def validWire (l : Layout) (bs : Bytes) : Bool := decide (l.decode bs < l.limit)

end Layout

/-- what matters of the session for a field: are AS numbers 4 bytes on the wire (RFC 6793) -/
inductive Sess where
  | asn4 | asn2
deriving Repr, DecidableEq

/-- AS_TRANS (RFC 6793) -/
def asTrans : Nat := 23456

/-- Every numeric / length field of the text grammar (static routes, attributes, flow, vpls). -/
inductive Field where
  -- attributes
  | asPathAsn (s : Sess)        -- one AS number inside `as-path [ … ]`
  | aggregatorAsn (s : Sess)    -- `aggregator ( ASN:ip )`
  | aggregatorOctet             -- one octet of the aggregator address
  | originatorOctet             -- one octet of `originator-id`
  | clusterOctet                -- one octet of a `cluster-list` id
  | communityHigh | communityLow | communityPlain
  | largeGlobal | largeLocal1 | largeLocal2
  | extAdmin                    -- `target:` / `origin:` administrator written as a number (2- or 4-byte AS form)
  | extLocalA16                 -- local part after a 2-byte AS: 32 bits
  | extLocalA32                 -- local part after a 4-byte AS: 16 bits
  | extIpOctet                  -- one octet of an IPv4 administrator
  | extLocalIp                  -- local part after an IPv4 administrator: 16 bits
  | l2infoEncaps | l2infoControl | l2infoMtu | l2infoPref
  | med | localPref | aigp
  | attrCode | attrFlag         -- `attribute [ 0xCODE 0xFLAG 0xDATA ]`
  | attrLen                     -- number of data bytes of a generic attribute (extended length)
  | communitiesCount | largeCommunitiesCount | extCommunitiesCount | clusterCount
  -- NLRI qualifiers
  | label                       -- last (or only) label: bottom of stack set
  | labelInner                  -- a label that is not the last of the stack
  | rdAdmin                     -- `rd N:1` (type 0 below 65536, type 2 from there)
  | rdAssignedA16               -- `rd 1:N` type 0: 32 bits
  | rdAssignedA32               -- `rd 70000:N` type 2: 16 bits
  | rdIpOctet                   -- `rd 1.2.3.N:1` type 1
  | rdAssignedIp                -- `rd 1.2.3.4:N` type 1: 16 bits
  | pathInfo | pathInfoOctet
  | mask4 | mask6
  -- VPLS (RFC 4761)
  | vplsEndpoint | vplsOffset | vplsSize | vplsBase
  -- FlowSpec (RFC 8955 / 8956) match values and actions
  | flowProtocol | flowNextHeader | flowPort | flowDstPort | flowSrcPort
  | flowIcmpType | flowIcmpCode | flowTcpFlags | flowPacketLength | flowDscp
  | flowTrafficClass | flowFragment | flowLabel | flowMask4 | flowMask6 | flowOffset6
  | redirectAdmin | redirectLocalA16 | redirectLocalA32 | markDscp
deriving Repr, DecidableEq

open Layout in
/-- The wire layout of a field.  (For an AS number on a 2-byte session the layout given here is
    that of the AS4_PATH / AS4_AGGREGATOR element; `encodeField` adds the 2-byte element.) -/
def layout : Field → Layout
  | .asPathAsn _ | .aggregatorAsn _ => uint 4
  | .aggregatorOctet | .originatorOctet | .clusterOctet | .extIpOctet | .rdIpOctet | .pathInfoOctet => uint 1
  | .communityHigh | .communityLow => uint 2
  | .communityPlain => uint 4
  | .largeGlobal | .largeLocal1 | .largeLocal2 => uint 4
  | .extAdmin => uint 4
  | .extLocalA16 => uint 4
  | .extLocalA32 => uint 2
  | .extLocalIp => uint 2
  | .l2infoEncaps | .l2infoControl => uint 1
  | .l2infoMtu | .l2infoPref => uint 2
  | .med | .localPref => uint 4
  | .aigp => uint 8
  | .attrCode | .attrFlag => uint 1
  | .attrLen => count 1
  | .communitiesCount => count 4
  | .largeCommunitiesCount => count 12
  | .extCommunitiesCount => count 8
  | .clusterCount => count 4
  | .label => label 1
  | .labelInner => label 0
  | .rdAdmin => uint 4
  | .rdAssignedA16 => uint 4
  | .rdAssignedA32 => uint 2
  | .rdAssignedIp => uint 2
  | .pathInfo => uint 4
  | .mask4 => bounded 1 33
  | .mask6 => bounded 1 129
  | .vplsEndpoint | .vplsOffset | .vplsSize => uint 2
  | .vplsBase => label 1
  | .flowProtocol | .flowNextHeader | .flowIcmpType | .flowIcmpCode | .flowTrafficClass => uint 1
  | .flowPort | .flowDstPort | .flowSrcPort | .flowPacketLength => uint 2
  | .flowTcpFlags => uint 2
  | .flowFragment => uint 1  -- RFC 8955 4.2.2.12: the bitmask MUST be encoded as a single octet
  | .flowDscp => bounded 1 64
  | .flowLabel => bounded 4 1048576
  | .flowMask4 => bounded 1 33
  | .flowMask6 => bounded 1 129
  | .flowOffset6 => bounded 1 128  -- RFC 8956 3.1: the offset is below the length (swept with length 128)
  | .redirectAdmin => uint 4
  | .redirectLocalA16 => uint 4
  | .redirectLocalA32 => uint 2
  | .markDscp => bounded 1 64

/-- does the field use the AS_TRANS construction (AS number, 2-byte session) -/
def Field.isTrans : Field → Bool
  | .asPathAsn .asn2 | .aggregatorAsn .asn2 => true
  | _ => false

/-- bytes the field takes on the wire (2-byte session AS number: 2 in AS_PATH/AGGREGATOR + 4 in
    AS4_PATH/AS4_AGGREGATOR) -/
def width (f : Field) : Nat := if f.isTrans then 6 else (layout f).width

/-- the wire format can hold the value -/
def fits (f : Field) (v : Nat) : Bool := (layout f).fits v

/-- RFC 6793 on a 2-byte session: the 2-byte element carries the AS number itself when it is
    below 65536 and AS_TRANS otherwise; the 4-byte element (AS4_PATH / AS4_AGGREGATOR) carries the
    number.  (ExaBGP omits the AS4 attribute when no number of the attribute needs it; the
    harness then compares the first two bytes only.) -/
def encodeField (f : Field) (v : Nat) : Bytes :=
  if f.isTrans then beN 2 (if v < 65536 then v else asTrans) ++ beN 4 v
  else (layout f).encode v

def decodeField (f : Field) (bs : Bytes) : Nat :=
  if f.isTrans then
    (if rdN (bs.take 2) = asTrans then rdN (bs.drop 2) else rdN (bs.take 2))
  else (layout f).decode bs

/-- a receiver takes the bytes as a value of the field (a prefix length of 33 is one byte, and
    is refused) -/
def validWire (f : Field) (bs : Bytes) : Bool :=
  if f.isTrans then true else (layout f).validWire bs

def full (f : Field) : Bool := f.isTrans || (layout f).full

/-- The RFC bound of each field, written out independently of `layout` (exclusive upper bound):
    RFC 4271 / 6793 (AS numbers, MED, LOCAL_PREF, lengths), 1997, 8092, 4360, 7311, 3032, 4364,
    7911, 4761, 8955, 8956.  `rfc_limit_is_layout_limit` in `Props/C18.lean` ties the two. -/
def rfcLimit : Field → Nat
  | .asPathAsn _ | .aggregatorAsn _ => 4294967296
  | .aggregatorOctet | .originatorOctet | .clusterOctet | .extIpOctet | .rdIpOctet | .pathInfoOctet => 256
  | .communityHigh | .communityLow => 65536
  | .communityPlain => 4294967296
  | .largeGlobal | .largeLocal1 | .largeLocal2 => 4294967296
  | .extAdmin | .extLocalA16 => 4294967296
  | .extLocalA32 | .extLocalIp => 65536
  | .l2infoEncaps | .l2infoControl => 256
  | .l2infoMtu | .l2infoPref => 65536
  | .med | .localPref => 4294967296
  | .aigp => 18446744073709551616
  | .attrCode | .attrFlag => 256
  | .attrLen => 65536
  | .communitiesCount | .clusterCount => 16384
  | .largeCommunitiesCount => 5462
  | .extCommunitiesCount => 8192
  | .label | .labelInner | .vplsBase => 1048576
  | .rdAdmin | .rdAssignedA16 => 4294967296
  | .rdAssignedA32 | .rdAssignedIp => 65536
  | .pathInfo => 4294967296
  | .mask4 | .flowMask4 => 33
  | .mask6 | .flowMask6 => 129
  | .flowOffset6 => 128
  | .vplsEndpoint | .vplsOffset | .vplsSize => 65536
  | .flowProtocol | .flowNextHeader | .flowIcmpType | .flowIcmpCode | .flowTrafficClass => 256
  | .flowPort | .flowDstPort | .flowSrcPort | .flowPacketLength => 65536
  | .flowTcpFlags => 65536
  | .flowFragment => 256
  | .flowDscp | .markDscp => 64
  | .flowLabel => 1048576
  | .redirectAdmin | .redirectLocalA16 => 4294967296
  | .redirectLocalA32 => 65536

/-! ## AS_PATH segments (RFC 4271: the segment length is one byte)

`ASPath._segment` splits a segment of more than 255 AS numbers into segments of 255 and a rest. -/

/-- segment lengths for `n` AS numbers written in one segment (fuel = n is enough) -/
def segSplitAux : Nat → Nat → List Nat
  | 0, _ => []
  | fuel + 1, n => if n = 0 then [] else if n ≤ 255 then [n] else 255 :: segSplitAux fuel (n - 255)

def segSplit (n : Nat) : List Nat := segSplitAux n n

/-- value length of an AS_PATH of `n` AS numbers in one written segment -/
def asPathLen (s : Sess) (n : Nat) : Nat :=
  n * (match s with | .asn4 => 4 | .asn2 => 2) + 2 * (segSplit n).length

/-- the whole UPDATE (header 19, two length fields, attributes, NLRI) fits the negotiated size -/
def msgFits (maxSize attrsLen nlriLen : Nat) : Bool := decide (19 + 2 + 2 + attrsLen + nlriLen ≤ maxSize)

def allFields : List Field :=
  [ .asPathAsn .asn4, .asPathAsn .asn2, .aggregatorAsn .asn4, .aggregatorAsn .asn2,
    .aggregatorOctet, .originatorOctet, .clusterOctet,
    .communityHigh, .communityLow, .communityPlain, .largeGlobal, .largeLocal1, .largeLocal2,
    .extAdmin, .extLocalA16, .extLocalA32, .extIpOctet, .extLocalIp,
    .l2infoEncaps, .l2infoControl, .l2infoMtu, .l2infoPref,
    .med, .localPref, .aigp, .attrCode, .attrFlag, .attrLen,
    .communitiesCount, .largeCommunitiesCount, .extCommunitiesCount, .clusterCount,
    .label, .labelInner, .rdAdmin, .rdAssignedA16, .rdAssignedA32, .rdIpOctet, .rdAssignedIp,
    .pathInfo, .pathInfoOctet, .mask4, .mask6,
    .vplsEndpoint, .vplsOffset, .vplsSize, .vplsBase,
    .flowProtocol, .flowNextHeader, .flowPort, .flowDstPort, .flowSrcPort, .flowIcmpType,
    .flowIcmpCode, .flowTcpFlags, .flowPacketLength, .flowDscp, .flowTrafficClass, .flowFragment,
    .flowLabel, .flowMask4, .flowMask6, .flowOffset6,
    .redirectAdmin, .redirectLocalA16, .redirectLocalA32, .markDscp ]

def Field.name : Field → String
  | .asPathAsn .asn4 => "asPathAsn4" | .asPathAsn .asn2 => "asPathAsn2"
  | .aggregatorAsn .asn4 => "aggregatorAsn4" | .aggregatorAsn .asn2 => "aggregatorAsn2"
  | .aggregatorOctet => "aggregatorOctet" | .originatorOctet => "originatorOctet"
  | .clusterOctet => "clusterOctet"
  | .communityHigh => "communityHigh" | .communityLow => "communityLow" | .communityPlain => "communityPlain"
  | .largeGlobal => "largeGlobal" | .largeLocal1 => "largeLocal1" | .largeLocal2 => "largeLocal2"
  | .extAdmin => "extAdmin" | .extLocalA16 => "extLocalA16" | .extLocalA32 => "extLocalA32"
  | .extIpOctet => "extIpOctet" | .extLocalIp => "extLocalIp"
  | .l2infoEncaps => "l2infoEncaps" | .l2infoControl => "l2infoControl"
  | .l2infoMtu => "l2infoMtu" | .l2infoPref => "l2infoPref"
  | .med => "med" | .localPref => "localPref" | .aigp => "aigp"
  | .attrCode => "attrCode" | .attrFlag => "attrFlag" | .attrLen => "attrLen"
  | .communitiesCount => "communitiesCount" | .largeCommunitiesCount => "largeCommunitiesCount"
  | .extCommunitiesCount => "extCommunitiesCount" | .clusterCount => "clusterCount"
  | .label => "label" | .labelInner => "labelInner"
  | .rdAdmin => "rdAdmin" | .rdAssignedA16 => "rdAssignedA16" | .rdAssignedA32 => "rdAssignedA32"
  | .rdIpOctet => "rdIpOctet" | .rdAssignedIp => "rdAssignedIp"
  | .pathInfo => "pathInfo" | .pathInfoOctet => "pathInfoOctet"
  | .mask4 => "mask4" | .mask6 => "mask6"
  | .vplsEndpoint => "vplsEndpoint" | .vplsOffset => "vplsOffset" | .vplsSize => "vplsSize"
  | .vplsBase => "vplsBase"
  | .flowProtocol => "flowProtocol" | .flowNextHeader => "flowNextHeader" | .flowPort => "flowPort"
  | .flowDstPort => "flowDstPort" | .flowSrcPort => "flowSrcPort" | .flowIcmpType => "flowIcmpType"
  | .flowIcmpCode => "flowIcmpCode" | .flowTcpFlags => "flowTcpFlags"
  | .flowPacketLength => "flowPacketLength" | .flowDscp => "flowDscp"
  | .flowTrafficClass => "flowTrafficClass" | .flowFragment => "flowFragment"
  | .flowLabel => "flowLabel" | .flowMask4 => "flowMask4" | .flowMask6 => "flowMask6"
  | .flowOffset6 => "flowOffset6"
  | .redirectAdmin => "redirectAdmin" | .redirectLocalA16 => "redirectLocalA16"
  | .redirectLocalA32 => "redirectLocalA32" | .markDscp => "markDscp"

def Field.ofName? (s : String) : Option Field := allFields.find? (fun f => f.name == s)

/-! ## The acceptance side: what the text parser of /repo lets through

`accepts f v` is the range check the parser applies to a plain decimal token `v` written for field
`f` (in the template the sweep uses), as a function of the bounds re-extracted from the parser sources
on every run (`Generated/FieldLimits.lean`, one row per field, read from the comparisons of the source
by `harness/tables/fields.py`).  A field without a row accepts nothing.  `Props/C18.lean` proves that
this is exactly `fits` (`accepts_iff_fits`), with the one qualification that a list must also leave
room for the rest of the UPDATE. -/

/-- the number of elements of a list, or of data bytes: bounded by the room in an UPDATE, not by a field -/
def Field.isCount : Field → Bool
  | .attrLen | .communitiesCount | .largeCommunitiesCount | .extCommunitiesCount | .clusterCount => true
  | _ => false

/-- bytes one element adds to the attribute value (RFC 4271 / 1997 / 8092 / 4360 / 4456) -/
def Field.unit : Field → Nat
  | .communitiesCount | .clusterCount => 4
  | .largeCommunitiesCount => 12
  | .extCommunitiesCount => 8
  | _ => 1

def lookupBound (n : String) : List (String × Int × Int) → Option (Int × Int)
  | [] => none
  | (k, lo, hi) :: t => if k == n then some (lo, hi) else lookupBound n t

/-- the generated bounds of the parser for this field -/
def parserBound (f : Field) : Option (Int × Int) :=
  lookupBound f.name Exa.Generated.FieldLimits.parserBounds

def accepts (f : Field) (v : Int) : Bool :=
  match parserBound f with
  | some (lo, hi) => decide (lo ≤ v) && decide (v ≤ hi)
  | none => false

/-- what the repaired parser should accept, written independently of the generated table: the RFC
    limit of the field, and for a list what leaves room in a 65535-byte UPDATE for the header (19),
    the two length fields (4), the attribute header (4) and 128 bytes of other attributes and NLRI -/
def acceptLimit (f : Field) : Nat :=
  if f.isCount then (65535 - 19 - 4 - 4 - 128) / f.unit + 1 else rfcLimit f

end Exa.Fields
