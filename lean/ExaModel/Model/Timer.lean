import ExaModel.Generated.TimerTable
/-!
# M-Timer — the hold timer and the keepalive timer, as the Python computes them

Code under model (read it side by side):

* `exabgp/bgp/timer.py`            `ReceiveTimer.__init__/check_ka_timer/check_ka`, `SendTimer.__init__/need_ka`
* `exabgp/reactor/keepalive.py`    `KA.__init__/send_if_needed`
* `exabgp/bgp/message/open/holdtime.py`  `HoldTime.keepalive`
* `exabgp/reactor/peer/peer.py`    `_main` (one loop iteration = `recv_timer.check_ka(message)` then
  `send_ka.send_if_needed()`), `_read_ka` (`check_ka_timer` only), `_read_open` (`wait_for(…, openwait)`)

Time is an integer number of **milliseconds** (`nowMs`); the code's clock reading
`int(time.time())` is `nowMs / 1000` (whole seconds, truncated).  All constants (message TYPE
bytes, SCHEDULING values, the NOTIFICATION codes, `KEEPALIVE_DIVISOR`) come from
`Generated/TimerTable.lean`, re-extracted from /repo on every run.

Python integers are unbounded and `now - last_read` may be negative when the wall clock steps
back; the only uses are `elapsed > holdtime` and `last_sent + keepalive - now <= 0`, whose truth
values coincide with the `Nat` forms used here (`now - lastRead` truncated at 0 is `> hold`
exactly when the integer difference is; the second is `lastSent + keepalive ≤ now`).

Not modelled: the `log.debug` calls (but `last_print`, which only gates them, is), the
asynchronous write inside `new_keepalive` (its only modelled outcome is ok / NetworkError).
-/
namespace Exa.Timer
open Exa.Generated

/-- What the main loop hands to the timers: only `message.TYPE[0]` and `int(message.SCHEDULING)`
    are ever looked at. -/
structure Kind where
  type : Nat
  sched : Nat
deriving DecidableEq, Repr

/-- `not message.SCHEDULING` — a real BGP message, not `_NOP` / `_AWAKE` / `_DONE`. -/
def Kind.real (k : Kind) : Bool := k.sched == 0
/-- `message.TYPE == KeepAlive.TYPE` -/
def Kind.isKeepalive (k : Kind) : Bool := k.type == TimerTable.keepaliveType

/-- lookup by name in the generated table (used by the driver and by the examples) -/
def Kind.ofName (n : String) : Option Kind :=
  (TimerTable.kinds.find? (fun r => r.1 == n)).map (fun r => { type := r.2.1, sched := r.2.2 })

def Kind.nop : Kind := { type := 252, sched := 2 }
def Kind.keepalive : Kind := { type := 4, sched := 0 }
def Kind.update : Kind := { type := 2, sched := 0 }

/-- `int(time.time())` for a clock that reads `nowMs` milliseconds. -/
def secs (nowMs : Nat) : Nat := nowMs / 1000

/-- result of a method: returned a value, or raised `Notify(code, subcode)` -/
inductive Res (α : Type) where
  | ret (a : α)
  | raise (code sub : Nat)
deriving DecidableEq, Repr

/-! ## ReceiveTimer -/

structure Recv where
  hold : Nat        -- self.holdtime
  code : Nat        -- self.code
  sub : Nat         -- self.subcode
  lastRead : Nat    -- self.last_read   (seconds)
  lastPrint : Nat   -- self.last_print  (seconds)
  single : Bool     -- self.single
deriving DecidableEq, Repr

/-- `ReceiveTimer(session, holdtime, code, subcode)` constructed when the clock reads `nowMs` -/
def Recv.init (hold code sub nowMs : Nat) : Recv :=
  { hold := hold, code := code, sub := sub, lastRead := secs nowMs, lastPrint := 0, single := false }

/-- `ReceiveTimer.check_ka_timer(message)` -/
def Recv.checkKaTimer (r : Recv) (nowMs : Nat) (k : Kind) : Recv × Res Bool :=
  if r.hold = 0 then (r, .ret (!k.isKeepalive))
  else
    let now := secs nowMs
    let r1 := if k.real then { r with lastRead := now } else r
    let elapsed := now - r1.lastRead
    if elapsed > r.hold then (r1, .raise r.code r.sub)
    else ({ r1 with lastPrint := now }, .ret true)

/-- `ReceiveTimer.check_ka(message)`: `none` = returned, `some (c, s)` = raised `Notify(c, s)` -/
def Recv.checkKa (r : Recv) (nowMs : Nat) (k : Kind) : Recv × Option (Nat × Nat) :=
  match r.checkKaTimer nowMs k with
  | (r1, .raise c s) => (r1, some (c, s))
  | (r1, .ret true) => (r1, none)
  | (r1, .ret false) =>
    if r1.single then (r1, some TimerTable.h0KaNotify) else ({ r1 with single := true }, none)

/-! ## SendTimer / KA -/

/-- `HoldTime.keepalive()` = `int(self / KEEPALIVE_DIVISOR)` (float division then truncation;
    equal to the floor for every 16-bit value — enumerated against the real class on every run) -/
def keepaliveOf (hold : Nat) : Nat := hold / TimerTable.kaDivisor

structure Send where
  keepalive : Nat   -- self.keepalive
  lastPrint : Nat   -- self.last_print
  lastSent : Nat    -- self.last_sent
deriving DecidableEq, Repr

/-- `SendTimer(session, holdtime)` -/
def Send.init (hold nowMs : Nat) : Send :=
  { keepalive := keepaliveOf hold, lastPrint := secs nowMs, lastSent := secs nowMs }

/-- `SendTimer.need_ka()` -/
def Send.needKa (s : Send) (nowMs : Nat) : Send × Bool :=
  if s.keepalive = 0 then (s, false)
  else
    let now := secs nowMs
    let s1 := { s with lastPrint := now }
    -- left = last_sent + keepalive - now ; left <= 0
    if s.lastSent + s.keepalive ≤ now then ({ s1 with lastSent := now }, true) else (s1, false)

/-- `KA.send_if_needed()`; `netOk = false` models `new_keepalive` raising `NetworkError`.
    `ret true` = a KEEPALIVE was written. -/
def Send.sendIfNeeded (s : Send) (nowMs : Nat) (netOk : Bool) : Send × Res Bool :=
  match s.needKa nowMs with
  | (s1, false) => (s1, .ret false)
  | (s1, true) => if netOk then (s1, .ret true) else (s1, .raise TimerTable.kaNetNotify.1 TimerTable.kaNetNotify.2)

/-! ## One iteration of `Peer._main`, and schedules of iterations -/

/-- The loop reaches `recv_timer.check_ka(message)` / `send_ka.send_if_needed()` when the clock
    reads `t` ms, with `kind` = what `read_message` returned (or `_NOP` after the 0.1 s wait). -/
structure Poll where
  t : Nat
  kind : Kind
deriving DecidableEq, Repr

/-- what one iteration did, as far as the timers are concerned -/
inductive Fired where
  | idle
  | ka                       -- a KEEPALIVE was sent
  | notify (code sub : Nat)  -- `Notify` raised: `_run` sends the NOTIFICATION and closes
  | dead                     -- the session had already ended
deriving DecidableEq, Repr

structure Sess where
  recv : Recv
  send : Send
  /-- (time, code, subcode) of the NOTIFICATION that ended the session -/
  closed : Option (Nat × Nat × Nat)
deriving DecidableEq, Repr

/-- `_establish` creates the `ReceiveTimer` (clock `tRecv`), `_main` later the `KA` (clock `tSend`). -/
def Sess.init (hold tRecv tSend : Nat) : Sess :=
  { recv := Recv.init hold TimerTable.holdNotify.1 TimerTable.holdNotify.2 tRecv,
    send := Send.init hold tSend, closed := none }

/-- one iteration of the `while` loop of `_main` (network writes succeed) -/
def Sess.poll (s : Sess) (p : Poll) : Sess × Fired :=
  if s.closed.isSome then (s, .dead) else
  match s.recv.checkKa p.t p.kind with
  | (r1, some (c, sb)) => ({ s with recv := r1, closed := some (p.t, c, sb) }, .notify c sb)
  | (r1, none) =>
    match s.send.needKa p.t with
    | (s1, true) => ({ s with recv := r1, send := s1 }, .ka)
    | (s1, false) => ({ s with recv := r1, send := s1 }, .idle)

/-- run a whole schedule; the trace pairs each poll time with what fired -/
def Sess.run (s : Sess) : List Poll → Sess × List (Nat × Fired)
  | [] => (s, [])
  | p :: ps =>
    let (s1, f) := s.poll p
    let (s2, tr) := Sess.run s1 ps
    (s2, (p.t, f) :: tr)

/-! ## What ExaBGP writes itself, and how the hold time reaches the timers -/

/-- Messages ExaBGP writes between two timer calls of the loop (`_send_route_updates` →
    `Protocol.new_update_generator` → `Protocol.send`; `new_eor`; `new_refresh`; `new_operational`).
    They bump `peer.stats['send-…']` and go through the same `Protocol` the `KA` object uses. -/
inductive OutKind where
  | update | eor | refresh | operational
deriving DecidableEq, Repr

/-- an event of the established phase: an iteration reaching the timers, or an outbound write -/
inductive Ev where
  | poll (p : Poll)
  | out (t : Nat) (k : OutKind)
deriving DecidableEq, Repr

/-- Neither `ReceiveTimer` nor `SendTimer`/`KA` looks at what was written: outbound traffic
    changes no timer state and fires nothing (in particular an UPDATE does **not** stand in for a
    KEEPALIVE, and does not move `last_sent`). -/
def Sess.step (s : Sess) : Ev → Sess × Fired
  | .poll p => s.poll p
  | .out _ _ => (s, .idle)

def Sess.runEv (s : Sess) : List Ev → Sess × List (Nat × Fired)
  | [] => (s, [])
  | e :: es =>
    let (s1, f) := s.step e
    let (s2, tr) := Sess.runEv s1 es
    (s2, ((match e with | .poll p => p.t | .out t _ => t), f) :: tr)

/-- the iterations among the events -/
def pollsOf : List Ev → List Poll
  | [] => []
  | .poll p :: es => p :: pollsOf es
  | .out _ _ :: es => pollsOf es

/-- `Negotiated._negotiate`: `self.holdtime = HoldTime(min(sent_open.hold_time, received_open.hold_time))` -/
def negotiatedHold (localHold peerHold : Nat) : Nat := min localHold peerHold

/-- `_establish`: `ReceiveTimer(session, self.proto.negotiated.holdtime, 4, 0)` -/
def Recv.establish (localHold peerHold nowMs : Nat) : Recv :=
  Recv.init (negotiatedHold localHold peerHold) TimerTable.holdNotify.1 TimerTable.holdNotify.2 nowMs

/-- `_main`: `KA(session, self.proto)` → `SendTimer(session, proto.negotiated.holdtime)` -/
def Send.establish (localHold peerHold nowMs : Nat) : Send :=
  Send.init (negotiatedHold localHold peerHold) nowMs

/-- both timers of a session whose two OPENs carried `localHold` and `peerHold` -/
def Sess.establish (localHold peerHold tRecv tSend : Nat) : Sess :=
  { recv := Recv.establish localHold peerHold tRecv, send := Send.establish localHold peerHold tSend,
    closed := none }

/-! ## Vocabulary of the property statements (specification side) -/

/-- time of the last poll that delivered a real message, `t0` if there was none -/
def lastRealMs (t0 : Nat) : List Poll → Nat
  | [] => t0
  | p :: ps => lastRealMs (if p.kind.real then p.t else t0) ps

/-- time of the last poll, `t0` if there was none -/
def lastPollMs (t0 : Nat) : List Poll → Nat
  | [] => t0
  | p :: ps => lastPollMs p.t ps

/-- the loop comes round at least every `δ` ms: every poll is at most `δ` after the previous
    one (the first: after `prev`) -/
def Gaps (δ : Nat) : Nat → List Poll → Prop
  | _, [] => True
  | prev, p :: ps => p.t ≤ prev + δ ∧ Gaps δ p.t ps

/-- times at which a KEEPALIVE was sent, in order -/
def kaTimes : List (Nat × Fired) → List Nat
  | [] => []
  | (t, .ka) :: tr => t :: kaTimes tr
  | _ :: tr => kaTimes tr

/-- last element of `l`, `a` if `l` is empty -/
def lastOr (a : Nat) : List Nat → Nat
  | [] => a
  | b :: l => lastOr b l

/-- number of polls that delivered a KEEPALIVE -/
def kaCount : List Poll → Nat
  | [] => 0
  | p :: ps => (if p.kind.isKeepalive then 1 else 0) + kaCount ps

/-- every element is less than `bound` after its predecessor -/
def AdjLt (bound : Nat) : List Nat → Prop
  | a :: b :: rest => b < a + bound ∧ AdjLt bound (b :: rest)
  | _ => True

/-- every element is more than `bound` after its predecessor -/
def AdjGt (bound : Nat) : List Nat → Prop
  | a :: b :: rest => a + bound < b ∧ AdjGt bound (b :: rest)
  | _ => True

/-! ## Waiting for the peer's OPEN (`Peer._read_open`) -/

inductive OpenWait where
  | opened      -- `read_open` completed first
  | notify (code sub : Nat)
  | race        -- both become ready in the same event-loop iteration: asyncio decides
deriving DecidableEq, Repr

/-- `asyncio.wait_for(read_open(), timeout=openwait)`: `arrival` = ms after the call at which
    the peer's OPEN is complete (`none` = never) -/
def openWait (waitS : Nat) (arrival : Option Nat) : OpenWait :=
  match arrival with
  | none => .notify TimerTable.openWaitNotify.1 TimerTable.openWaitNotify.2
  | some a =>
    if a < waitS * 1000 then .opened
    else if a = waitS * 1000 then .race
    else .notify TimerTable.openWaitNotify.1 TimerTable.openWaitNotify.2

/-! ## OPENCONFIRM: waiting for the first KEEPALIVE (`Peer._read_ka`)

`_establish`, once both OPENs are in: creates the `ReceiveTimer`, sends our KEEPALIVE, then

    message = await asyncio.wait_for(self.proto.read_keepalive(), timeout=int(holdtime) or None)
    except asyncio.TimeoutError: raise Notify(4, 0)
    self.recv_timer.check_ka_timer(message)

`read_keepalive` loops on `read_message` until it returns a real message (NOPs are skipped); a
KEEPALIVE is returned, anything else raises `Notify(5, 2)`.  So the hold timer of this phase is
**one** `wait_for` over the whole wait, armed when `_read_ka` is entered (`tW`, just after the
peer's OPEN was read and our KEEPALIVE written): it runs on the event loop's clock in
(fractions of) seconds — no `int(time.time())` truncation — is not re-armed by anything
(partial bytes of a message, NOPs), and is ended only by the first complete real message.
With hold time 0 the timeout is `None`: no timer. -/

/-- the first real message of an arrival sequence (what `read_keepalive` stops at) -/
def firstReal : List Poll → Option Poll
  | [] => none
  | p :: ps => if p.kind.real then some p else firstReal ps

inductive OcOutcome where
  | waiting                       -- still in OPENCONFIRM
  | established (a : Nat)         -- the first message was a KEEPALIVE, read at `a`
  | notify (t code sub : Nat)     -- `Notify(code, sub)` raised at `t`
  | race (t : Nat)                -- message and timeout ready in the same event-loop iteration
deriving DecidableEq, Repr

/-- Outcome of the wait entered at `tW` with negotiated hold time `H`, as of `now`: `arrivals` =
    what `read_message` returned since, with the clock reading of each (in order). -/
def openConfirm (H tW : Nat) (arrivals : List Poll) (now : Nat) : OcOutcome :=
  let deadline := tW + H * 1000
  match firstReal arrivals with
  | some p =>
    if H ≠ 0 ∧ deadline < p.t then .notify deadline TimerTable.openConfirmNotify.1 TimerTable.openConfirmNotify.2
    else if H ≠ 0 ∧ p.t = deadline then .race deadline
    else if p.kind.isKeepalive then .established p.t
    else .notify p.t TimerTable.openConfirmUnexpected.1 TimerTable.openConfirmUnexpected.2
  | none =>
    if H ≠ 0 ∧ deadline ≤ now then .notify deadline TimerTable.openConfirmNotify.1 TimerTable.openConfirmNotify.2
    else .waiting

/-- arrival times do not decrease (starting from `prev`) -/
def Mono : Nat → List Poll → Prop
  | _, [] => True
  | prev, p :: ps => prev ≤ p.t ∧ Mono p.t ps

/-- The session handed to `_main` when the first KEEPALIVE was read at `a`: the `ReceiveTimer`
    created at `tC` has seen `check_ka_timer(KEEPALIVE)` at `a`, the `KA` is created at `tS`. -/
def Sess.afterOpenConfirm (localHold peerHold tC a tS : Nat) : Sess :=
  { recv := ((Recv.establish localHold peerHold tC).checkKaTimer a Kind.keepalive).1,
    send := Send.establish localHold peerHold tS, closed := none }

end Exa.Timer
