/-
  M-Attr7606 — model of what ExaBGP does with the path attributes of a received UPDATE
  (`AttributeCollection.parse` / `unpack`, `UpdateCollection._parse_payload`, the INTERNAL_DISCARD test
  of `Protocol.read_message`), plus the RFC 7606 specification it is judged against.

  Modelled code (read in /repo/src/exabgp):
    bgp/message/update/attribute/collection.py   AttributeCollection.parse (the tail-recursive loop), unpack
    bgp/message/update/attribute/attribute.py    Attribute.registered / klass_by_id / unpack, attributes_optional / _known
    the `unpack_attribute` length / range checks of origin, aspath (AS_PATH, AS4_PATH), nexthop, med, localpref,
    atomicaggregate, aggregator (7, 18), community/{initial,extended,large}, originatorid, clusterlist,
    mprnlri, mpurnlri (the eager checks), generic
    bgp/message/update/collection.py             split, _parse_payload (what becomes announce / withdraw), EOR fast paths
    reactor/protocol.py                          read_message: INTERNAL_DISCARD → NOP (Rep.disc)

  The per-class flags come from the GENERATED table (`Generated/AttrTable.lean`, re-extracted from
  `Attribute.registered_attributes` on every run); every definition takes the table as an argument, so the
  theorems hold for any table with the stated row properties and `decide` closes those for the generated one.

  NOT modelled (the model answers `unmodelled`, the theorems say nothing there, the harness covers them with
  the generic corruptions and the model-independent oracle): the value decoders of PMSI (22), TUNNEL_ENCAP
  (23), AIGP (26), BGP-LS (29), PREFIX_SID (40); MP_REACH for families outside AFI 1/2 × SAFI 1,2,4,128 and
  with RFC 8950 next hops negotiated. The merged AS_PATH keeps the two values it is made of (`Kept.val`,
  `Kept.as4`); `mergeExa` transcribes `merge_attributes` (72add9c) on segments and `Props/C02Exa.lean` proves
  it equal to the reference `merge6793`; the driver prints the marker `m` for it (its bytes are C02's).

  History: the first version of this model reproduced five defects of the tree as found (F5 marker ignored,
  F6 overrun accepted, C08a NEXT_HOP of 16 bytes, C08c flag conflict without class, and C08b); four were
  repaired in /repo (commits 2df5c0b, fe3650b, e0e6b78, cfd78d2) and the model now IS the repaired code. One
  repair is still open and keeps its switch: `Fix.seg0` (C08b, an AS_PATH / AS4_PATH segment with no AS number is
  accepted: proposed_fixes/c08b-aspath-empty-segment.md). `noFix` is the code as it is, `allFix` the code with
  that repair; the driver takes the switch on the command line so that the harness follows the tree.
  Also followed: 18edd12 / 72add9c (merge_aggregator before the AS_PATH merge on a 2-octet session), 9af6928 (the four unused flag bits are masked on receipt), a0181bd (a 4-octet session drops
  AS4_PATH instead of merging), 8779602 (GenericAttribute drops the Extended Length bit), fa02ec5 (loop, not
  recursion).

  Reuses M-Wire (RFC reference, read-only): `Params`, `Flags.ofByte`, `decLen` (length field of one TLV),
  `decAsns`, `decNlris`, `decVal` (as the RFC value syntax inside `wfAttr`), `flagSpec`, `supported`.
-/
import ExaModel.Model.Wire
import ExaModel.Generated.AttrTable

namespace Exa.Attr7606
open Exa Exa.Wire
open Exa.Generated.AttrTable (Row)

/-! ## RFC side: classes and well-formedness -/

/-- RFC 7606 error-handling approach. -/
inductive Cls where
  | withdraw   -- "treat-as-withdraw" (§2)
  | discard    -- "attribute discard" (§2)
  | reset      -- "session reset" (or "AFI/SAFI disable"): a NOTIFICATION is the sanctioned outcome
deriving DecidableEq, Repr

/-- RFC 7606 §7 by hand: §7.1 ORIGIN, §7.2 AS_PATH, §7.3 NEXT_HOP, §7.4 MED, §7.5 LOCAL_PREF: treat-as-withdraw;
    §7.6 ATOMIC_AGGREGATE, §7.7 AGGREGATOR: attribute discard; §7.8 Community, §7.9 ORIGINATOR_ID,
    §7.10 CLUSTER_LIST: treat-as-withdraw; §7.11 MP_REACH_NLRI, §7.12 MP_UNREACH_NLRI: session reset /
    AFI-SAFI disable; §7.14 Extended Community, §7.15 IPv6 Address Specific Extended Community:
    treat-as-withdraw. RFC 6793 §6: AS4_PATH, AS4_AGGREGATOR: attribute discard. RFC 8092 §6:
    LARGE_COMMUNITY: treat-as-withdraw. `none`: these documents demand nothing for the code. -/
def rfc7606Class (code : Nat) : Option Cls :=
  if code = 1 ∨ code = 2 ∨ code = 3 ∨ code = 4 ∨ code = 5 then some .withdraw
  else if code = 6 ∨ code = 7 then some .discard
  else if code = 8 ∨ code = 9 ∨ code = 10 then some .withdraw
  else if code = 14 ∨ code = 15 then some .reset
  else if code = 16 ∨ code = 25 ∨ code = 32 then some .withdraw
  else if code = 17 ∨ code = 18 then some .discard
  else none

/-- The class the code's flags give a table row: TREAT_AS_WITHDRAW is tested first, then DISCARD; with
    neither, an error inside the value decoder escapes (a NOTIFICATION). -/
def classOf (r : Row) : Cls :=
  if r.treatAsWithdraw then .withdraw else if r.discard then .discard else .reset

/-- RFC 7606 §3.c: only a conflict of the Optional or Transitive bit with the specified value makes the
    attribute malformed (the Partial and Extended Length bits and the four unused bits do not). -/
def flagSpecX (code : Nat) : Option (Bool × Bool) :=
  if code = 25 then some (true, true) else flagSpec code      -- M-Wire's table plus RFC 5701 (optional transitive)

def flagsOk (code flag : Nat) : Bool :=
  match flagSpecX code with
  | some (o, t) => ((flag / 128 % 2 == 1) == o) && ((flag / 64 % 2 == 1) == t)
  | none => true

/-- Codes whose value RFC 7606 §7.8/7.10/7.14/7.15 and RFC 8092 §6 require to be a NON-ZERO multiple. -/
def nonEmptyCodes : List Nat := [8, 10, 16, 25, 32]

/-- RFC value syntax of one attribute. For the codes M-Wire decodes this is `decVal` succeeding
    (lengths and ranges of RFC 4271 §5, 1997, 4456, 4360, 8092, 6793); MP_REACH / MP_UNREACH are judged on
    their framing only (RFC 7606 §7.11: the fixed fields and the next hop must fit) — an unparsable NLRI
    inside them is an NLRI error (RFC 7606 §5.3), not an attribute error; 25 is 20-byte records (RFC 5701). -/
def wfVal (p : Params) (code : Nat) (v : Bytes) : Bool :=
  if code = 14 then decide (5 ≤ v.length ∧ 5 + v.getD 3 0 ≤ v.length)
  else if code = 15 then decide (3 ≤ v.length)
  else if code = 25 then decide (v.length % 20 = 0 ∧ v ≠ [])
  else (match decVal p code v with | .ok _ => true | .error _ => false) &&
       !(nonEmptyCodes.contains code && v.isEmpty)

/-- `wfAttr code flags value params` — RFC well-formedness of one attribute occurrence. -/
def wfAttr (p : Params) (code flag : Nat) (v : Bytes) : Bool := flagsOk code flag && wfVal p code v

/-! ## The code: TLV walk -/

/-- One attribute as `parse` cuts it out of the block: flags octet, type code, DECLARED length, and the
    bytes handed to the value decoder = `data[offset:][:length]` — fewer than declared when the declared
    length runs past the end of the block (Python slicing truncates silently). -/
structure Tlv where
  flag : Nat
  code : Nat
  dlen : Nat
  val  : Bytes
deriving DecidableEq, Repr

/-- The declared length overruns the attribute block. -/
def Tlv.overrun (t : Tlv) : Bool := t.val.length < t.dlen

/-- The TLV walk of `parse` (lines 404-429): `(attributes, cut)`, `cut` = the block ended inside an
    attribute header (`IndexError` on `data[1]`, `data[2]` or `data[3]` → `TreatAsWithdraw`, stop).
    The length field is M-Wire's `decLen`. Fuel: one unit per attribute; `bs.length` suffices. -/
def walk : Nat → Bytes → List Tlv × Bool
  | _, [] => ([], false)
  | 0, _ :: _ => ([], true)
  | _ + 1, [_] => ([], true)
  | f + 1, fb :: code :: r =>
    match decLen (Flags.ofByte fb).ext r with
    | none => ([], true)
    | some (len, body) =>
      ({ flag := fb, code := code, dlen := len, val := body.take len } :: (walk f (body.drop len)).1,
       (walk f (body.drop len)).2)

def tlvsOf (blk : Bytes) : List Tlv := (walk blk.length blk).1
def cutOf (blk : Bytes) : Bool := (walk blk.length blk).2

/-! ## The code: registry lookups -/

/-- `Attribute.klass_by_id`: the first registered class with this id. -/
def rowOf (tb : List Row) (code : Nat) : Option Row := tb.find? (fun r => r.id == code)

/-- the flags octet without the Extended Length bit (`flag | 0x10` on both sides of the comparison) -/
def noExt (flag : Nat) : Nat := flag - b2n (flag / 16 % 2 == 1) 16
/-- `flag & MASK_PARTIAL` -/
def noPart (flag : Nat) : Nat := flag - b2n (flag / 32 % 2 == 1) 32

/-- `aid in Attribute.attributes_optional`: some class registered for the id has the OPTIONAL bit. -/
def optionalCode (tb : List Row) (code : Nat) : Bool := tb.any (fun r => r.id == code && r.flag / 128 % 2 == 1)

/-- `data[0] & 0xF0`: the four unused bits are dropped on receipt (RFC 4271 §4.3). -/
def maskLow (flag : Nat) : Nat := flag / 16 * 16

/-- The flag the loop compares: the unused bits masked, PARTIAL removed when the code is an optional one. -/
def effFlag (tb : List Row) (t : Tlv) : Nat :=
  if optionalCode tb t.code then noPart (maskLow t.flag) else maskLow t.flag

/-- `Attribute.registered(aid, flag)`. Generated rows carry FLAG without the Extended Length bit. -/
def registered (tb : List Row) (code flag : Nat) : Bool := tb.any (fun r => r.id == code && r.flag == noExt flag)

/-! ## The code: value decoders (accept / how they fail) -/

/-- The repair still open (see /verif/proposed_fixes/c08b-aspath-empty-segment.md). -/
structure Fix where
  seg0 : Bool   -- C08b: an AS_PATH / AS4_PATH segment with no AS number is malformed
deriving DecidableEq, Repr

def noFix : Fix := ⟨false⟩
def allFix : Fix := ⟨true⟩

/-- Negotiated session, as far as attribute parsing depends on it. -/
structure XP where
  p        : Params
  families : List (Nat × Nat)     -- `negotiated.families`
deriving DecidableEq, Repr

inductive VOut where
  | ok
  | valueError               -- ValueError / IndexError out of the value decoder
  | notify (c s : Nat)       -- Notify out of the value decoder
  | unmodelled
deriving DecidableEq, Repr

/-- `ASPath._unpack_segments_static` as an acceptance test: type ∈ 1..4, `count` AS numbers present;
    one trailing byte is an IndexError → Notify; a count of 0 is accepted by the code (`seg0 = false`). -/
def exaSegs (seg0 : Bool) (w4 : Bool) : Nat → Bytes → Bool
  | _, [] => true
  | 0, _ :: _ => false
  | _ + 1, [_] => false
  | f + 1, t :: c :: r =>
    if t = 0 ∨ t > 4 then false
    else if c = 0 ∧ seg0 = true then false
    else match decAsns w4 c r with
      | none => false
      | some (_, rest) => exaSegs seg0 w4 f rest

/-- Hand copy of `Family.size` for the families the model covers: (afi, safi, next-hop lengths, RD size).
    `Props/C08.lean` proves it is a sub-table of the generated `FamilyTable.familySize`. -/
def mpNhLens : List (Nat × Nat × List Nat × Nat) :=
  [(1, 1, [4], 0), (1, 2, [4], 0), (1, 4, [4], 0), (1, 128, [12], 8),
   (2, 1, [16, 32], 0), (2, 2, [16, 32], 0), (2, 4, [16, 32], 0), (2, 128, [24, 40, 48], 8)]

def mpSize (afi safi : Nat) : Option (List Nat × Nat) :=
  match mpNhLens.find? (fun e => e.1 == afi && e.2.1 == safi) with
  | some e => some (e.2.2.1, e.2.2.2)
  | none => none

def sumBytes : Bytes → Nat
  | [] => 0
  | b :: t => b + sumBytes t

/-- `MPRNLRI.unpack_attribute`, the eager checks (the NLRIs are parsed later, in `_parse_payload`). -/
def exaMpReach (xp : XP) (v : Bytes) : VOut :=
  if v.length < 5 then .notify 3 9
  else if !xp.families.contains (rd16 v, v.getD 2 0) then .notify 3 0
  else if v.length < 5 + v.getD 3 0 then .notify 3 9
  else if !xp.p.extnh.isEmpty then .unmodelled
  else match mpSize (rd16 v) (v.getD 2 0) with
    | none => .unmodelled
    | some (lens, rd) =>
      if !lens.contains (v.getD 3 0) then .notify 3 0
      else if rd ≠ 0 ∧ sumBytes ((v.drop 4).take 8) ≠ 0 then .notify 3 0
      else if v.getD (4 + v.getD 3 0) 0 ≠ 0 then .notify 3 0
      else if v.length ≤ 5 + v.getD 3 0 then .notify 3 0
      else .ok

/-- `MPURNLRI.unpack_attribute`. -/
def exaMpUnreach (xp : XP) (v : Bytes) : VOut :=
  if v.length < 3 then .notify 3 9
  else if !xp.families.contains (rd16 v, v.getD 2 0) then .notify 3 0
  else .ok

/-- What `Attribute.unpack(aid, flag, value, negotiated)` does with the value, per type code. -/
def valOutcome (fx : Fix) (xp : XP) (code : Nat) (v : Bytes) : VOut :=
  if code = 1 then (if v.length ≠ 1 then .valueError else if v.getD 0 0 > 2 then .valueError else .ok)
  else if code = 2 then
    (if v.isEmpty then .ok else if exaSegs fx.seg0 xp.p.asn4 v.length v then .ok else .notify 3 11)
  else if code = 3 then (if v.length = 4 ∨ v.length = 0 then .ok else .valueError)
  else if code = 4 ∨ code = 5 ∨ code = 9 then (if v.length ≠ 4 then .valueError else .ok)
  else if code = 6 then (if v.isEmpty then .ok else .valueError)
  else if code = 7 then (if v.length ≠ (if xp.p.asn4 then 8 else 6) then .valueError else .ok)
  else if code = 8 then (if v.length % 4 ≠ 0 then .notify 3 1 else .ok)
  else if code = 10 then (if v.length % 4 ≠ 0 then .valueError else .ok)
  else if code = 14 then exaMpReach xp v
  else if code = 15 then exaMpUnreach xp v
  else if code = 16 then (if v.length % 8 ≠ 0 then .notify 3 1 else .ok)
  else if code = 17 then
    (if v.isEmpty then .ok else if exaSegs fx.seg0 true v.length v then .ok else .notify 3 11)
  else if code = 18 then (if v.length ≠ 8 then .valueError else .ok)
  else if code = 25 then (if v.length % 20 ≠ 0 then .notify 3 1 else .ok)
  else if code = 32 then (if v.length % 12 ≠ 0 then .notify 3 1 else .ok)
  else .unmodelled

/-! ## The code: one turn of the loop -/

/-- What one turn of `parse` does with one attribute. -/
inductive Dec where
  | keep                 -- decoded and added under its code
  | keepGeneric          -- unknown transitive: kept as GenericAttribute ((flag | PARTIAL) & ~EXTENDED_LENGTH, repo commit 8779602)
  | taw                  -- `TreatAsWithdraw` added, the attribute itself is gone
  | disc                 -- `Discard()` added, the attribute itself is gone
  | drop                 -- skipped without a trace
  | notify (c s : Nat)   -- a Notify leaves `parse`
  | raise                -- another exception leaves `parse` (read_message answers 1/0)
  | unmodelled
deriving DecidableEq, Repr

/-- `present` = the keys of `self` (codes added so far). -/
def decide1 (fx : Fix) (tb : List Row) (xp : XP) (present : List Nat) (t : Tlv) : Dec :=
  if t.overrun then .taw
  else match rowOf tb t.code with
  | none =>
    if present.contains t.code then .drop
    else if effFlag tb t / 64 % 2 == 1 then .keepGeneric else .drop
  | some row =>
    if present.contains t.code then (if row.noDuplicate then .notify 3 1 else .drop)
    else if registered tb t.code (effFlag tb t) then
      if t.dlen == 0 && !row.validZero then .taw
      else match valOutcome fx xp t.code t.val with
        | .ok => .keep
        | .valueError => if row.treatAsWithdraw then .taw else if row.discard then .disc else .raise
        | .notify c s => if row.treatAsWithdraw then .taw else if row.discard then .disc else .notify c s
        | .unmodelled => .unmodelled
    else
      if row.treatAsWithdraw then .taw
      else if row.discard then .drop
      else .notify 3 4

/-- An attribute in the resulting collection. `merged`: the AS_PATH that `merge_attributes` rebuilt from
    AS_PATH and AS4_PATH (its content is outside this model). -/
structure Kept where
  code   : Nat
  flag   : Nat
  val    : Bytes
  merged : Bool        -- code 2: rebuilt by `merge_attributes`; code 7: value taken over from AS4_AGGREGATOR (4-octet packing)
  as4    : Bytes := []  -- the AS4_PATH value merged into a merged AS_PATH
deriving DecidableEq, Repr

structure LoopSt where
  kept : List Kept       -- insertion order of the dict
  taw  : Bool            -- INTERNAL_TREAT_AS_WITHDRAW in attributes
  disc : Bool            -- INTERNAL_DISCARD in attributes
deriving DecidableEq, Repr

inductive Fail where
  | notify (c s : Nat)
  | raise
  | unmodelled
deriving DecidableEq, Repr

def keptOf (t : Tlv) : Kept := { code := t.code, flag := t.flag, val := t.val, merged := false }

/-- the flag octet with PARTIAL set (`flag | Attribute.Flag.PARTIAL`) -/
def withPart (flag : Nat) : Nat := flag + b2n (!(flag / 32 % 2 == 1)) 32

/-- the effect of one decision on the collection -/
def applyDec (tb : List Row) (t : Tlv) (st : LoopSt) : Dec → Except Fail LoopSt
  | .keep => .ok { st with kept := st.kept ++ [keptOf t] }
  | .keepGeneric => .ok { st with kept := st.kept ++ [{ keptOf t with flag := noExt (withPart (effFlag tb t)) }] }
  | .taw => .ok { st with taw := true }
  | .disc => .ok { st with disc := true }
  | .drop => .ok st
  | .notify c s => .error (.notify c s)
  | .raise => .error .raise
  | .unmodelled => .error .unmodelled

def loop (fx : Fix) (tb : List Row) (xp : XP) : List Tlv → LoopSt → Except Fail LoopSt
  | [], st => .ok st
  | t :: ts, st =>
    match applyDec tb t st (decide1 fx tb xp (st.kept.map (·.code)) t) with
    | .ok st' => loop fx tb xp ts st'
    | .error e => .error e

def hasKept (ks : List Kept) (c : Nat) : Bool := ks.any (fun k => k.code == c)

def findKept (ks : List Kept) (c : Nat) : Option Kept := ks.find? (fun k => k.code == c)

/-- `ASPath._unpack_segments_static` as a parser (the acceptance test is `exaSegs`): the segments, a count of 0
    included unless `seg0`. -/
def exaParseSegs (seg0 : Bool) (w4 : Bool) : Nat → Bytes → Option (List Seg)
  | _, [] => some []
  | 0, _ :: _ => none
  | _ + 1, [_] => none
  | f + 1, t :: c :: r =>
    if t = 0 ∨ t > 4 then none
    else if c = 0 ∧ seg0 = true then none
    else match decAsns w4 c r with
      | none => none
      | some (as, rest) =>
        match exaParseSegs seg0 w4 f rest with
        | none => none
        | some ss => some ((t, as) :: ss)

/-- `count(path)` of `merge_attributes`: an AS_SEQUENCE counts its AS numbers, an AS_SET one, a confederation
    segment none. -/
def countExa : List Seg → Nat
  | [] => 0
  | s :: t => (if s.1 = 2 then s.2.length else if s.1 = 1 then 1 else 0) + countExa t

/-- the `for seg in as2path.aspath` loop of `merge_attributes`: the leading part that counts for `keep` -/
def keepExa : Nat → List Seg → List Seg
  | _, [] => []
  | keep, s :: t =>
    if s.1 = 2 then
      (if s.2.length ≤ keep then s :: keepExa (keep - s.2.length) t
       else if keep ≠ 0 then [(2, s.2.take keep)] else [])
    else if s.1 = 1 then (if keep = 0 then [] else s :: keepExa (keep - 1) t)
    else s :: keepExa keep t

/-- `merge_attributes` on segments (commit 72add9c). -/
def mergeExa (as2 as4 : List Seg) : List Seg :=
  if countExa as2 < countExa as4 then as2
  else keepExa (countExa as2 - countExa as4) as2 ++ as4.filter (fun s => s.1 == 1 || s.1 == 2)

/-- `merge_aggregator` (2-octet session, 18edd12): AS4_AGGREGATOR leaves the collection; it becomes the value of
    AGGREGATOR when that carries AS_TRANS; when AGGREGATOR carries another AS, AS4_PATH is void as well;
    without AGGREGATOR nothing else happens. -/
def mergeAggregator (ks : List Kept) : List Kept :=
  match findKept ks 18 with
  | none => ks
  | some k18 =>
    match findKept ks 7 with
    | none => ks.filter (fun k => k.code != 18)
    | some k7 =>
      if rd16 k7.val == 23456 then
        (ks.filter (fun k => k.code != 18)).map (fun k => if k.code == 7 then { k with val := k18.val, merged := true } else k)
      else ks.filter (fun k => k.code != 18 && k.code != 17)

/-- `merge_attributes` as far as this model goes: AS_PATH and AS4_PATH are replaced by one merged AS_PATH,
    re-inserted at the end (its content: C02). -/
def mergePath (ks : List Kept) : List Kept :=
  if hasKept ks 2 && hasKept ks 17 then
    ks.filter (fun k => k.code != 2 && k.code != 17) ++
      [{ code := 2, flag := 64, val := ((findKept ks 2).map (·.val)).getD [],
         merged := true, as4 := ((findKept ks 17).map (·.val)).getD [] }]
  else ks

/-- `AttributeCollection.unpack` after the loop: nothing more on treat-as-withdraw; on a 4-octet session
    AS4_PATH is dropped (RFC 6793 §4.1, a0181bd); on a 2-octet session `merge_aggregator`, then `merge_attributes`. -/
def postLoop (asn4 : Bool) (st : LoopSt) : LoopSt :=
  if st.taw then st
  else if asn4 then { st with kept := st.kept.filter (fun k => k.code != 17) }
  else { st with kept := mergePath (mergeAggregator st.kept) }

def initSt : LoopSt := { kept := [], taw := false, disc := false }

/-- Loop over a list of attributes, the cut header (→ `TreatAsWithdraw`), post-processing. -/
def blockAttrs (fx : Fix) (tb : List Row) (xp : XP) (ts : List Tlv) (cut : Bool) : Except Fail LoopSt :=
  match loop fx tb xp ts initSt with
  | .error e => .error e
  | .ok st => .ok (postLoop xp.p.asn4 { st with taw := st.taw || cut })

/-- The whole attribute block. -/
def parseBlock (fx : Fix) (tb : List Row) (xp : XP) (blk : Bytes) : Except Fail LoopSt :=
  blockAttrs fx tb xp (tlvsOf blk) (cutOf blk)

/-- `data.attributes` as reported: MP_REACH / MP_UNREACH are popped by `_parse_payload`. -/
def reportedAttrs (st : LoopSt) : List Kept := st.kept.filter (fun k => k.code != 14 && k.code != 15)

/-! ## The code: `_parse_payload` -/

abbrev Route := Nat × Nat × Nlri      -- (afi, safi, NLRI)

structure Rep where
  announce : List Route
  withdraw : List Route
  attrs    : List Kept      -- `data.attributes` without the pseudo-attributes and without MP_REACH / MP_UNREACH (popped)
  taw      : Bool
  disc     : Bool           -- read_message hands the reactor a NOP instead of the UPDATE (after the API event)
deriving DecidableEq, Repr

def ofErr (e : Err) : Fail := .notify e.1 e.2

def nlriField (xp : XP) (afi safi : Nat) (wd : Bool) (bs : Bytes) : Except Fail (List Route) :=
  if supported afi safi then
    match decNlris afi safi (xp.p.ap afi safi) wd bs.length bs with
    | .error e => .error (ofErr e)
    | .ok ns => .ok (ns.map (fun n => (afi, safi, n)))
  else if bs.isEmpty then .ok [] else .error .unmodelled

/-- Routes of the MP_UNREACH_NLRI / MP_REACH_NLRI kept by the loop (parsed lazily by `_parse_payload`). -/
def mpWithdrawn (xp : XP) (ks : List Kept) : Except Fail (List Route) :=
  match findKept ks 15 with
  | none => .ok []
  | some k => nlriField xp (rd16 k.val) (k.val.getD 2 0) true (k.val.drop 3)

def mpAnnounced (xp : XP) (ks : List Kept) : Except Fail (List Route) :=
  match findKept ks 14 with
  | none => .ok []
  | some k => nlriField xp (rd16 k.val) (k.val.getD 2 0) false (k.val.drop (5 + k.val.getD 3 0))

/-- Everything `_parse_payload` has in hand before it builds the UpdateCollection. -/
structure Parts where
  st    : LoopSt
  wd4   : List Route     -- WITHDRAWN ROUTES
  ann4  : List Route     -- NLRI field
  wdMp  : List Route     -- MP_UNREACH_NLRI kept by the loop
  annMp : List Route     -- MP_REACH_NLRI kept by the loop
deriving DecidableEq, Repr

/-- The routes the UPDATE carries as reachable: the NLRI field and the MP_REACH_NLRI. -/
def Parts.nlri (pt : Parts) : List Route := pt.ann4 ++ pt.annMp

/-- What `_parse_payload` makes of it: a marked UPDATE announces nothing and withdraws every route it carries. -/
def assemble (pt : Parts) : Rep :=
  if pt.st.taw then
    { announce := [], withdraw := pt.wd4 ++ pt.wdMp ++ pt.nlri,
      attrs := reportedAttrs pt.st, taw := pt.st.taw, disc := pt.st.disc }
  else
    { announce := pt.nlri, withdraw := pt.wd4 ++ pt.wdMp,
      attrs := reportedAttrs pt.st, taw := pt.st.taw, disc := pt.st.disc }

/-- `UpdateCollection.split`: (withdrawn routes, attribute block, NLRI). -/
def splitBody (bs : Bytes) : Except Fail (Bytes × Bytes × Bytes) :=
  if bs.length < 4 then .error (.notify 1 2)
  else if bs.length < 4 + rd16 bs then .error (.notify 3 1)
  else if bs.length < 4 + rd16 bs + rd16 (bs.drop (2 + rd16 bs)) then .error (.notify 3 1)
  else .ok ((bs.drop 2).take (rd16 bs),
            (bs.drop (4 + rd16 bs)).take (rd16 (bs.drop (2 + rd16 bs))),
            bs.drop (4 + rd16 bs + rd16 (bs.drop (2 + rd16 bs))))

def emptyRep : Rep := { announce := [], withdraw := [], attrs := [], taw := false, disc := false }

def eorPrefix : Bytes := [0, 0, 0, 7, 0x90, 0x0f, 0, 3]

/-- The End-of-RIB fast paths of `Update.unpack_message` (nothing is parsed). -/
def eorFast (body : Bytes) : Bool :=
  body == [0, 0, 0, 0] || (body.length == 11 && body.take 8 == eorPrefix)

/-- `Message.unpack(UPDATE, body, negotiated)` up to the construction of the UpdateCollection, in the order of
    evaluation of the code: split, attributes, withdrawn routes, NLRI, MP_UNREACH, MP_REACH. -/
def decodeParts (fx : Fix) (tb : List Row) (xp : XP) (body : Bytes) : Except Fail Parts :=
  match splitBody body with
  | .error e => .error e
  | .ok (w, blk, n) =>
    match parseBlock fx tb xp blk with
    | .error e => .error e
    | .ok st =>
      match nlriField xp 1 1 true w with
      | .error e => .error e
      | .ok wd4 =>
        match nlriField xp 1 1 false n with
        | .error e => .error e
        | .ok ann4 =>
          match mpWithdrawn xp st.kept with
          | .error e => .error e
          | .ok wdMp =>
            match mpAnnounced xp st.kept with
            | .error e => .error e
            | .ok annMp => .ok { st := st, wd4 := wd4, ann4 := ann4, wdMp := wdMp, annMp := annMp }

/-- `Message.unpack(UPDATE, body, negotiated)` → `.data`. -/
def decodeWith (fx : Fix) (tb : List Row) (xp : XP) (body : Bytes) : Except Fail Rep :=
  if eorFast body then .ok emptyRep
  else match decodeParts fx tb xp body with
    | .error e => .error e
    | .ok pt => .ok (assemble pt)

/-- The model of the code as it is, on the generated table. -/
def decodeExa (xp : XP) (body : Bytes) : Except Fail Rep :=
  decodeWith noFix Exa.Generated.AttrTable.attrTable xp body

/-! ## Reading a body the way the property quantifies over it -/

/-- The attribute block of a body that splits. -/
def blockOf (body : Bytes) : Bytes :=
  match splitBody body with
  | .ok (_, blk, _) => blk
  | .error _ => []

/-- The attribute occurrences of a body, in wire order. -/
def occurrences (body : Bytes) : List Tlv := tlvsOf (blockOf body)

/-- RFC-malformed occurrence: flags or value break the RFC syntax, or the declared length overruns the block. -/
def malformed (p : Params) (t : Tlv) : Bool := !(wfAttr p t.code t.flag t.val) || t.overrun

/-! ## Hypotheses of the theorems -/

/-- The codes RFC 7606 §7 (and RFC 6793, 8092) speak about; all of them have a value decoder in this model. -/
def specCodes : List Nat := [1, 2, 3, 4, 5, 6, 7, 8, 9, 10, 14, 15, 16, 17, 18, 25, 32]

/-- Codes whose value decoder must never see an empty value: the RFC non-empty lists, and NEXT_HOP (whose
    decoder maps the empty value to `NextHop.UNSET`). The zero-length test of the loop (no VALID_ZERO) and the
    overrun test keep the empty value away from them. -/
def mustNonEmpty : List Nat := 3 :: nonEmptyCodes

/-- What the theorems need of one table row: its FLAG is the RFC's Optional/Transitive pair; a DISCARD-only
    class is used only where the RFC asks for attribute discard; a value that must be non-empty has no
    VALID_ZERO; an error of the value decoder meets a class flag unless the RFC class is session reset. -/
def rowOk (r : Row) : Bool :=
  (match flagSpecX r.id with
   | some (o, t) => r.flag == b2n o 128 + b2n t 64
   | none => true) &&
  (!(specCodes.contains r.id) || !r.discard || r.treatAsWithdraw || rfc7606Class r.id == some .discard) &&
  (!(mustNonEmpty.contains r.id) || !r.validZero)

/-- The table property under which the theorems are proved (`decide`d for the generated table in Props/C08). -/
def TableOk (tb : List Row) : Prop :=
  (∀ r ∈ tb, rowOk r = true) ∧ (∀ c ∈ specCodes, (rowOf tb c).isSome = true)

instance (tb : List Row) : Decidable (TableOk tb) := by unfold TableOk; exact inferInstance

/-- The occurrence does not fall into the hole the open repair closes: whatever the value decoder of the tree
    accepts, the repaired one accepts too. True for every occurrence when `fx = allFix`; for the code as it is it
    excludes exactly the AS_PATH / AS4_PATH values accepted only because an empty segment is let through (C08b). -/
def GapFree (fx : Fix) (xp : XP) (t : Tlv) : Prop :=
  valOutcome fx xp t.code t.val = .ok → valOutcome allFix xp t.code t.val = .ok

end Exa.Attr7606
