/-
  M-Wire — the RFC reference UPDATE codec (NOT a model of ExaBGP; written from the RFC layouts).
  Files: Model/WireNlri.lean (Params, NLRI), Model/WireAttr.lean (attributes), this file (UPDATE,
  RFC 6793 merge, End-of-RIB, the canonical Report). Lemmas: Lemmas/WireNlri.lean, WireAttr.lean,
  Wire.lean, WireMerge.lean. Property theorems: Props/C02.lean. Driver: Driver/Wire.lean (`drv_wire`).

  ## Interface (namespace `Exa.Wire`)

  * `Params`   = { asn4 : Bool, addpath : List (afi × safi)  -- families for which the PEER sends path ids,
                   extnh : List (afi × safi)  -- RFC 8950 families, msgSize : Nat }
  * `Nlri`     = { pathId : Option Nat, labels : List Nat (20-bit values; [] in SAFI 1/2 and for the
                   0x800000 withdraw form), rd : Bytes (8 or 0), plen : Nat, pfx : Bytes }
  * `Flags`    = { opt, trans, part, ext : Bool }      (`ext` = Extended Length bit)
  * `AttrVal`  = origin | asPath segs | nextHop ip | med | localPref | atomicAggregate | aggregator asn ip
                 | communities | originatorId | clusterList | mpReach afi safi nh nlris | mpUnreach afi safi nlris
                 | extCommunities (hi,lo) | as4Path | as4Aggregator | largeCommunities (a,b,c)
                 | mpReachRaw / mpUnreachRaw (families outside AFI 1/2 × SAFI 1,2,4,128: NLRI opaque)
                 | unknown code raw;        `AttrVal.code`, `Seg = type × List asn`
  * `Attr`     = { flags : Flags, val : AttrVal },  `Attr.code`
  * `UpdateSem`= { withdrawn : List Nlri, attrs : List Attr, nlri : List Nlri }
  * `encodeUpdate : Params → UpdateSem → Bytes`                       (UPDATE body, after the 19-byte header)
  * `decodeRaw    : Params → Bytes → Except Err UpdateSem`            (syntax only)
  * `semErr       : Params → UpdateSem → Option Err`                  (duplicate attribute 3/1, missing mandatory 3/3,
                                                                       MP next-hop length 3/9)
  * `decodeUpdate : Params → Bytes → Except Err UpdateSem`            (= size check 1/2, decodeRaw, semErr)
      errors: (1,2) body shorter than 4 / longer than msgSize−19; (3,1) lengths or attribute TLV overrun,
      duplicate attribute; (3,2) unrecognised well-known; (3,3) missing mandatory; (3,4) flags; (3,5) length;
      (3,6) ORIGIN; (3,9) MP attribute; (3,10) NLRI; (3,11) AS_PATH / AS4_PATH.
    Building blocks, reusable on their own: `encNlri/decNlri/decNlris`, `encAttr/decAttr/decAttrs`,
    `encVal/decVal`, `flagErr`, `specTable`, `WFNlri`, `WFAttr`, `WFUpdate`.
  * `eorFamily : UpdateSem → Option (afi × safi)`                     (RFC 4724 §2)
  * `merge6793 : List Seg → List Seg → List Seg`                      (RFC 6793 §4.2.3), `pathCount`, `takeUnits`
  * `report : Params → UpdateSem → Report`  — canonical form both sides are compared on:
      announce : (afi, safi, next-hop address bytes, Nlri) in wire order (IPv4 NLRI field first, then MP_REACH);
      withdraw : (afi, safi, Nlri with labels erased: RFC 8277 §2.4 — the label of a withdrawal carries nothing);
      attrs    : attribute values sorted by code, without MP_REACH/MP_UNREACH, without unrecognised optional
                 non-transitive attributes, and after RFC 6793: on a 2-byte session AS_PATH := merge, AGGREGATOR :=
                 AS4_AGGREGATOR when AGGREGATOR carries AS_TRANS (if it does not, AS4_PATH is ignored as well);
                 AS4_PATH / AS4_AGGREGATOR themselves never appear (on a 4-byte session they are discarded);
      eor      : eorFamily.

  Proved (Props/C02.lean): `wire_left_inverse`, `decode_consumes_all`, `merge_rfc6793`, `eor_iff`.
-/
import ExaModel.Model.WireAttr

namespace Exa.Wire
open Exa

structure UpdateSem where
  withdrawn : List Nlri      -- WITHDRAWN ROUTES (IPv4 unicast)
  attrs     : List Attr      -- path attributes, in wire order
  nlri      : List Nlri      -- NLRI field (IPv4 unicast)
deriving Repr, DecidableEq

/-! ### UPDATE body (RFC 4271 §4.3) -/

def encodeUpdate (p : Params) (u : UpdateSem) : Bytes :=
  be16 (encNlris 1 true u.withdrawn).length ++ (encNlris 1 true u.withdrawn ++
    (be16 (encAttrs p u.attrs).length ++ (encAttrs p u.attrs ++ encNlris 1 false u.nlri)))

/-- Syntax: the three fields and what is in them. -/
def decodeRaw (p : Params) (bs : Bytes) : Except Err UpdateSem :=
  if bs.length < 4 then .error (1, 2)
  else if bs.length < 4 + rd16 bs then .error (3, 1)
  else if bs.length < 4 + rd16 bs + rd16 (bs.drop (2 + rd16 bs)) then .error (3, 1)
  else
    match decNlris 1 1 (p.ap 1 1) true (rd16 bs) ((bs.drop 2).take (rd16 bs)) with
    | .error e => .error e
    | .ok w =>
      match decAttrs p (rd16 (bs.drop (2 + rd16 bs)))
          ((bs.drop (4 + rd16 bs)).take (rd16 (bs.drop (2 + rd16 bs)))) with
      | .error e => .error e
      | .ok as =>
        match decNlris 1 1 (p.ap 1 1) false (bs.drop (4 + rd16 bs + rd16 (bs.drop (2 + rd16 bs)))).length
            (bs.drop (4 + rd16 bs + rd16 (bs.drop (2 + rd16 bs)))) with
        | .error e => .error e
        | .ok n => .ok { withdrawn := w, attrs := as, nlri := n }

def hasCode (as : List Attr) (c : Nat) : Bool := as.any (fun a => a.code == c)

def dupCode : List Attr → Bool
  | [] => false
  | a :: t => hasCode t a.code || dupCode t

/-- Next-hop lengths RFC 4760 / 2545 / 4364 / 4659 / 8950 allow for a family. -/
def nhLenOk (p : Params) (afi safi len : Nat) : Bool :=
  let base := if safi == 128 then 8 else 0
  let v4 := len == base + 4
  let v6 := len == base + 16 || len == 2 * (base + 16)
  if afi == 1 then v4 || (p.extnh.contains (afi, safi) && v6) else v6

def mpErr (p : Params) (a : Attr) : Bool :=
  match a.val with
  | .mpReach afi safi nh ns => !(nhLenOk p afi safi nh.length) || ns.isEmpty
  | _ => false

/-- Semantic checks of RFC 4271 §6.3 that do not belong to one attribute. -/
def semErr (p : Params) (u : UpdateSem) : Option Err :=
  if dupCode u.attrs then some (3, 1)
  else if u.attrs.any (mpErr p) then some (3, 9)
  else if !u.nlri.isEmpty && !(hasCode u.attrs 1 && hasCode u.attrs 2 && hasCode u.attrs 3) then some (3, 3)
  else if hasCode u.attrs 14 && !(hasCode u.attrs 1 && hasCode u.attrs 2) then some (3, 3)
  else none

def decodeUpdate (p : Params) (bs : Bytes) : Except Err UpdateSem :=
  if bs.length + 19 > p.msgSize then .error (1, 2)
  else match decodeRaw p bs with
    | .error e => .error e
    | .ok u => match semErr p u with
      | some e => .error e
      | none => .ok u

/-- What a peer may send under `p` (the hypothesis of `wire_left_inverse`). -/
def WFUpdate (p : Params) (u : UpdateSem) : Prop :=
  (∀ n ∈ u.withdrawn, WFNlri 1 1 (p.ap 1 1) true n) ∧
  (∀ a ∈ u.attrs, WFAttr p a) ∧
  (∀ n ∈ u.nlri, WFNlri 1 1 (p.ap 1 1) false n) ∧
  (encNlris 1 true u.withdrawn).length < 65536 ∧ (encAttrs p u.attrs).length < 65536 ∧
  (encodeUpdate p u).length + 19 ≤ p.msgSize ∧
  semErr p u = none

/-! ### End-of-RIB (RFC 4724 §2) -/

/-- An UPDATE with no withdrawn routes, no NLRI and no attribute is the IPv4 unicast marker; one
    whose only attribute is an MP_UNREACH_NLRI without routes is the marker of that family. -/
def eorFamily (u : UpdateSem) : Option (Nat × Nat) :=
  if u.withdrawn.isEmpty && u.nlri.isEmpty then
    match u.attrs with
    | [] => some (1, 1)
    | [a] =>
      match a.val with
      | .mpUnreach afi safi [] => some (afi, safi)
      | .mpUnreachRaw afi safi [] => some (afi, safi)
      | _ => none
    | _ => none
  else none

/-! ### RFC 6793 §4.2.3 — AS path reconstruction, on segments -/

/-- Number of AS numbers a segment counts for (RFC 4271 §9.1.2.2 a: an AS_SET counts as one;
    RFC 5065 §5.3: confederation segments are not counted). -/
def segCount (s : Seg) : Nat := if s.1 = 2 then s.2.length else if s.1 = 1 then 1 else 0

def pathCount : List Seg → Nat
  | [] => 0
  | s :: t => segCount s + pathCount t

/-- The leading part of a path that counts for `k` AS numbers: whole segments while they fit, a
    prefix of the AS_SEQUENCE in which the count is reached; confederation segments in front of or
    next to a taken segment are taken with it (RFC 6793 §4.2.3, last sentence). -/
def takeUnits : Nat → List Seg → List Seg
  | _, [] => []
  | k, s :: t =>
    if s.1 = 2 then
      (if s.2.length ≤ k then s :: takeUnits (k - s.2.length) t
       else if k = 0 then [] else [(s.1, s.2.take k)])
    else if s.1 = 1 then (if k = 0 then [] else s :: takeUnits (k - 1) t)
    else s :: takeUnits k t

/-- The AS_SET and AS_SEQUENCE segments of a path: the only ones valid in an AS4_PATH (RFC 6793 §3); a
    receiver discards the confederation segments of an AS4_PATH (RFC 6793 §6). -/
def plainSegs (l : List Seg) : List Seg := l.filter (fun s => s.1 == 1 || s.1 == 2)

/-- AS path information from AS_PATH and AS4_PATH received from a 2-byte speaker. -/
def merge6793 (as2 as4 : List Seg) : List Seg :=
  if pathCount as2 < pathCount as4 then as2
  else takeUnits (pathCount as2 - pathCount as4) as2 ++ plainSegs as4

def asTrans : Nat := 23456

/-! ### the canonical Report -/

structure Report where
  announce : List (Nat × Nat × Bytes × Nlri)
  withdraw : List (Nat × Nat × Nlri)
  attrs    : List AttrVal
  eor      : Option (Nat × Nat)
deriving Repr, DecidableEq

/-- The address a route is reachable through: the first address of the MP next-hop field, without
    the zero RD of the VPN families. -/
def nhAddr (safi : Nat) (nh : Bytes) : Bytes :=
  let b := nh.drop (if safi == 128 then 8 else 0)
  if b.length == 4 then b else b.take 16

def findAsPath : List Attr → Option (List Seg)
  | [] => none
  | a :: t => match a.val with | .asPath s => some s | _ => findAsPath t
def findAs4Path : List Attr → Option (List Seg)
  | [] => none
  | a :: t => match a.val with | .as4Path s => some s | _ => findAs4Path t
def findAgg : List Attr → Option (Nat × Nat)
  | [] => none
  | a :: t => match a.val with | .aggregator x y => some (x, y) | _ => findAgg t
def findAgg4 : List Attr → Option (Nat × Nat)
  | [] => none
  | a :: t => match a.val with | .as4Aggregator x y => some (x, y) | _ => findAgg4 t
def findNextHop : List Attr → Option Nat
  | [] => none
  | a :: t => match a.val with | .nextHop ip => some ip | _ => findNextHop t

/-- RFC 6793 §4.2.3: AS4_AGGREGATOR and AS4_PATH are used unless both aggregator attributes are
    present and AGGREGATOR does not carry AS_TRANS. -/
def useAs4 (as : List Attr) : Bool :=
  match findAgg as, findAgg4 as with
  | some (asn, _), some _ => asn == asTrans
  | _, _ => true

def insertVal (v : AttrVal) : List AttrVal → List AttrVal
  | [] => [v]
  | w :: t => if v.code ≤ w.code then v :: w :: t else w :: insertVal v t

def sortVals : List AttrVal → List AttrVal
  | [] => []
  | v :: t => insertVal v (sortVals t)

/-- AIGP, RFC 7311 §3. -/
def aigpCode : Nat := 26

/-- One attribute as it is reported (`none`: not part of the report). -/
def reportVal (p : Params) (as : List Attr) (a : Attr) : Option AttrVal :=
  match a.val with
  | .mpReach .. | .mpUnreach .. | .mpReachRaw .. | .mpUnreachRaw .. => none
  | .as4Path _ | .as4Aggregator _ _ => none
  | .unknown c raw =>
    -- an unrecognised optional non-transitive attribute is quietly ignored (RFC 4271 §5); AIGP (26, RFC 7311:
    -- optional non-transitive, carried here as the bytes it is) is accepted from a peer for which
    -- AIGP_SESSION is enabled and treated as absent otherwise (RFC 7311 §3.3)
    if a.flags.trans then some (.unknown c raw)
    else if c == aigpCode && p.aigp then some (.unknown c raw) else none
  | .asPath s =>
    if p.asn4 then some (.asPath s)
    else match findAs4Path as with
      | some s4 => if useAs4 as then some (.asPath (merge6793 s s4)) else some (.asPath s)
      | none => some (.asPath s)
  | .aggregator asn ip =>
    if p.asn4 then some (.aggregator asn ip)
    else match findAgg4 as with
      | some (a4, ip4) => if asn == asTrans then some (.aggregator a4 ip4) else some (.aggregator asn ip)
      | none => some (.aggregator asn ip)
  | v => some v

def eraseLabels (n : Nlri) : Nlri := { n with labels := [] }

def mpAnnounces : List Attr → List (Nat × Nat × Bytes × Nlri)
  | [] => []
  | a :: t =>
    (match a.val with
     | .mpReach afi safi nh ns => ns.map (fun n => (afi, safi, nhAddr safi nh, n))
     | _ => []) ++ mpAnnounces t

def mpWithdraws : List Attr → List (Nat × Nat × Nlri)
  | [] => []
  | a :: t =>
    (match a.val with
     | .mpUnreach afi safi ns => ns.map (fun n => (afi, safi, eraseLabels n))
     | _ => []) ++ mpWithdraws t

def report (p : Params) (u : UpdateSem) : Report :=
  let nh : Bytes := match findNextHop u.attrs with | some ip => be32 ip | none => []
  { announce := u.nlri.map (fun n => (1, 1, nh, n)) ++ mpAnnounces u.attrs,
    withdraw := u.withdrawn.map (fun n => (1, 1, eraseLabels n)) ++ mpWithdraws u.attrs,
    attrs := sortVals (u.attrs.filterMap (reportVal p u.attrs)),
    eor := eorFamily u }

end Exa.Wire
