/-
  M-Wire-Exa — model of ExaBGP's UPDATE *encoder* for one announced route (property C01).

  What is modelled (read from /repo/src/exabgp, function by function):
    configuration/static/parser.py   community / extended-community / large-community: every `add` re-sorts
                                     by packed bytes; large communities drop duplicates                  → `normAttr`
    bgp/neighbor/session.py          `ip_self` (next-hop self)                                        → `ipSelf`
    bgp/message/open/capability/negotiated.py  `_negotiate`: local_as = the AS of the ASN4 capability we sent, else
                                     the 2-byte field of our OPEN; peer_as corrected from the peer's ASN4
                                     capability only when asn4 was negotiated                          → `negLocalAs`, `negPeerAs`
    update/attribute/attribute.py    `Attribute._attribute` (header, extended length, empty optional)  → `hdr`
    update/attribute/collection.py   `AttributeCollection.pack_attribute` (sorted codes, defaults
                                     ORIGIN / AS_PATH / LOCAL_PREF, skip rules NEXT_HOP / LOCAL_PREF) → `packCode`, `attrBytes`
    update/attribute/aspath.py       `ASPath.pack_attribute` (AS_TRANS + AS4_PATH), `_segment`          → `packAsPath`, `packSeg`
    update/attribute/aggregator.py   `Aggregator.pack_attribute` (AS_TRANS + AS4_AGGREGATOR)           → `packAggregator`
    update/nlri/inet.py label.py ipvpn.py   `pack_nlri` (ADD-PATH path id, mask, labels, RD, prefix)   → `packNlri`
    update/nlri/collection.py        `_encode_nexthop`, `_attribute_header`, `packed_reach_attributes` → `mpNextHop`, `mpReach`
    update/collection.py             `UpdateCollection.messages` for one announce (classic / MP split,
                                     size checks)                                                      → `encodeExa`
  Constants (attribute flags, 255, AS_TRANS, the SAFIs sent in the classic NLRI field, RD sizes) and two
  structural facts read from the AST (is the default AS_PATH built with `asn4=True`; does `messages()`
  consult `negotiated.nexthop`) come from `Generated/ExaEncTable.lean`, re-extracted from /repo on every run.
  The model follows /repo HEAD including the repairs 000775c (F4), eb54ac4 (default AS_PATH of a 4-octet AS),
  b4bc906 (IPv4 multicast in MP_REACH) and 9c66abf (a prefix that does not fit is left out, nothing raises).

  Not modelled: attributes other than the eleven keywords of `ReqAttr` (generic `attribute [..]`, aigp,
  bgp-prefix-sid: see C15), families other than AFI 1/2 × SAFI 1/2/4/128, `split`, several routes in
  one `UpdateCollection` (C09), auto-discovered local addresses.
-/
import ExaModel.Model.Wire
import ExaModel.Generated.ExaEncTable

namespace Exa.WireExa
open Exa Exa.Wire
open Exa.Generated.ExaEncTable

/-! ### what the operator wrote -/

/-- `next-hop <ipv4>` | `next-hop <ipv6>` | `next-hop self` -/
inductive NhReq where
  | v4 (a : Bytes)
  | v6 (a : Bytes)
  | self
deriving Repr, DecidableEq

/-- One attribute keyword of the static route grammar, with the value as written. -/
inductive ReqAttr where
  | origin (v : Nat)                                  -- origin igp|egp|incomplete = 0|1|2
  | asPath (segs : List Seg)                          -- as-path [ 1 2 ] ( 3 4 ) …   (2 = sequence `[ ]`, 1 = set `( )`)
  | med (v : Nat)
  | localPref (v : Nat)
  | atomicAggregate
  | aggregator (asn ip : Nat)
  | communities (cs : List Nat)                       -- in the order written
  | originatorId (ip : Nat)
  | clusterList (ids : List Nat)
  | extCommunities (cs : List (Nat × Nat))            -- 8-byte values as (high, low) 32-bit halves, as written
  | largeCommunities (cs : List (Nat × Nat × Nat))
deriving Repr, DecidableEq

def ReqAttr.code : ReqAttr → Nat
  | .origin _ => 1 | .asPath _ => 2 | .med _ => 4 | .localPref _ => 5 | .atomicAggregate => 6
  | .aggregator _ _ => 7 | .communities _ => 8 | .originatorId _ => 9 | .clusterList _ => 10
  | .extCommunities _ => 16 | .largeCommunities _ => 32

structure RouteReq where
  afi     : Nat               -- 1 | 2 (from the prefix)
  safi    : Nat               -- 128 if `rd`, else 4 if `label`, else 1 / 2 (multicast range) from the prefix
  plen    : Nat
  pfx     : Bytes             -- ceil(plen/8) bytes
  pathId  : Option Nat        -- `path-information`
  labels  : List Nat          -- `label [ … ]`
  rd      : Bytes             -- `rd`: 8 bytes, [] if none
  nexthop : NhReq
  attrs   : List ReqAttr      -- in the order written
deriving Repr, DecidableEq

/-- The session, as configured and as the two OPENs negotiated it. -/
structure SessParams where
  localAs   : Nat                  -- the configured (true) local AS
  peerAs    : Nat                  -- the peer's true AS
  sentAsn4  : Bool                 -- our OPEN carries the 4-byte AS capability
  asn4      : Bool                 -- both OPENs carry it (4-byte AS numbers on the wire)
  apSend    : List (Nat × Nat)     -- families for which we send path identifiers (RFC 7911)
  extnh     : List (Nat × Nat)     -- families for which RFC 8950 was negotiated
  msgSize   : Nat                  -- 4096 | 65535
  localAddr : Bytes                -- local address of the TCP session (4 or 16 bytes)
  routerId  : Bytes                -- 4 bytes
  linkLocal : Option Bytes         -- link-local next-hop capability negotiated, peer directly connected, and a
                                   -- local link-local address configured: that address (16 bytes)
deriving Repr, DecidableEq

/-- How the receiving side must read our UPDATEs. -/
def paramsOf (p : SessParams) : Params :=
  { asn4 := p.asn4, addpath := p.apSend, extnh := p.extnh, msgSize := p.msgSize }

/-! ### negotiated view of the AS numbers (`Negotiated._negotiate`) -/

/-- `local_as`: the AS of the ASN4 capability we sent (the true one), else the 2-byte field of our
    OPEN, i.e. AS_TRANS for a 4-byte AS (finding F4, repaired by 000775c for the first case). -/
def negLocalAs (p : SessParams) : Nat :=
  if p.sentAsn4 then p.localAs else if p.localAs > asnMax2 then exaAsTrans else p.localAs

/-- `peer_as` is read from the peer's ASN4 capability only when 4-byte AS was negotiated. -/
def negPeerAs (p : SessParams) : Nat :=
  if p.peerAs > asnMax2 then (if p.asn4 then p.peerAs else exaAsTrans) else p.peerAs

/-- `left == right` in `pack_attribute`. -/
def sameAs (p : SessParams) : Bool := negLocalAs p == negPeerAs p

/-! ### text → objects: the parts that change a value -/

def insertBy {α : Type} (key : α → Nat) (x : α) : List α → List α
  | [] => [x]
  | y :: t => if key x < key y then x :: y :: t else y :: insertBy key x t

/-- `communities.append(x); communities.sort()` for every element in turn (stable). -/
def sortBy {α : Type} (key : α → Nat) (l : List α) : List α := l.foldl (fun acc x => insertBy key x acc) []

def dedupKeep {α : Type} [DecidableEq α] : List α → List α → List α
  | seen, [] => seen.reverse
  | seen, x :: t => if x ∈ seen then dedupKeep seen t else dedupKeep (x :: seen) t

/-- `if lc in large_communities.communities: continue` -/
def dedup {α : Type} [DecidableEq α] (l : List α) : List α := dedupKeep [] l

def key2 (c : Nat × Nat) : Nat := c.1 * 4294967296 + c.2
def key3 (c : Nat × Nat × Nat) : Nat := (c.1 * 4294967296 + c.2.1) * 4294967296 + c.2.2

/-- What `parse_route_text` stores for a keyword. -/
def normAttr : ReqAttr → ReqAttr
  | .communities cs => .communities (sortBy id cs)
  | .extCommunities cs => .extCommunities (sortBy key2 cs)
  | .largeCommunities cs => .largeCommunities (sortBy key3 (dedup cs))
  | a => a

/-- The first attribute of code `c` as written (`AttributeCollection.add` ignores a second one). -/
def firstOf (as : List ReqAttr) (c : Nat) : Option ReqAttr := as.find? (fun a => a.code == c)

/-- All extended communities of the route: `AttributeCollection.add` merges a repeated
    `extended-community` keyword into the first one. -/
def extAll : List ReqAttr → List (Nat × Nat)
  | [] => []
  | .extCommunities cs :: t => cs ++ extAll t
  | _ :: t => extAll t

/-- What the `AttributeCollection` of the parsed route holds under code `c`. -/
def given (as : List ReqAttr) (c : Nat) : Option ReqAttr :=
  if c = 16 then (match firstOf as 16 with
    | some _ => some (.extCommunities (sortBy key2 (extAll as)))
    | none => none)
  else (firstOf as c).map normAttr

/-! ### next hop -/

/-- `SessionSettings.ip_self(afi)`: the local address when it has the family of the route, else the
    router id for an IPv4 route, else TypeError. -/
def ipSelf (p : SessParams) (afi : Nat) : Option Bytes :=
  if (afi == 1 && p.localAddr.length == 4) || (afi == 2 && p.localAddr.length == 16) then some p.localAddr
  else if afi == 1 then some p.routerId
  else none

/-- `neighbor.resolve_self(route)`: the address the route is sent with. -/
def resolveNh (p : SessParams) (r : RouteReq) : Option Bytes :=
  match r.nexthop with
  | .v4 a => some a
  | .v6 a => some a
  | .self => ipSelf p r.afi

/-! ### attribute header (`Attribute._attribute`) -/

def flagOf (code : Nat) : Nat :=
  match encFlags.find? (fun x => x.1 == code) with
  | some x => x.2
  | none => 0

def hasBit (flag bit : Nat) : Bool := flag / bit % 2 == 1

def hdrWith (flag code : Nat) (v : Bytes) : Bytes :=
  if hasBit flag flagOptional && v.isEmpty then []
  else
    let flag' := if v.length > attrLenExtendedMax && !(hasBit flag flagExtended) then flag + flagExtended else flag
    if hasBit flag' flagExtended then flag' :: code :: (be16 v.length ++ v)
    else flag' :: code :: v.length :: v

def hdr (code : Nat) (v : Bytes) : Bytes := hdrWith (flagOf code) code v

/-! ### attribute values -/

def packAsn (w4 : Bool) (a : Nat) : Bytes := if w4 then be32 a else be16 a

def packAsns (w4 : Bool) : List Nat → Bytes
  | [] => []
  | a :: t => packAsn w4 a ++ packAsns w4 t

/-- `ASPath._segment`: nothing for an empty segment, pieces of at most 255 for a long one. Fuel ≥ length. -/
def packSeg (w4 : Bool) (t : Nat) : Nat → List Nat → Bytes
  | 0, _ => []
  | f + 1, vs =>
    if vs.length = 0 then []
    else if vs.length > segmentMax then packSeg w4 t f (vs.take segmentMax) ++ packSeg w4 t f (vs.drop segmentMax)
    else t :: vs.length :: packAsns w4 vs

def packSegs (w4 : Bool) : List Seg → Bytes
  | [] => []
  | s :: t => packSeg w4 s.1 (s.2.length + 1) s.2 ++ packSegs w4 t

def isBig (a : Nat) : Bool := a > asnMax2

def transAsn (a : Nat) : Nat := if isBig a then exaAsTrans else a

def transSegs (segs : List Seg) : List Seg := segs.map (fun s => (s.1, s.2.map transAsn))

def hasBig (segs : List Seg) : Bool := segs.any (fun s => s.2.any isBig)

/-- `ASPath.pack_attribute` -/
def packAsPath (p : SessParams) (segs : List Seg) : Bytes :=
  if p.asn4 then hdr 2 (packSegs true segs)
  else hdr 2 (packSegs false (transSegs segs)) ++
    (if hasBig (plainSegs segs) then hdr 17 (packSegs true (plainSegs segs)) else [])

/-- `Aggregator.pack_attribute` -/
def packAggregator (p : SessParams) (asn ip : Nat) : Bytes :=
  if p.asn4 then hdr 7 (be32 asn ++ be32 ip)
  else if !(isBig asn) then hdr 7 (be16 asn ++ be32 ip)
  else hdr 7 (be16 exaAsTrans ++ be32 ip) ++ hdr 18 (be32 asn ++ be32 ip)

def packU32s : List Nat → Bytes
  | [] => []
  | a :: t => be32 a ++ packU32s t

/-- `attribute.pack_attribute(negotiated)` for an attribute the operator gave. -/
def packGiven (p : SessParams) : ReqAttr → Bytes
  | .origin v => hdr 1 [v]
  | .asPath segs => packAsPath p segs
  | .med v => hdr 4 (be32 v)
  | .localPref v => hdr 5 (be32 v)
  | .atomicAggregate => hdr 6 []
  | .aggregator asn ip => packAggregator p asn ip
  | .communities cs => hdr 8 (packU32s cs)
  | .originatorId ip => hdr 9 (be32 ip)
  | .clusterList ids => hdr 10 (packU32s ids)
  | .extCommunities cs => hdr 16 (packU32s (flat2 cs))
  | .largeCommunities cs => hdr 32 (packU32s (flat3 cs))

/-- One round of `for code in sorted(alls)` in `AttributeCollection.pack_attribute(negotiated, True)`;
    `nh` is the resolved next hop (the NEXT_HOP attribute the parser stored under code 3). -/
def packCode (p : SessParams) (r : RouteReq) (nh : Bytes) (c : Nat) : Bytes :=
  if c = 3 then (if nh.length = 4 then hdr 3 nh else [])                 -- skip unless `ipv4()`
  else match given r.attrs c with
    | none =>
      if c = 1 then hdr 1 [0]                                              -- Origin IGP
      else if c = 2 then packAsPath p (if sameAs p then [] else [(2, [negLocalAs p])])
      else if c = 5 then (if sameAs p then hdr 5 (be32 100) else [])
      else []
    | some a => if c = 5 && !(sameAs p) then [] else packGiven p a         -- skip LOCAL_PREF when left != right

/-- `AS2Path.make_aspath([SEQUENCE([local_asn])])` without `asn4=True` packs 2-octet AS numbers at
    once: `struct.error` for a local AS above 65535 on an external session when no as-path was given. -/
def defaultPathRaises (p : SessParams) (r : RouteReq) : Bool :=
  !defaultPathAsn4 && (given r.attrs 2).isNone && !(sameAs p) && isBig (negLocalAs p)

/-- The codes `sorted(alls)` can contain for a static route of `ReqAttr` keywords. -/
def codeOrder : List Nat := [1, 2, 3, 4, 5, 6, 7, 8, 9, 10, 16, 32]

def attrBytes (p : SessParams) (r : RouteReq) (nh : Bytes) : Bytes :=
  codeOrder.flatMap (packCode p r nh)

/-! ### NLRI (`INET/Label/IPVPN.pack_nlri`) -/

def packLabels : List Nat → Bytes
  | [] => []
  | [l] => be24 (l * 16 + 1)
  | l :: l' :: t => be24 (l * 16) ++ packLabels (l' :: t)

def apSends (p : SessParams) (r : RouteReq) : Bool := p.apSend.contains (r.afi, r.safi)

def packNlri (p : SessParams) (r : RouteReq) : Bytes :=
  (if apSends p r then (match r.pathId with | some i => be32 i | none => noPath) else []) ++
    ((packLabels r.labels).length * 8 + r.rd.length * 8 + r.plen) :: (packLabels r.labels ++ (r.rd ++ r.pfx))

/-! ### MP_REACH_NLRI (`MPNLRICollection`) -/

def rdSize (afi safi : Nat) : Nat :=
  match nhRdSize.find? (fun x => x.1 == afi && x.2.1 == safi) with
  | some x => x.2.2
  | none => 0

/-- `IPv6.is_link_local`: fe80::/10 -/
def isLinkLocal (a : Bytes) : Bool := a.length == 16 && a.getD 0 0 == 254 && a.getD 1 0 / 64 == 2

/-- `_encode_nexthop` -/
def mpNextHop (p : SessParams) (r : RouteReq) (nh : Bytes) : Bytes :=
  List.replicate (rdSize r.afi r.safi) 0 ++
    (if r.afi != 2 then nh
     else match p.linkLocal with
       | none => nh
       | some ll => if isLinkLocal nh then nh else nh ++ ll)

/-- `_attribute_header(14, len) + payload` -/
def mpHeader (len : Nat) : Bytes :=
  if len > 255 then (mpFlag + 16) :: mpReachCode :: be16 len else [mpFlag, mpReachCode, len]

def mpPayload (p : SessParams) (r : RouteReq) (nh : Bytes) : Bytes :=
  be16 r.afi ++ (r.safi :: (mpNextHop p r nh).length :: (mpNextHop p r nh ++ 0 :: packNlri p r))

def mpReach (p : SessParams) (r : RouteReq) (nh : Bytes) : Bytes :=
  mpHeader (mpPayload p r nh).length ++ mpPayload p r nh

/-! ### `UpdateCollection([RoutedNLRI(nlri, nexthop)], [], attributes).messages(negotiated)` -/

inductive Out where
  | sent (body : Bytes)       -- exactly one UPDATE; `body` is what follows the 19-byte header
  | nothing                   -- the generator yields no message (`update.pack.error`)
  | raised                    -- an exception leaves `resolve_self` / `messages`
deriving Repr, DecidableEq

/-- `is_v4`: the route goes into the NLRI field of the UPDATE. -/
def classic (r : RouteReq) (nh : Bytes) : Bool :=
  r.afi == 1 && classicSafisAnnounce.contains r.safi && nh.length == 4

/-- The next hop has a family this session can carry for the route: IPv4 (or IPv6 when RFC 8950 was
    negotiated for the family) for an IPv4 route, IPv6 for an IPv6 route. -/
def nhFamilyOkB (p : SessParams) (r : RouteReq) (nh : Bytes) : Bool :=
  if r.afi == 2 then nh.length == 16
  else nh.length == 4 || (nh.length == 16 && p.extnh.contains (r.afi, r.safi))

def encodeExa (p : SessParams) (r : RouteReq) : Out :=
  match resolveNh p r with
  | none => .raised
  | some nh =>
    let attr := attrBytes p r nh
    if defaultPathRaises p r then .raised                       -- struct.error inside pack_attribute
    else if nhFamilyGuard && !(nhFamilyOkB p r nh) then .nothing -- the announce is left out (when the tree checks it)
    else if p.msgSize < 23 + attr.length then .nothing          -- msg_size < 0
    else if p.msgSize - 23 - attr.length = 0 then .nothing      -- msg_size == 0
    else if classic r nh then
      if (packNlri p r).length ≤ p.msgSize - 23 - attr.length then
        .sent (be16 0 ++ ([] ++ (be16 attr.length ++ (attr ++ packNlri p r))))
      else .nothing
    else
      -- _attr_len(len(header) + len(nlri)) > maximum → the prefix is left out, nothing remains to send
      if (mpPayload p r nh).length + (if (mpPayload p r nh).length > 255 then 4 else 3) > p.msgSize - 23 - attr.length then .nothing
      else .sent (be16 0 ++ ([] ++ (be16 (attr ++ mpReach p r nh).length ++ ((attr ++ mpReach p r nh) ++ []))))

/-! ### what a request must look like to be a route of the grammar (the hypotheses of the theorems) -/

/-- The NLRI the peer must end up with: the path identifier is on the wire iff ADD-PATH send was
    negotiated for the family (0 when none was written), labels, RD and prefix as written. -/
def wantNlri (p : SessParams) (r : RouteReq) : Nlri :=
  { pathId := if apSends p r then some (r.pathId.getD 0) else none,
    labels := r.labels, rd := r.rd, plen := r.plen, pfx := r.pfx }

def U32 (n : Nat) : Prop := n < 4294967296

/-- Ranges the text parser enforces (or the packer: `struct.pack` refuses a value that does not fit);
    AS path segments are `[ ]` sequences and `( )` sets of 1..255 AS numbers. -/
def WFReqAttr : ReqAttr → Prop
  | .origin v => v ≤ 2
  | .asPath segs => ∀ s ∈ segs, (s.1 = 1 ∨ s.1 = 2) ∧ 1 ≤ s.2.length ∧ s.2.length ≤ 255 ∧ ∀ a ∈ s.2, U32 a
  | .med v => U32 v
  | .localPref v => U32 v
  | .atomicAggregate => True
  | .aggregator asn ip => U32 asn ∧ U32 ip
  | .communities cs => ∀ c ∈ cs, U32 c
  | .originatorId ip => U32 ip
  | .clusterList ids => ∀ c ∈ ids, U32 c
  | .extCommunities cs => ∀ c ∈ cs, U32 c.1 ∧ U32 c.2
  | .largeCommunities cs => ∀ c ∈ cs, U32 c.1 ∧ U32 c.2.1 ∧ U32 c.2.2

def WFNh : NhReq → Prop
  | .v4 a => a.length = 4 ∧ WFBytes a
  | .v6 a => a.length = 16 ∧ WFBytes a
  | .self => True

/-- A route of the static grammar for the families M-Wire-Exa covers. `WFNlri` (of M-Wire) on the
    NLRI to be announced says: labels exactly for SAFI 4/128 and below 2^20, an 8-byte RD exactly
    for SAFI 128, mask within the family, prefix bytes = ceil(mask/8), path id below 2^32, and a
    total length that fits the one-byte NLRI length (the real code raises otherwise). -/
def WFReq (p : SessParams) (r : RouteReq) : Prop :=
  (r.afi = 1 ∨ r.afi = 2) ∧ (r.safi = 1 ∨ r.safi = 2 ∨ r.safi = 4 ∨ r.safi = 128) ∧
  WFNlri r.afi r.safi (apSends p r) false (wantNlri p r) ∧
  WFNh r.nexthop ∧ (∀ a ∈ r.attrs, WFReqAttr a)

/-- A session two OPENs can produce: AS numbers of 32 bits, the reserved AS_TRANS is not our AS,
    a speaker whose AS needs four octets announces the 4-octet capability (RFC 6793: otherwise nothing
    on the wire carries its number), message size at most 65535, addresses of 4 / 16 bytes. -/
def WFSess (p : SessParams) : Prop :=
  U32 p.localAs ∧ p.localAs ≠ 23456 ∧
  (p.asn4 = true → p.sentAsn4 = true) ∧
  (p.localAs > 65535 → p.sentAsn4 = true) ∧
  (p.peerAs > 65535 → p.sentAsn4 = true → p.asn4 = true) ∧
  p.msgSize ≤ 65535 ∧
  (p.localAddr.length = 4 ∨ p.localAddr.length = 16) ∧ WFBytes p.localAddr ∧
  p.routerId.length = 4 ∧ WFBytes p.routerId ∧
  (∀ ll, p.linkLocal = some ll → ll.length = 16)

end Exa.WireExa
