/-
  M-Frame: model of `Connection.reader_async` / `_reader_async` (reactor/network/connection.py)
  and of the header-level part of `Protocol.read_message` (the mapping to a NOTIFICATION).

  The reader pulls exactly 19 header bytes, validates marker / length / per-type length, then
  pulls exactly `length - 19` body bytes. Reads are `sock_recv_into` calls that take whatever the
  kernel has, so the bytes pulled so far for the message being read are exactly the bytes
  received since the last complete message (`pend`). A cancelled read (`wait_for(…, 0.1)` in
  `Peer._main`) loses what it had pulled.

  Constants and the per-type length rule come from `Generated/MsgLength.lean`.
-/
import ExaModel.Bytes
import ExaModel.Generated.MsgLength

namespace Exa.Frame
open Exa Exa.Generated.MsgLength

inductive Out where
  | msg (ty : Nat) (body : Bytes)      -- a complete message handed to the protocol layer
  | err (code sub : Nat)               -- NotifyError(code, sub): the session ends
deriving DecidableEq, Repr

def cmpHolds : Cmp → Nat → Nat → Bool
  | .ge, n, c => n ≥ c
  | .eq, n, c => n == c
  | .le, n, c => n ≤ c
  | .gt, n, c => n > c
  | .lt, n, c => n < c

/-- `Message.Length.get(msg, _default_length_validator)(length)` -/
def lengthValid (ty len : Nat) : Bool :=
  match lengthRules.find? (fun r => r.1 == ty) with
  | some (_, c, k) => cmpHolds c len k
  | none => len ≥ defaultMin

inductive Step where
  | need                                 -- not enough bytes yet
  | out (o : Out) (rest : Bytes)         -- one result and the bytes after it
deriving Repr

def hdrLen (bs : Bytes) : Nat := rd16 (bs.drop 16)
def hdrTy (bs : Bytes) : Nat := bs.getD 18 0

/-- NOTIFICATION: a malformed one is not answered with a NOTIFICATION (RFC 4271 6.4; F32 repair),
    so the per-type length rule is not applied to it. -/
def notificationType : Nat := 3

/-- The checks `reader_async` makes on a complete 19-byte header, in its order. -/
def hdrErr (max : Nat) (bs : Bytes) : Option (Nat × Nat) :=
  if bs.take 16 ≠ marker then some (1, 1)
  else if hdrLen bs < headerLen ∨ hdrLen bs > max then some (1, 2)
  else if ¬ lengthValid (hdrTy bs) (hdrLen bs) ∧ hdrTy bs ≠ notificationType then some (1, 2)
  else none

/-- One `reader_async()` call on the bytes available so far. -/
def parse1 (max : Nat) (bs : Bytes) : Step :=
  if bs.length < headerLen then .need
  else match hdrErr max bs with
    | some (c, s) => .out (.err c s) []
    | none =>
      if bs.length < hdrLen bs then .need
      else .out (.msg (hdrTy bs) ((bs.drop headerLen).take (hdrLen bs - headerLen))) (bs.drop (hdrLen bs))

/-- Repeated `reader_async()` until bytes run out or an error ends the session.
    Returns (outputs, bytes left over, dead). -/
def pump (max : Nat) : Nat → Bytes → List Out × Bytes × Bool
  | 0, bs => ([], bs, false)
  | fuel + 1, bs =>
    match parse1 max bs with
    | .need => ([], bs, false)
    | .out (.err c s) _ => ([.err c s], [], true)
    | .out (.msg ty body) rest =>
      let (os, left, dead) := pump max fuel rest
      (.msg ty body :: os, left, dead)

structure Reader where
  max  : Nat
  pend : Bytes      -- bytes pulled for the message being read
  dead : Bool       -- an error was reported: nothing after it is interpreted
deriving Repr, DecidableEq

def Reader.init (max : Nat) : Reader := { max, pend := [], dead := false }

/-- TCP delivers `bs` (any segmentation). -/
def Reader.feed (r : Reader) (bs : Bytes) : Reader × List Out :=
  if r.dead then (r, [])
  else
    let all := r.pend ++ bs
    let (os, left, dead) := pump r.max (all.length + 1) all
    ({ r with pend := left, dead := dead }, os)

/-- The read in progress is cancelled (the 0.1 s `wait_for` of `Peer._main` fired). After the F10
    repair the connection keeps what the cancelled read had pulled (`_partial_read`,
    `_pending_header`) and the next read resumes it: nothing changes. -/
def Reader.cancel (r : Reader) : Reader := r

/-- `connection.msg_size = negotiated.msg_size` (after the OPEN exchange). -/
def Reader.setMax (r : Reader) (m : Nat) : Reader := { r with max := m }

def Reader.feedAll (r : Reader) : List Bytes → Reader × List Out
  | [] => (r, [])
  | c :: cs =>
    let (r1, o1) := r.feed c
    let (r2, o2) := r1.feedAll cs
    (r2, o1 ++ o2)

/-- `Protocol.read_message` on a reader result: the NOTIFICATION that ends the session because of
    the header alone (`none`: the body decoder of that type decides). A type outside
    `CODE.MESSAGES` is refused by `read_message`, one inside it without a decoder by
    `Message.unpack`; both with Bad Message Type. -/
def notifyOf : Out → Option (Nat × Nat)
  | .err c s => some (c, s)
  | .msg ty _ => if knownTypes.contains ty && registeredTypes.contains ty then none else some (1, 3)

/-- Reference encoding of one message (RFC 4271 §4.1). -/
def encodeMsg (ty : Nat) (body : Bytes) : Bytes :=
  marker ++ be16 (headerLen + body.length) ++ [ty] ++ body

end Exa.Frame
