/-
  M-Wire, part 1: negotiated parameters and the NLRI codecs (RFC reference, NOT a model of ExaBGP).

  Written from the wire layouts of RFC 4271 §4.3 (prefix = length in bits + ceil(len/8) bytes),
  RFC 7911 §3 (ADD-PATH: 4-byte path identifier in front of every NLRI of a family for which it
  was negotiated), RFC 3107 / RFC 8277 §2 (labelled NLRI: the length counts the label stack; a
  stack is a sequence of 3-byte entries = 20-bit label, 3 unspecified bits, bottom-of-stack bit;
  in a withdrawal the label field is the single compatibility value 0x800000 and carries no
  information) and RFC 4364 §4.3.4 / RFC 4659 (VPN NLRI: label stack, 8-byte route distinguisher,
  prefix; the length counts all three).

  The interface is documented at the top of `Model/Wire.lean`.
-/
import ExaModel.Bytes

namespace Exa.Wire
open Exa

/-- NOTIFICATION (code, subcode). -/
abbrev Err := Nat × Nat

/-- What the two OPENs negotiated, as far as the UPDATE wire format depends on it. -/
structure Params where
  asn4    : Bool                 -- RFC 6793: AS numbers in AS_PATH / AGGREGATOR are 4 bytes wide
  addpath : List (Nat × Nat)     -- RFC 7911: (afi, safi) for which the PEER sends path identifiers
  extnh   : List (Nat × Nat)     -- RFC 8950: (afi, safi) whose next hop may be an IPv6 address
  msgSize : Nat                  -- 4096, or 65535 with RFC 8654
  aigp    : Bool := false        -- RFC 7311 3.3: AIGP_SESSION is enabled for this peer (`capability aigp`)
deriving Repr, DecidableEq

def Params.ap (p : Params) (afi safi : Nat) : Bool := p.addpath.contains (afi, safi)

/-- 24-bit big-endian field. -/
def be24 (n : Nat) : Bytes := [n / 65536 % 256, n / 256 % 256, n % 256]
def rd24 (bs : Bytes) : Nat := bs.getD 0 0 * 65536 + bs.getD 1 0 * 256 + bs.getD 2 0

/-- One NLRI of AFI 1/2 × SAFI 1 (unicast), 2 (multicast), 4 (labelled), 128 (MPLS VPN). -/
structure Nlri where
  pathId : Option Nat      -- present iff ADD-PATH was negotiated for the family
  labels : List Nat        -- 20-bit label values, top of stack first ([] for SAFI 1/2, and for the 0x800000 withdraw form)
  rd     : Bytes           -- 8 bytes for SAFI 128, [] otherwise
  plen   : Nat             -- length of the IP prefix in bits
  pfx    : Bytes           -- ceil(plen/8) bytes
deriving Repr, DecidableEq

def hasLabel (safi : Nat) : Bool := safi == 4 || safi == 128
def hasRd (safi : Nat) : Bool := safi == 128
def rdBits (safi : Nat) : Nat := if hasRd safi then 64 else 0
def maxBits (afi : Nat) : Nat := if afi == 1 then 32 else 128
/-- The families M-Wire decodes structurally; any other family is carried as opaque bytes. -/
def supported (afi safi : Nat) : Bool :=
  (afi == 1 || afi == 2) && (safi == 1 || safi == 2 || safi == 4 || safi == 128)
def prefixBytes (plen : Nat) : Nat := (plen + 7) / 8

/-- The withdraw compatibility label field (RFC 3107 §3 / RFC 8277 §2.4). -/
def wdLabel : Nat := 0x800000

/-! ### encoder -/

/-- A non-empty label stack: bottom-of-stack bit on the last entry only, the 3 spare bits zero. -/
def encStack : List Nat → Bytes
  | [] => []
  | [l] => be24 (l * 16 + 1)
  | l :: l' :: ls => be24 (l * 16) ++ encStack (l' :: ls)

def labelField (safi : Nat) (wd : Bool) (ls : List Nat) : Bytes :=
  if hasLabel safi then (if wd && ls.isEmpty then be24 wdLabel else encStack ls) else []

def encPathId : Option Nat → Bytes
  | some i => be32 i
  | none => []

/-- `wd` = the NLRI sits in a withdrawal (WITHDRAWN ROUTES / MP_UNREACH_NLRI). -/
def encNlri (safi : Nat) (wd : Bool) (n : Nlri) : Bytes :=
  encPathId n.pathId ++
    ((labelField safi wd n.labels).length * 8 + n.rd.length * 8 + n.plen) ::
      (labelField safi wd n.labels ++ (n.rd ++ n.pfx))

def encNlris (safi : Nat) (wd : Bool) : List Nlri → Bytes
  | [] => []
  | n :: ns => encNlri safi wd n ++ encNlris safi wd ns

/-! ### decoder -/

/-- Walk of a label stack; the first argument is the number of 3-byte entries the length field
    still allows. `none`: the stack did not end inside the announced bits / the bytes ran out. -/
def decStack : Nat → Bytes → Option (List Nat × Bytes)
  | 0, _ => none
  | n + 1, bs =>
    if bs.length < 3 then none
    else if rd24 bs % 2 = 1 then some ([rd24 bs / 16], bs.drop 3)
    else match decStack n (bs.drop 3) with
      | some (ls, rest) => some (rd24 bs / 16 :: ls, rest)
      | none => none

def decPathId (ap : Bool) (bs : Bytes) : Except Err (Option Nat × Bytes) :=
  if ap then (if bs.length < 4 then .error (3, 10) else .ok (some (rd32 bs), bs.drop 4))
  else .ok (none, bs)

/-- Label part of an NLRI whose length octet is `len`: (labels, bits used, rest). -/
def decLabels (safi : Nat) (wd : Bool) (len : Nat) (bs : Bytes) : Except Err (List Nat × Nat × Bytes) :=
  if hasLabel safi then
    if wd ∧ 3 ≤ bs.length ∧ rd24 bs = wdLabel ∧ rdBits safi + 24 ≤ len then .ok ([], 24, bs.drop 3)
    else match decStack ((len - rdBits safi) / 24) bs with
      | some (ls, rest) => .ok (ls, 24 * ls.length, rest)
      | none => .error (3, 10)
  else .ok ([], 0, bs)

/-- RD and prefix of an NLRI with `bits` bits left after the labels. -/
def decRdPrefix (afi safi : Nat) (pid : Option Nat) (ls : List Nat) (bits : Nat) (bs : Bytes) :
    Except Err (Nlri × Bytes) :=
  if bits < rdBits safi then .error (3, 10)
  else if bs.length < rdBits safi / 8 then .error (3, 10)
  else if bits - rdBits safi > maxBits afi then .error (3, 10)
  else if (bs.drop (rdBits safi / 8)).length < prefixBytes (bits - rdBits safi) then .error (3, 10)
  else .ok ({ pathId := pid, labels := ls, rd := bs.take (rdBits safi / 8), plen := bits - rdBits safi,
              pfx := (bs.drop (rdBits safi / 8)).take (prefixBytes (bits - rdBits safi)) },
            (bs.drop (rdBits safi / 8)).drop (prefixBytes (bits - rdBits safi)))

/-- One NLRI from the front of `bs`. Every failure is UPDATE Message Error / Invalid Network Field. -/
def decNlri (afi safi : Nat) (ap wd : Bool) (bs : Bytes) : Except Err (Nlri × Bytes) :=
  match decPathId ap bs with
  | .error e => .error e
  | .ok (pid, b1) =>
    match b1 with
    | [] => .error (3, 10)
    | len :: b2 =>
      match decLabels safi wd len b2 with
      | .error e => .error e
      | .ok (ls, used, b3) =>
        if len < used then .error (3, 10) else decRdPrefix afi safi pid ls (len - used) b3

/-- All NLRIs of a field. Fuel: one unit per NLRI (each takes at least one byte), so
    `bs.length` always suffices; see `decNlris_fuel`. -/
def decNlris (afi safi : Nat) (ap wd : Bool) : Nat → Bytes → Except Err (List Nlri)
  | _, [] => .ok []
  | 0, _ :: _ => .error (3, 10)
  | f + 1, b :: bs =>
    match decNlri afi safi ap wd (b :: bs) with
    | .error e => .error e
    | .ok (n, rest) =>
      match decNlris afi safi ap wd f rest with
      | .error e => .error e
      | .ok ns => .ok (n :: ns)

/-! ### well-formedness (what a peer may send) -/

def WFNlri (afi safi : Nat) (ap wd : Bool) (n : Nlri) : Prop :=
  (n.pathId.isSome = ap) ∧ (∀ i, n.pathId = some i → i < 4294967296) ∧
  (hasLabel safi = false → n.labels = []) ∧
  (hasLabel safi = true → wd = false → n.labels ≠ []) ∧
  (∀ l ∈ n.labels, l < 1048576) ∧
  -- a withdrawal whose first (non-bottom) label would spell the compatibility value is not sent
  (wd = true → ∀ l t, n.labels = l :: t → t ≠ [] → l ≠ 524288) ∧
  n.rd.length = rdBits safi / 8 ∧
  n.plen ≤ maxBits afi ∧ n.pfx.length = prefixBytes n.plen ∧
  (labelField safi wd n.labels).length * 8 + n.rd.length * 8 + n.plen < 256

instance (afi safi : Nat) (ap wd : Bool) (n : Nlri) : Decidable (WFNlri afi safi ap wd n) := by
  unfold WFNlri
  have h1 : Decidable (∀ i, n.pathId = some i → i < 4294967296) := by
    cases h : n.pathId with
    | none => exact isTrue (by intro i hi; cases hi)
    | some j =>
      by_cases hj : j < 4294967296
      · exact isTrue (by intro i hi; cases hi; exact hj)
      · exact isFalse (by intro hh; exact hj (hh j rfl))
  have h2 : Decidable (wd = true → ∀ l t, n.labels = l :: t → t ≠ [] → l ≠ 524288) := by
    cases hl : n.labels with
    | nil => exact isTrue (by intro _ l t h; cases h)
    | cons a t =>
      by_cases hc : wd = true → t ≠ [] → a ≠ 524288
      · exact isTrue (by intro hw l t' h; cases h; exact hc hw)
      · exact isFalse (by intro hh; exact hc (fun hw => hh hw a t rfl))
  exact inferInstance

end Exa.Wire
