/-!
# M-Session — the peer session as a labelled transition system

Model of `reactor/peer/peer.py` (`run`, `_run` and its exception handlers, `_establish`,
`_connect`, `_read_open`, `_main`, `_close`, `_reset`, `_stop`, `stop`, `teardown`,
`reestablish`, `handle_connection`), of the parts of `reactor/protocol.py` they call
(`read_open`, `read_keepalive`, `read_message`'s error mapping, `validate_open`, `new_*`) and of
`bgp/fsm.py` (whose transition table is *not* enforced by `change()`).

The model follows the COROUTINE, not the RFC: `pc` says where `Peer.run()` is suspended, `conn`
is `peer.proto` (the connection every write goes to), and the connection the coroutine is
*reading* is part of `pc` — `handle_connection` / `_stop` replace or drop `peer.proto` without
touching what the coroutine awaits (finding F30), so the two can differ ("stale await").

What is abstracted: UPDATE contents (one `send update` stands for the ≥ 1 UPDATE messages of one
main-loop iteration; the rig keeps every batch below the 25-per-iteration limit), the periodic
KEEPALIVE of the established session (M-Timer, C12), the hold timer (event `holdExpired`), time.
API processes: event `apiDies` — from then on every write to the API process raises `ProcessError`;
which writes exist is configuration (`changes`: neighbor-changes, i.e. up / down / connected;
`forward`: received messages of every kind are handed to the API, parsed).  `api fsm` and the
`send-*` / `negotiated` options are not modelled (the rig runs `api fsm` scripts against the oracles only).
Not modelled: back-pressure on writes.
-/
namespace Exa.Session

inductive Fsm where
  | idle | active | connect | opensent | openconfirm | established
deriving DecidableEq, Repr

/-- faults `Protocol.read_message` raises by itself, in any state: header checks of the reader,
    decode of the body (`Message.unpack`, and `Update.data` forced by `read_message`). -/
inductive Fault where
  | badMarker | badLength | tooLong | unknownType | kaLen | rrLen | openShort
  | openVersion | openOptParam
  | updAttrLen | updNlri
deriving DecidableEq, Repr

/-- an OPEN that decodes but is refused by `Negotiated.validate` (only called in `_establish`). -/
inductive OpenSem where
  | badAs | badId | badHold
deriving DecidableEq, Repr

/-- what the remote speaker can put on a connection (message classes). -/
inductive Msg where
  | openOk (idLow : Bool)   -- valid OPEN; `idLow`: its BGP identifier is below ours
  | openSem (e : OpenSem)
  | keepalive | update | refresh | notification
  | operational             -- type 6 (capability not negotiated): decodes, no handler in `_main`
  | bad (f : Fault)
deriving DecidableEq, Repr

structure Cfg where
  passive : Bool      -- exabgp.bgp.passive
  maxAttempts : Nat   -- exabgp.tcp.attempts (0 = unlimited)
  hold0 : Bool        -- negotiated hold time is 0
  graceful : Bool     -- graceful-restart configured and announced
  changes : Bool := true   -- api neighbor-changes: up / down / connected go to the API process
  forward : Bool := false  -- api receive { parsed; <every message kind>; }
deriving DecidableEq, Repr

/-- `peer.proto.connection`, always open while it is there. The history fields are ghost state. -/
structure Conn where
  id : Nat
  inbox : List Msg := []   -- delivered by TCP, not read yet
  eof : Bool := false      -- remote half-closed (it still reads)
  rst : Bool := false      -- remote reset / closed: reads and writes fail
  idLow : Bool := false    -- `negotiated.received_open.router_id < local id`
  openSent : Bool := false -- history: we wrote our OPEN on it
  openRecv : Bool := false -- history: the peer OPEN was read on it and validated
  kaRecv : Bool := false   -- history: a KEEPALIVE was read on it after the OPEN
deriving DecidableEq, Repr

/-- where the coroutine `Peer.run()` is suspended. -/
inductive Pc where
  | backoff                 -- in `run()` between two `_run()`
  | done                    -- `run()` returned
  | passiveWait             -- `_establish`: `while not self.proto: await sleep(0)`
  | connecting              -- awaiting `Protocol.connect()`
  | awaitOpen (c : Nat)     -- awaiting `read_open` on connection c (openwait timer running)
  | awaitKa (c : Nat)       -- awaiting `read_keepalive` on connection c (hold timer running since /repo 5dabac1)
  | mainLoop (c : Nat)      -- in `_main`, reading connection c between two iterations
deriving DecidableEq, Repr

inductive Kind where
  | open | keepalive | update | eor | refresh | notification (code sub : Nat)
deriving DecidableEq, Repr

inductive Out where
  | fsm (a b : Fsm)                       -- `FSM.change`: from a to b
  | send (c : Nat) (k : Kind) (st : Fsm)  -- a write on connection c, FSM state at that moment
  | close (c : Nat)                       -- our side of connection c is closed
  | up | down                             -- API neighbor-changes
  | reject (c : Nat)                      -- `handle_connection` refused connection c
  | gotNotification (c : Nat)             -- ghost marker: the coroutine read a NOTIFICATION on c
deriving DecidableEq, Repr

inductive Event where
  | start | connectOk | connectFail | incoming
  | recv (c : Nat) (m : Msg) | eof (c : Nat) | sockError (c : Nat)
  | openwaitExpired | holdExpired | tick
  | teardown (code : Nat) | reestablish | stop
  | queueRefresh | announce
  | apiDies                 -- the API process is gone: writing to it raises ProcessError from now on
deriving DecidableEq, Repr

structure State where
  cfg : Cfg
  fsm : Fsm := .idle
  pc : Pc := .backoff
  conn : Option Conn := none
  nextId : Nat := 1
  restart : Bool := true          -- `_restart`
  teardown : Option Nat := none   -- `_teardown`
  attempts : Nat := 0             -- `connection_attempts`
  ribNonEmpty : Bool := false     -- something to (re)announce at session start
  refreshQ : Nat := 0             -- `neighbor.refresh`
  routesPending : Bool := false   -- `_main`: rib.outgoing.pending() / generator in flight
  eorPending : Bool := false      -- `_main`: send_eor
  kaSeen : Bool := false          -- `recv_timer.single` (hold time 0)
  isUp : Bool := false            -- ghost: API `up` sent and no `_close` since
  dead : Bool := false            -- the API process is gone
deriving DecidableEq, Repr

def init (cfg : Cfg) (rib : Bool) : State := { cfg := cfg, ribNonEmpty := rib }

abbrev R := State × List Out

/-- sequencing: run `f` on the state reached, outputs concatenated. -/
def R.andThen (r : R) (f : State → R) : R := ((f r.1).1, r.2 ++ (f r.1).2)
infixl:55 " ⊳ " => R.andThen

/-! ## what the code raises (tied to /repo by the correspondence) -/

/-- the NOTIFICATION `read_message` raises for a fault. -/
def raised : Fault → Nat × Nat
  | .badMarker => (1, 1)
  | .badLength => (1, 2)
  | .tooLong => (1, 2)
  | .unknownType => (1, 3)
  | .kaLen => (1, 2)
  | .rrLen => (1, 2)
  | .openShort => (1, 2)
  | .openVersion => (2, 1)
  | .openOptParam => (2, 4)
  | .updAttrLen => (3, 1)
  | .updNlri => (3, 10)

/-- the error tuple `Negotiated.validate` returns. -/
def semCode : OpenSem → Nat × Nat
  | .badAs => (2, 2)
  | .badId => (2, 3)
  | .badHold => (2, 6)

/-! ## primitives -/

def isConnected : Fsm → Bool
  | .connect | .opensent | .openconfirm | .established => true
  | _ => false

def fsmTo (t : Fsm) (s : State) : R := ({ s with fsm := t }, [.fsm s.fsm t])

def setPc (p : Pc) (s : State) : R := ({ s with pc := p }, [])

/-- `_close`, first part: `if self.fsm not in (IDLE, ACTIVE): processes.down(...)`. -/
def apiDown (s : State) : R :=
  if s.fsm = .idle ∨ s.fsm = .active then (s, [])
  else ({ s with isUp := false }, if s.cfg.changes && !s.dead then [.down] else [])

/-- `proto.close()` then `self.proto = None`. -/
def closeConn (s : State) : R :=
  match s.conn with
  | some c => ({ s with conn := none }, [.close c.id])
  | none => (s, [])

/-- `Peer._close`. -/
def closeP (s : State) : R := apiDown s ⊳ fsmTo .idle ⊳ closeConn

/-- `Peer._reset`. -/
def resetP (s : State) : R :=
  closeP s ⊳ fun (s : State) => if s.restart then ({ s with teardown := none, refreshQ := 0 }, []) else (s, [])

/-- `_run` returns; `run()` loops or ends. -/
def finish (s : State) : R := ({ s with pc := if s.restart then .backoff else .done }, [])

/-- `Peer.stop()`. -/
def stopP (s : State) : R := fsmTo .idle { s with teardown := some 3, restart := false }

def canReconnect (s : State) : Bool := s.cfg.maxAttempts == 0 || s.attempts < s.cfg.maxAttempts

def stopIfExhausted (s : State) : R := if canReconnect s then (s, []) else stopP s

/-- `except NetworkError` and `except Notification` of `_run` (same structure). -/
def onNetErr (s : State) : R := stopIfExhausted s ⊳ resetP ⊳ finish

def markSent (k : Kind) (c : Conn) : Conn :=
  match k with
  | .open => { c with openSent := true }
  | _ => c

/-- one write on `peer.proto`; `false`: the write failed (remote gone), the connection closed itself. -/
def sendOn (k : Kind) (s : State) : R × Bool :=
  match s.conn with
  | none => ((s, []), true)
  | some c =>
    if c.rst then (({ s with conn := none }, [.send c.id k s.fsm, .close c.id]), false)
    else (({ s with conn := some (markSent k c) }, [.send c.id k s.fsm]), true)

/-- `except Notify` of `_run`: tell the peer on whatever `self.proto` is now, reset. -/
def onNotify (code sub : Nat) (s : State) : R :=
  (sendOn (.notification code sub) s).1 ⊳ resetP ⊳ stopIfExhausted ⊳ finish

/-- a NOTIFICATION was read on `peer.proto`: `except Notification` of `_run` (no reply). -/
def onNotification (s : State) : R :=
  ((s, match s.conn with | some c => [.gotNotification c.id] | none => []) : R) ⊳ onNetErr

/-- `except Interrupted` / `except Exception` of `_run`. -/
def onOther (s : State) : R := resetP s ⊳ finish

def connId (s : State) : Nat := match s.conn with | some c => c.id | none => 0

/-- `_establish` from `self.fsm.change(FSM.CONNECT)` to the wait for the peer's OPEN. -/
def afterConnect (s : State) : R :=
  let r := fsmTo .connect s
  let w := sendOn .open r.1
  let r' : R := (w.1.1, r.2 ++ w.1.2)
  if w.2 then r' ⊳ fsmTo .opensent ⊳ fun (s : State) => setPc (.awaitOpen (connId s)) s
  else r' ⊳ onNetErr

/-- `_establish` from `self.fsm.change(FSM.IDLE)`. -/
def establish2 (s : State) : R :=
  fsmTo .idle s ⊳ fun (s : State) =>
    match s.conn with
    | none => ({ s with attempts := s.attempts + 1, pc := .connecting }, [])
    | some _ => afterConnect s

/-- `_run` is entered. -/
def beginRun (s : State) : R :=
  fsmTo .active s ⊳ fun (s : State) =>
    if s.cfg.passive ∧ s.conn = none then setPc .passiveWait s else establish2 s

/-- `_main` prologue. -/
def enterMain (c : Nat) (s : State) : R :=
  if s.teardown.isSome then onNotify 6 3 s
  else if s.cfg.changes && s.dead then onNotify 6 0 s   -- `processes.up` raises ProcessError
  else ({ s with routesPending := s.ribNonEmpty, eorPending := true, kaSeen := false,
                 isUp := s.cfg.changes, pc := .mainLoop c }, if s.cfg.changes then [.up] else [])

/-- a write that may fail; `false`: it failed (the connection closed itself, `NetworkError`). -/
abbrev W := R × Bool

/-- continue with `f` unless a write already failed. -/
def W.andSend (w : W) (f : State → W) : W :=
  if w.2 then ((( f w.1.1).1.1, w.1.2 ++ (f w.1.1).1.2), (f w.1.1).2) else w

/-- write `k` (on the state updated by `upd`) when `c` holds. -/
def sendIf (c : State → Bool) (k : Kind) (upd : State → State) (s : State) : W :=
  if c s then sendOn k (upd s) else ((s, []), true)

/-- the outbound half of one main-loop iteration: queued ROUTE-REFRESH, pending routes, End-of-RIB. -/
def mainSends (s : State) : W :=
  (sendIf (fun s => decide (s.refreshQ > 0)) .refresh (fun s => { s with refreshQ := s.refreshQ - 1 }) s)
  |>.andSend (sendIf (fun s => s.routesPending) .update (fun s => { s with routesPending := false }))
  |>.andSend (sendIf (fun s => s.eorPending) .eor (fun s => { s with eorPending := false }))

/-- the end of an iteration: `while not self._teardown` … `raise Notify(6, self._teardown)`. -/
def mainExit (s : State) : R :=
  match s.teardown with
  | none => (s, [])
  | some code => if s.cfg.graceful then closeP s ⊳ onNetErr else onNotify 6 code s

/-- what reading `m` changes before the outbound half: `recv_timer.single` (hold time 0),
    a ROUTE-REFRESH re-queues what is in the Adj-RIB-Out. -/
def mainPre (m : Option Msg) (s : State) : State :=
  { s with kaSeen := s.kaSeen || (s.cfg.hold0 && m == some .keepalive),
           routesPending := s.routesPending || (m == some .refresh && s.ribNonEmpty) }

/-- the outbound half and the loop condition; a failed write is a `NetworkError`. -/
def mainTail (s : State) : R :=
  if (mainSends s).2 then (mainSends s).1 ⊳ mainExit else (mainSends s).1 ⊳ onNetErr

/-- one iteration of the `_main` loop on the current connection; `none` = the read timed out. -/
def mainIter (m : Option Msg) (s : State) : R :=
  match m with
  | some (.bad f) => onNotify (raised f).1 (raised f).2 s
  | some .notification => onNotification s
  | some (.openOk _) => onNotify 5 3 s
  | some (.openSem _) => onNotify 5 3 s
  | _ =>
    if s.cfg.hold0 ∧ m = some .keepalive ∧ s.kaSeen then onNotify 2 6 s
    else mainTail (mainPre m s)

/-- an iteration of the `_main` loop when `peer.proto` is no longer the transport of its session
    (`_stop` dropped it, `handle_connection` adopted another one): since /repo 3a62d00 the loop
    notices right after its read (`self.proto is not session_proto`) and raises `Interrupted`:
    `_reset`, nothing is written on whatever `peer.proto` is now. -/
def staleIter (s : State) : R := onOther s

/-- the main loop runs (up to) `n` iterations in which no message arrives. -/
def drainMain : Nat → State → R
  | 0, s => (s, [])
  | n + 1, s =>
    match s.pc with
    | .mainLoop c =>
      (match s.conn with
       | some k => (if k.id = c then mainIter none s else staleIter s) ⊳ drainMain n
       | none => staleIter s)
    | _ => (s, [])

def sendKa (c : Nat) (s : State) : R :=
  let w := sendOn .keepalive s
  if w.2 then w.1 ⊳ setPc (.awaitKa c) else w.1 ⊳ onNetErr

def markConn (f : Conn → Conn) (s : State) : State :=
  match s.conn with
  | some c => { s with conn := some (f c) }
  | none => s

/-- with `forward`, `read_message` hands what it read to the API process before anything else:
    the reader's own errors (as a notification event) and every message that decodes; what is
    raised earlier (unknown type, a body that does not decode) never gets there. -/
def forwardRaises : Msg → Bool
  | .bad .badMarker | .bad .badLength | .bad .tooLong | .bad .kaLen | .bad .rrLen | .bad .openShort => true
  | .bad _ => false
  | _ => true

/-- `except ProcessError` of `_run` after `read_message` could not forward `m`: `_reset`, nothing written. -/
def onProcessError (m : Msg) (s : State) : R :=
  ((s, match m, s.conn with
       | .notification, some c => [.gotNotification c.id]
       | _, _ => []) : R) ⊳ onOther

/-- a message is handed to the coroutine by the read it is suspended in (the API is alive, or not concerned). -/
def deliverAlive (m : Msg) (s : State) : R :=
  match s.pc with
  | .awaitOpen c =>
    match m with
    | .bad f => onNotify (raised f).1 (raised f).2 s
    | .notification => onNotification s
    | .openOk low =>
      fsmTo .openconfirm (markConn (fun (k : Conn) => { k with idLow := low, openRecv := true }) s) ⊳ sendKa c
    | .openSem e => onNotify (semCode e).1 (semCode e).2 s
    | _ => onNotify 5 1 s
  | .awaitKa c =>
    match m with
    | .bad f => onNotify (raised f).1 (raised f).2 s
    | .notification => onNotification s
    | .keepalive => fsmTo .established (markConn (fun (k : Conn) => { k with kaRecv := true }) s) ⊳ enterMain c
    | _ => onNotify 5 2 s
  | .mainLoop _ => mainIter (some m) s
  | _ => (s, [])

/-- a message is handed to the coroutine by the read it is suspended in. -/
def deliver (m : Msg) (s : State) : R :=
  if s.cfg.forward && s.dead && forwardRaises m then onProcessError m s else deliverAlive m s

def awaited (s : State) : Option Nat :=
  match s.pc with
  | .awaitOpen c | .awaitKa c | .mainLoop c => some c
  | _ => none

/-- the read fails (EOF, reset): the connection closes itself, `NetworkError`. -/
def readErr (s : State) : R := closeConn s ⊳ onNetErr

/-- let the coroutine consume what its connection has for it. -/
def advance : Nat → State → R
  | 0, s => (s, [])
  | n + 1, s =>
    match awaited s, s.conn with
    | some c, some k =>
      if k.id = c then
        match k.inbox with
        | m :: rest => deliver m { s with conn := some { k with inbox := rest } } ⊳ advance n
        | [] => if k.rst ∨ k.eof then readErr s else (s, [])
      else (s, [])
    | _, _ => (s, [])

def fuelOf (s : State) : Nat :=
  match s.conn with
  | some k => k.inbox.length + 2
  | none => 0

/-- `handle_connection` refuses: `stop()` ran (`_restart` False and `_teardown` set), ESTABLISHED,
    or OPENCONFIRM and the peer's identifier is the lower one. -/
def refuses (s : State) : Bool :=
  (!s.restart && s.teardown.isSome) ||
  s.fsm == .established ||
  (s.fsm == .openconfirm && (match s.conn with | some k => k.idLow | none => false))

/-- `handle_connection` accepts: whatever `peer.proto` was is closed, the new connection becomes
    `peer.proto`; the coroutine is not told (it goes on only if it was in the passive wait). -/
def adopt (s : State) : R :=
  (if s.conn.isSome then closeP s else (s, []))
  ⊳ (fun (t : State) => ({ t with conn := some { id := t.nextId }, nextId := t.nextId + 1 }, []))
  ⊳ (fun (t : State) => if t.pc = .passiveWait then establish2 t else (t, []))

/-- `Peer.handle_connection`. -/
def handleConnection (s : State) : R :=
  if refuses s then ({ s with nextId := s.nextId + 1 }, [.reject s.nextId, .close s.nextId])
  else if s.cfg.changes && s.dead then
    -- `Protocol.accept` → `processes.connected` raises: what `peer.proto` was is closed already,
    -- the new connection is not adopted (the exception goes to the listener), it is dropped
    (if s.conn.isSome then closeP s else (s, []))
    ⊳ fun (t : State) => ({ t with nextId := t.nextId + 1 }, [.reject t.nextId, .close t.nextId])
  else adopt s

/-- the effect of one event before the coroutine looks at its input again. -/
def react (s : State) : Event → R
  | .start =>
    if s.pc = .backoff then (if s.restart then beginRun s else setPc .done s) else (s, [])
  | .connectOk =>
    if s.pc = .connecting then
      let id := s.nextId
      if s.cfg.changes && s.dead then
        -- `processes.connected` raises in `Protocol.connect`: ProcessError → `_reset`; the
        -- connection just made never became `peer.proto` and is dropped
        onOther { s with nextId := id + 1 } ⊳ fun (t : State) => (t, [.close id])
      else
        let o : List Out := match s.conn with | some old => [.close old.id] | none => []
        (({ s with conn := some { id := id }, nextId := id + 1 }, o) : R) ⊳ afterConnect
    else (s, [])
  | .connectFail =>
    if s.pc = .connecting then (if s.conn.isSome then closeP s else (s, [])) ⊳ onOther else (s, [])
  | .incoming => handleConnection s
  | .recv c m =>
    match s.conn with
    | some k =>
      if k.id = c ∧ k.rst = false ∧ k.eof = false then ({ s with conn := some { k with inbox := k.inbox ++ [m] } }, [])
      else (s, [])
    | none => (s, [])
  | .eof c =>
    match s.conn with
    | some k => if k.id = c ∧ k.rst = false then ({ s with conn := some { k with eof := true } }, []) else (s, [])
    | none => (s, [])
  | .sockError c =>
    match s.conn with
    | some k => if k.id = c ∧ k.rst = false then ({ s with conn := some { k with rst := true, inbox := [] } }, []) else (s, [])
    | none => (s, [])
  | .openwaitExpired =>
    match s.pc with
    | .awaitOpen _ => onNotify 5 1 s
    | _ => (s, [])
  | .holdExpired =>
    -- the remote stays silent for more than the hold time: the iterations which run meanwhile
    -- send what is pending, one queued ROUTE-REFRESH each (and notice a teardown request),
    -- before `check_ka` raises
    match s.pc with
    | .mainLoop _ =>
      if s.cfg.hold0 then (s, [])
      else
        drainMain (s.refreshQ + 1) s ⊳ fun (s : State) => match s.pc with
          | .mainLoop _ => onNotify 4 0 s
          | _ => (s, [])
    -- the hold timer runs in OPENCONFIRM too (/repo 5dabac1)
    | .awaitKa _ => if s.cfg.hold0 then (s, []) else onNotify 4 0 s
    | _ => (s, [])
  | .tick =>
    match s.pc with
    | .mainLoop c =>
      (match s.conn with
       | some k => if k.id = c then mainIter none s else staleIter s
       | none => staleIter s)
    | _ => (s, [])
  | .teardown code => ({ s with teardown := some code, restart := true }, [])
  | .reestablish => ({ s with teardown := some 3, restart := true }, [])
  | .stop => (if s.conn.isSome then closeP s else (s, [])) ⊳ stopP
  | .queueRefresh => ({ s with refreshQ := s.refreshQ + 1 }, [])
  | .apiDies => ({ s with dead := true }, [])
  | .announce =>
    ({ s with ribNonEmpty := true,
              routesPending := (match s.pc with | .mainLoop _ => true | _ => s.routesPending) }, [])

def step (s : State) (e : Event) : R := react s e ⊳ fun (s : State) => advance (fuelOf s) s

/-- all events in order; the trace is the concatenation of what each step put out. -/
def run (s : State) : List Event → R
  | [] => (s, [])
  | e :: es => step s e ⊳ fun (s : State) => run s es

/-- per-event buckets (what the driver prints). -/
def runBuckets (s : State) : List Event → State × List (List Out)
  | [] => (s, [])
  | e :: es =>
    let r := step s e
    let r2 := runBuckets r.1 es
    (r2.1, r.2 :: r2.2)

/-! ## the RFC side (hand-written specification) -/

/-- RFC 4271 §8.2.2: the state changes the FSM description contains (remaining in a state is
    always allowed; `Connect/Active → OpenConfirm` is the DelayOpen path). -/
def rfcTable : List (Fsm × Fsm) :=
  [ (.idle, .idle), (.idle, .connect), (.idle, .active),
    (.connect, .connect), (.connect, .active), (.connect, .opensent), (.connect, .openconfirm), (.connect, .idle),
    (.active, .active), (.active, .connect), (.active, .opensent), (.active, .openconfirm), (.active, .idle),
    (.opensent, .opensent), (.opensent, .active), (.opensent, .openconfirm), (.opensent, .idle),
    (.openconfirm, .openconfirm), (.openconfirm, .established), (.openconfirm, .idle),
    (.established, .established), (.established, .idle) ]

/-- why a session is ended. -/
inductive Cause where
  | fault (f : Fault)        -- malformed header / OPEN / UPDATE
  | sem (e : OpenSem)        -- unacceptable OPEN
  | unexpected (m : Msg)     -- a well-formed message the state does not allow
  | operational              -- a message type whose capability was not negotiated
  | holdTimer                -- hold timer (established or openconfirm)
  | openTimer                -- the configured wait for the peer's OPEN (openwait): the fixed text of C12 makes it 5/1
  | cease (code : Nat)       -- API teardown / stop
  | keepaliveHold0           -- KEEPALIVE although the negotiated hold time is 0
deriving DecidableEq, Repr

/-- RFC 6608 subcode of "message unexpected for the state". -/
def fsmSub : Fsm → Nat
  | .opensent => 1
  | .openconfirm => 2
  | .established => 3
  | _ => 0

/-- the acceptable NOTIFICATION (code, subcode) for a cause in a state — RFC 4271 §6.1–6.8,
    RFC 6608, RFC 7313 §5.  An empty list means: no NOTIFICATION may be sent (RFC 4271 §6.4:
    an error in a NOTIFICATION is not answered).  Where the RFCs leave two readings (a
    malformed OPEN or UPDATE arriving in a state that does not expect the message at all) both
    are accepted. -/
def errorClass (c : Cause) (st : Fsm) : List (Nat × Nat) :=
  let unexp : List (Nat × Nat) := [(5, fsmSub st)]
  match c with
  | .fault .badMarker => [(1, 1)]
  | .fault .badLength | .fault .tooLong | .fault .kaLen | .fault .openShort => [(1, 2)]
  | .fault .rrLen => [(1, 2), (7, 1)]
  | .fault .unknownType => [(1, 3)]
  | .fault .openVersion => if st = .opensent then [(2, 1)] else [(2, 1)] ++ unexp
  | .fault .openOptParam => if st = .opensent then [(2, 4)] else [(2, 4)] ++ unexp
  | .fault .updAttrLen => if st = .established then [(3, 1)] else [(3, 1)] ++ unexp
  | .fault .updNlri => if st = .established then [(3, 10)] else [(3, 10)] ++ unexp
  | .sem .badAs => [(2, 2)]
  | .sem .badId => [(2, 3)]
  | .sem .badHold => [(2, 6)]
  | .unexpected _ => unexp
  | .operational => [(1, 3)] ++ unexp
  | .holdTimer => [(4, 0)]
  | .openTimer => [(5, 1)]
  | .cease _ => [(6, 1), (6, 2), (6, 3), (6, 4), (6, 5), (6, 6), (6, 7), (6, 8), (6, 9), (6, 10)]
  | .keepaliveHold0 => [(2, 6)] ++ unexp

end Exa.Session
