import ExaModel.Props.C10
#print axioms Exa.Props.C10.one_notification
#print axioms Exa.Props.C10.none_after_received_notification
#print axioms Exa.Props.C10.code_is_class
#print axioms Exa.Props.C10.code_is_class_run
#print axioms Exa.Props.C10.api_failure_writes_nothing
#print axioms Exa.Props.C10.api_alive_of_no_death
#print axioms Exa.Props.C10.f30_witness
#print axioms Exa.Props.C10.hold_timer_in_openconfirm
#print axioms Exa.Props.C10.hold_and_cease_codes
#print axioms Exa.Props.C10.raised_defined
#print axioms Exa.Props.C10.semCode_defined
#print axioms Exa.Props.C10.subcode_names_rfc
#print axioms Exa.Props.C10.code_names_rfc
#print axioms Exa.Props.C10.refused_incoming_is_cease
#print axioms Exa.Props.C10.accepted_trace_silent_after_notification
