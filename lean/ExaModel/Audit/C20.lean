import ExaModel.Props.C20
#print axioms Exa.Props.C20.c20_tables
#print axioms Exa.Props.C20.c20_py_trigger
#print axioms Exa.Props.C20.c20_py_states
#print axioms Exa.Props.C20.c20_py_one
#print axioms Exa.Props.C20.c20_states_complete
#print axioms Exa.Props.C20.c20_unhandled_unreachable
#print axioms Exa.Props.C20.c20_up_needs_rise
#print axioms Exa.Props.C20.c20_down_needs_fall
#print axioms Exa.Props.C20.c20_disabled_needs_file
#print axioms Exa.Props.C20.c20_ann_targets
#print axioms Exa.Props.C20.c20_single_contrary_no_change
#print axioms Exa.Props.C20.c20_first_result_quiet
#print axioms Exa.Props.C20.c20_written_is_announced
#print axioms Exa.Props.C20.c20_exit_withdraws
#print axioms Exa.Props.C20.c20_command_fields
#print axioms Exa.Props.C20.c20_one_line_per_ip
#print axioms Exa.Props.C20.c20_every_line_is_configured
