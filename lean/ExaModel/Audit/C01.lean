import ExaModel.Props.C01
#print axioms Exa.Props.C01.meets_iff
#print axioms Exa.Props.C01.c01_roundtrip_partial
#print axioms Exa.Props.C01.c01_defaults
#print axioms Exa.Props.C01.c01_self
#print axioms Exa.Props.C01.c01_self_resolves
#print axioms Exa.Props.C01.c01_self_per_session
#print axioms Exa.Props.C01.c01_trans_def
#print axioms Exa.Props.C01.c01_astrans
#print axioms Exa.Props.C01.c01_raised_iff
#print axioms Exa.Props.C01.c01_flags_rfc
#print axioms Exa.Props.C01.c01_classic_only_unicast
#print axioms Exa.Props.C01.c01_constants_rfc
#print axioms Exa.Props.C01.c01_full_fails_ext_nexthop
#print axioms Exa.Props.C01.c01_full_fails_v4_nexthop_v6_route
#print axioms Exa.Props.C01.c01_full_fails_self_router_id
#print axioms Exa.Props.C01.c01_full_fails_link_local_vpn
#print axioms Exa.Props.C01.c01_full_fails
