import ExaModel.Props.C08
#print axioms Exa.Props.C08.table_ok
#print axioms Exa.Props.C08.table_value_errors_classed
#print axioms Exa.Props.C08.table_flags_exclusive
#print axioms Exa.Props.C08.table_classes_rfc_partial
#print axioms Exa.Props.C08.mp_nh_table_sub
#print axioms Exa.Props.C08.c08_general
#print axioms Exa.Props.C08.c08_repaired
#print axioms Exa.Props.C08.c08_partial
#print axioms Exa.Props.C08.c08_overrun
#print axioms Exa.Props.C08.overrun_never_kept
#print axioms Exa.Props.C08.parse_errors_are_update_errors
#print axioms Exa.Props.C08.c08_fails_segment0
