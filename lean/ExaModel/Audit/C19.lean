import ExaModel.Props.C19
#print axioms Exa.Props.C19.c19_fails
#print axioms Exa.Props.C19.c19_fails_witness
#print axioms Exa.Props.C19.c19_fails_aigp
#print axioms Exa.Props.C19.c19_partial
#print axioms Exa.Props.C19.c19_repaired
#print axioms Exa.Props.C19.c19_repaired_each
#print axioms Exa.Props.C19.c19_repaired_still_caches
#print axioms Exa.Props.C19.c19_single_slot
#print axioms Exa.Props.C19.c19_dict_cache_transparent
#print axioms Exa.Props.C19.c19_attr_klass_rewrite_harmless
#print axioms Exa.Props.C19.c19_cap_klass_rewrite_alters_earlier
#print axioms Exa.Props.C19.c19_cap_registry_not_single_code
#print axioms Exa.Props.C19.c19_reads_outside_mp_are_in_key
#print axioms Exa.Props.C19.c19_uncached_codes
