import ExaModel.Props.C18
#print axioms Exa.Props.C18.fits_roundtrip
#print axioms Exa.Props.C18.nofit_no_encoding
#print axioms Exa.Props.C18.every_wire_value_valid
#print axioms Exa.Props.C18.full_fields
#print axioms Exa.Props.C18.encode_length
#print axioms Exa.Props.C18.encode_wellformed
#print axioms Exa.Props.C18.encode_valid
#print axioms Exa.Props.C18.rfc_limit_is_layout_limit
#print axioms Exa.Props.C18.rfc_values_fit
#print axioms Exa.Props.C18.asn_fits_every_session
#print axioms Exa.Props.C18.astrans_shape
#print axioms Exa.Props.C18.unfit_wraps
#print axioms Exa.Props.C18.segSplit_sound
#print axioms Exa.Props.C18.parser_constants_not_above_wire
#print axioms Exa.Props.C18.parser_constants_reach_rfc
#print axioms Exa.Props.C18.flow_widths_match
#print axioms Exa.Props.C18.generated_constants
