import ExaModel.Props.C06
#print axioms Exa.Props.C06.msglength_is_rfc
#print axioms Exa.Props.C06.c06_independent
#print axioms Exa.Props.C06.c06_chunks
#print axioms Exa.Props.C06.c06_delivers_exactly
#print axioms Exa.Props.C06.c06_header_errors
#print axioms Exa.Props.C06.c06_py_header_decision
#print axioms Exa.Props.C06.c06_bound_is_negotiated
#print axioms Exa.Props.C06.c06_over_negotiated_is_1_2
#print axioms Exa.Props.C06.c06_error_ends_session
#print axioms Exa.Props.C06.c06_unknown_type
#print axioms Exa.Props.C06.c06_setmax_at_boundary
#print axioms Exa.Props.C06.parse1_strict_prefix
#print axioms Exa.Props.C06.c06_incomplete_tail_is_held
