import ExaModel.Props.C05
#print axioms Exa.Props.C05.states_are_rfc
#print axioms Exa.Props.C05.table_subset_rfc
#print axioms Exa.Props.C05.table_not_enforced
#print axioms Exa.Props.C05.only_rfc_transitions
#print axioms Exa.Props.C05.labels_are_the_state
#print axioms Exa.Props.C05.established_requires
#print axioms Exa.Props.C05.send_only_established
#print axioms Exa.Props.C05.leave_closes
#print axioms Exa.Props.C05.transports_closed_or_current
#print axioms Exa.Props.C05.up_down_alternate
#print axioms Exa.Props.C05.handle_connection_py_is_model
#print axioms Exa.Props.C05.can_reconnect_py_is_model
#print axioms Exa.Props.C05.reset_py_is_model
#print axioms Exa.Props.C05.control_py_is_model
#print axioms Exa.Props.C05.close_py_is_model
#print axioms Exa.Props.C05.accepted_trace_satisfies
