import ExaModel.Props.C11
#print axioms Exa.Props.C11.c11_good_again
#print axioms Exa.Props.C11.c11_resync
#print axioms Exa.Props.C11.c11_silent_while_down
#print axioms Exa.Props.C11.c11_withdrawn_while_down
#print axioms Exa.Props.C11.c11_eor_needs_idle
#print axioms Exa.Props.C11.c11_eor_per_family
#print axioms Exa.Props.C11.c11_eor_once
#print axioms Exa.Props.C11.c11_eor_after_table
