import ExaModel.Props.C11
#print axioms Exa.Props.C11.c11_good_again
#print axioms Exa.Props.C11.c11_resync
#print axioms Exa.Props.C11.c11_silent_while_down
#print axioms Exa.Props.C11.c11_withdrawn_while_down
