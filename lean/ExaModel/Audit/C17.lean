import ExaModel.Props.C17
#print axioms Exa.Props.C17.reload_delta_up
#print axioms Exa.Props.C17.reload_delta_up_midloop
#print axioms Exa.Props.C17.reload_delta_down
#print axioms Exa.Props.C17.reload_delta_restart
#print axioms Exa.Props.C17.reload_delta_new
#print axioms Exa.Props.C17.deltaView_spec
#print axioms Exa.Props.C17.reload_fail_atomic_partial
#print axioms Exa.Props.C17.reload_fail_first_line
#print axioms Exa.Props.C17.reload_fail_keeps_peers
#print axioms Exa.Props.C17.reload_fail_leaks_routes
#print axioms Exa.Props.C17.reload_fail_leaks_routes_down
#print axioms Exa.Props.C17.reload_missing_file_wipes
#print axioms Exa.Props.C17.reload_missing_file_breaks_api
#print axioms Exa.Props.C17.reload_after_failure_refused
#print axioms Exa.Props.C17.reload_fail_atomic_false
