import ExaModel.Props.C17
#print axioms Exa.Props.C17.reload_delta_up
#print axioms Exa.Props.C17.reload_delta_up_midloop
#print axioms Exa.Props.C17.reload_delta_down
#print axioms Exa.Props.C17.reload_delta_restart
#print axioms Exa.Props.C17.reload_delta_new
#print axioms Exa.Props.C17.deltaView_spec
#print axioms Exa.Props.C17.reload_fail_atomic
#print axioms Exa.Props.C17.reload_fail_empties_pending
#print axioms Exa.Props.C17.reload_keeps_pending_empty
#print axioms Exa.Props.C17.reload_fail_sends_nothing
#print axioms Exa.Props.C17.reload_fail_api_works
#print axioms Exa.Props.C17.reload_after_failure_ok
#print axioms Exa.Props.C17.reload_failures_atomic
#print axioms Exa.Props.C17.reload_removed_leaves_nothing
#print axioms Exa.Props.C17.reload_readd_starts_empty
#print axioms Exa.Props.C17.reload_keeps_unapplied_link
#print axioms Exa.Props.C17.reload_link_is_previous
