import ExaModel.Props.C13
#print axioms Exa.Props.C13.parse_render
#print axioms Exa.Props.C13.single_line
#print axioms Exa.Props.C13.parseLine_render
#print axioms Exa.Props.C13.parse_nodup
#print axioms Exa.Props.C13.parseLine_sound
#print axioms Exa.Props.C13.escape_safe
#print axioms Exa.Props.C13.escape_injective
#print axioms Exa.Props.C13.escape_pair_collision
#print axioms Exa.Props.C13.hostile_leaves_keep_skeleton
#print axioms Exa.Props.C13.printable_table_controls
#print axioms Exa.Props.C13.oneline_no_control
#print axioms Exa.Props.C13.oneline_ascii_of_ascii
#print axioms Exa.Props.C13.oneline_safe_fails
#print axioms Exa.Props.C13.onelineFixed_safe
#print axioms Exa.Props.C13.oneline_not_injective
#print axioms Exa.Props.C13.oneline_injective_partial
#print axioms Exa.Props.C13.textline_spec
