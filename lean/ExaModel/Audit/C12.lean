import ExaModel.Props.C12
#print axioms Exa.Props.C12.timer_table_spec
#print axioms Exa.Props.C12.no_early_expiry
#print axioms Exa.Props.C12.expiry_by
#print axioms Exa.Props.C12.hold_expiry_window
#print axioms Exa.Props.C12.h0_never_fires
#print axioms Exa.Props.C12.h0_no_periodic_ka
#print axioms Exa.Props.C12.ka_interval_le
#print axioms Exa.Props.C12.ka_gap
#print axioms Exa.Props.C12.ka_fresh
#print axioms Exa.Props.C12.ka_min_gap
#print axioms Exa.Props.C12.outbound_traffic_is_invisible
#print axioms Exa.Props.C12.ka_gap_with_outbound
#print axioms Exa.Props.C12.negotiated_hold_is_min
#print axioms Exa.Props.C12.zero_in_either_open_disables_timers
#print axioms Exa.Props.C12.openwait_5_1
