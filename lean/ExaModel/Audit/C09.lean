import ExaModel.Props.C09
#print axioms Exa.Props.C09.ext_len_switch
#print axioms Exa.Props.C09.c09_fits
#print axioms Exa.Props.C09.c09_complete
#print axioms Exa.Props.C09.c09_nothing_else
#print axioms Exa.Props.C09.c09_own_nexthop
#print axioms Exa.Props.C09.c09_no_room
#print axioms Exa.Props.C09.c09_gives_up_before_first_message
#print axioms Exa.Props.C09.c09_rib_shaped_runs_to_end
#print axioms Exa.Props.C09.c09_partial
#print axioms Exa.Props.C09.c09_unfit_oversize
#print axioms Exa.Props.C09.c09_mixed_mp_raises
