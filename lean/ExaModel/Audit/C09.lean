import ExaModel.Props.C09
#print axioms Exa.Props.C09.ext_len_switch
#print axioms Exa.Props.C09.c09_fits
#print axioms Exa.Props.C09.c09_no_exception
#print axioms Exa.Props.C09.c09_complete
#print axioms Exa.Props.C09.c09_nothing_else
#print axioms Exa.Props.C09.c09_own_nexthop
#print axioms Exa.Props.C09.c09_attrs_present
#print axioms Exa.Props.C09.c09_no_room
#print axioms Exa.Props.C09.c09
#print axioms Exa.Props.C09.msg_len_is_encoding_length
#print axioms Exa.Props.C09.c09_parses_alone
#print axioms Exa.Props.C09.c09_decoded_union
#print axioms Exa.Props.C09.realRho_realises
