import ExaModel.Props.C04
#print axioms Exa.Props.C04.c04_converges
#print axioms Exa.Props.C04.c04_converges_from
#print axioms Exa.Props.C04.c04_withdrawn_stays_withdrawn
#print axioms Exa.Props.C04.c04_last_announce_wins
