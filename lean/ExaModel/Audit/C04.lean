import ExaModel.Props.C04
#print axioms Exa.Props.C04.c04_converges
#print axioms Exa.Props.C04.c04_converges_from
#print axioms Exa.Props.C04.c04_withdrawn_stays_withdrawn
#print axioms Exa.Props.C04.c04_last_announce_wins
#print axioms Exa.Props.C04.flushed_not_pending
#print axioms Exa.Props.C04.drain_quiet
#print axioms Exa.Props.C04.c04_drained_is_silent
#print axioms Exa.Props.C04.c04_drained_steps_silent
