import ExaModel.Props.C02
import ExaModel.Props.C02Exa
#print axioms Exa.Props.C02.wire_left_inverse
#print axioms Exa.Props.C02.wire_attr_left_inverse
#print axioms Exa.Props.C02.wire_nlri_left_inverse
#print axioms Exa.Props.C02.decode_consumes_all
#print axioms Exa.Props.C02.merge_rfc6793
#print axioms Exa.Props.C02.merge_discards_as4_confed
#print axioms Exa.Props.C02.merge_empty_as4
#print axioms Exa.Props.C02.eor_iff
#print axioms Exa.Props.C02.report_announce_iff
#print axioms Exa.Props.C02.report_withdraw_iff
#print axioms Exa.Props.C02.attr_table_matches_rfc
#print axioms Exa.Props.C02.family_table_matches_rfc
#print axioms Exa.Props.C02.aigp_absent_when_session_disabled
#print axioms Exa.Props.C02.aigp_reported_when_session_enabled
#print axioms Exa.Props.C02.aigp_changes_type_26_only
#print axioms Exa.Props.C02Exa.table_zero
#print axioms Exa.Props.C02Exa.exa_decoder_agrees_reference_partial
#print axioms Exa.Props.C02Exa.exa_decodes_wellformed
#print axioms Exa.Props.C02Exa.exa_nothing_dropped
#print axioms Exa.Props.C02Exa.exa_nothing_invented
#print axioms Exa.Props.C02Exa.exa_merge_is_rfc6793
