import ExaModel.Props.C03
#print axioms Exa.Props.C03.decode_error_defined
#print axioms Exa.Props.C03.decode_total
#print axioms Exa.Props.C03.raised_codes_defined
#print axioms Exa.Props.C03.defined_table_spec
#print axioms Exa.Props.C03.error_sites_are_rfc
#print axioms Exa.Props.C03.steps_compute_the_walks
#print axioms Exa.Props.C03.walks_make_progress
#print axioms Exa.Props.C03.fuel_never_binds
#print axioms Exa.Props.C03.attr_walk_steps
#print axioms Exa.Props.C03.nlri_walk_steps
#print axioms Exa.Props.C03.aspath_walk_steps
#print axioms Exa.Props.C03.label_walk_steps
#print axioms Exa.Props.C03.update_work_linear
#print axioms Exa.Props.C03.valid_not_refused
#print axioms Exa.Props.C03.hundreds_of_unknown_attributes
#print axioms Exa.Props.C03.unknown_attributes_any_number
