import ExaModel.Props.C16
#print axioms Exa.Props.C16.flow_roundtrip
