import ExaModel.Driver.Pack
import ExaModel.Driver.Loop
open Exa.Driver

def main : IO Unit :=
  runDriver () (fun st line =>
    match words line with
    | "pack" :: ws => (st, packLine ws)
    | _ => (st, "bad-op"))
