import ExaModel.Driver.Flow
open Exa.Driver

/-- Line loop of the M-Flow driver: one output line per input line, flushed after every line so the
    harness can also use it interactively (shrinking asks one question at a time). -/
partial def flowLoop (h out : IO.FS.Stream) : IO Unit := do
  let line ← h.getLine
  if line.isEmpty then return ()
  let o := match words (line.trimAscii.toString) with
    | "flow" :: ws => (flowLine () ws).2
    | _ => "bad-op"
  out.putStrLn o
  out.flush
  flowLoop h out

def main : IO Unit := do
  let stdin ← IO.getStdin
  let stdout ← IO.getStdout
  flowLoop stdin stdout
  stdout.flush
