import ExaModel.Driver.Flow
import ExaModel.Driver.Loop
open Exa.Driver

def main : IO Unit :=
  runDriver () (fun st line =>
    match words line with
    | "flow" :: ws => flowLine st ws
    | _ => (st, "bad-op"))
