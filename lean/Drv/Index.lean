import ExaModel.Driver.Index
import ExaModel.Driver.Loop
open Exa.Driver

def main : IO Unit := runDriver () indexDrvLine
