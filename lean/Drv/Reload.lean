import ExaModel.Driver.Reload
open Exa.Driver

/- The line loop of this driver flushes after every answer: the harness talks to it interactively
   (what it asks next depends on the state the model reports). -/
partial def reloadLoop (h out : IO.FS.Stream) (st : Exa.Reload.World) : IO Unit := do
  let line ← h.getLine
  if line.isEmpty then return ()
  let (st', o) :=
    match words (line.trimAscii.toString) with
    | "reload" :: ws => Exa.Driver.Reload.reloadLine st ws
    | _ => (st, "bad-op")
  out.putStrLn o
  out.flush
  reloadLoop h out st'

def main : IO Unit := do
  let stdin ← IO.getStdin
  let stdout ← IO.getStdout
  reloadLoop stdin stdout Exa.Reload.World.init
