import ExaModel.Driver.Reload
import ExaModel.Driver.Loop
open Exa.Driver

def main : IO Unit :=
  runDriver Exa.Reload.World.init (fun st line =>
    match words line with
    | "reload" :: ws => Exa.Driver.Reload.reloadLine st ws
    | _ => (st, "bad-op"))
