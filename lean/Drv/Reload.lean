import ExaModel.Driver.Reload
import ExaModel.Driver.Loop
open Exa.Driver

/- The harness talks to this driver interactively (what it asks next depends on the state the model
   reports); the shared line loop flushes after every answer. -/
def main : IO Unit :=
  runDriver Exa.Reload.World.init (fun st line =>
    match words line with
    | "reload" :: ws => Exa.Driver.Reload.reloadLine st ws
    | _ => (st, "bad-op"))
