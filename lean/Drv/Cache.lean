import ExaModel.Driver.DecodeCache
import ExaModel.Driver.Loop
open Exa.Driver

def main : IO Unit :=
  runDriver ({} : CacheSt) (fun st line =>
    match words line with
    | "cache" :: ws => cacheLine st ws
    | _ => (st, "bad-op"))
