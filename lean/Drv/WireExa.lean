import ExaModel.Driver.WireExa
import ExaModel.Driver.Loop
open Exa.Driver

def main : IO Unit :=
  runDriver () (fun st line =>
    match words line with
    | "wireexa" :: ws => (st, wireExaLine ws)
    | _ => (st, "bad-op"))
