import ExaModel.Driver.Frame
import ExaModel.Driver.Loop
open Exa.Driver

def main : IO Unit :=
  runDriver (Exa.Frame.Reader.init 4096) (fun st line =>
    match words line with
    | "frame" :: ws => frameLine st ws
    | _ => (st, "bad-op"))
