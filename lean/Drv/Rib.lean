import ExaModel.Driver.Rib
import ExaModel.Driver.Loop
open Exa.Driver

def main : IO Unit :=
  runDriver (Exa.Rib.Sess.init true []) (fun st line =>
    match words line with
    | "rib" :: ws => ribLine st ws
    | _ => (st, "bad-op"))
