import ExaModel.Driver.Rib
import ExaModel.Driver.Loop
open Exa.Driver

def main : IO Unit :=
  runDriver ({ core := Exa.Rib.Sess.init true [], sendEor := true } : Exa.Rib.ESess) (fun st line =>
    match words line with
    | "rib" :: ws => ribLine st ws
    | _ => (st, "bad-op"))
