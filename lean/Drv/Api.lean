import ExaModel.Driver.Api
import ExaModel.Driver.Loop
open Exa.Driver

def main : IO Unit :=
  runDriver ({} : ApiSt) (fun st line =>
    match words line with
    | "api" :: ws => apiLine st ws
    | _ => (st, "bad-op"))
