import ExaModel.Driver.Fields
import ExaModel.Driver.Loop
open Exa.Driver

def main : IO Unit :=
  runDriver () (fun st line =>
    match words line with
    | "fields" :: ws => fieldsLine st ws
    | _ => (st, "bad-op"))
