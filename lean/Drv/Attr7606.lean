import ExaModel.Driver.Attr7606
import ExaModel.Driver.Loop
open Exa.Driver

def main : IO Unit :=
  runDriver () (fun st line =>
    match words line with
    | "attr7606" :: ws => (st, attr7606Line ws)
    | _ => (st, "bad-op"))
