import ExaModel.Driver.Nego
import ExaModel.Driver.Loop
open Exa.Driver

def main : IO Unit :=
  runDriver () (fun st line =>
    match words line with
    | "nego" :: ws => negoLine st ws
    | _ => (st, "bad-op"))
