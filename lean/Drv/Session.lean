import ExaModel.Driver.Session
open Exa.Driver

/-- one output line per input line, flushed at once (the harness also talks to this driver
    interactively while it generates scripts from the model's state). -/
partial def sessionLoop (h out : IO.FS.Stream) (st : Exa.Session.State) : IO Unit := do
  let line ← h.getLine
  if line.isEmpty then return ()
  let (st', o) :=
    match words line.trimAscii.toString with
    | "session" :: ws => sessionLine st ws
    | _ => (st, "bad-op")
  out.putStrLn o
  out.flush
  sessionLoop h out st'

def main : IO Unit := do
  let stdin ← IO.getStdin
  let stdout ← IO.getStdout
  sessionLoop stdin stdout (Exa.Session.init { passive := false, maxAttempts := 0, hold0 := false, graceful := false } false)
