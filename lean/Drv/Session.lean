import ExaModel.Driver.Session
import ExaModel.Driver.Loop
open Exa.Driver

def main : IO Unit :=
  runDriver (Exa.Session.init { passive := false, maxAttempts := 0, hold0 := false, graceful := false } false) (fun st line =>
    match words line with
    | "session" :: ws => sessionLine st ws
    | _ => (st, "bad-op"))
