import ExaModel.Driver.Health
import ExaModel.Driver.Loop
open Exa.Driver

def main : IO Unit :=
  runDriver ({} : HState) (fun st line =>
    match words line with
    | "health" :: ws => healthLine st ws
    | _ => (st, "bad-op"))
