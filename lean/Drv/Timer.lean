import ExaModel.Driver.Timer
import ExaModel.Driver.Loop
open Exa.Driver

def main : IO Unit :=
  runDriver (Exa.Timer.Sess.init 0 0 0) (fun st line =>
    match words line with
    | "timer" :: ws => timerLine st ws
    | _ => (st, "bad-op"))
