import ExaModel.Driver.Wire
import ExaModel.Driver.Loop
open Exa.Driver

def main : IO Unit :=
  runDriver () (fun st line =>
    match words line with
    | "wire" :: ws => (st, wireLine ws)
    | _ => (st, "bad-op"))
