import ExaModel.Driver.Json
open Exa.Driver

/-- Same loop as `Exa.Driver.runDriver`, flushing after every answer: the C13 harness keeps one
    driver process for the whole run and reads each answer before it sends the next batch. -/
partial def jsonLoop (h out : IO.FS.Stream) : IO Unit := do
  let line ← h.getLine
  if line.isEmpty then return ()
  let o := match words (line.trimAscii.toString) with
    | "json" :: ws => (jsonLine () ws).2
    | _ => "bad-op"
  out.putStrLn o
  out.flush
  jsonLoop h out

def main : IO Unit := do
  let stdin ← IO.getStdin
  let stdout ← IO.getStdout
  jsonLoop stdin stdout
  stdout.flush
