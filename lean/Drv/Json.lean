import ExaModel.Driver.Json
import ExaModel.Driver.Loop
open Exa.Driver

def main : IO Unit :=
  runDriver () (fun st line =>
    match words line with
    | "json" :: ws => jsonLine st ws
    | _ => (st, "bad-op"))
